#!/venv/bin/python
"""
Entry point:  /venv/bin/python /verif/sa/check.py <property-id> [--tier quick|thorough] [--repo /repo]

Decides the property by static analysis of the *current working tree* of the
repository.  See /verif/DESIGN.md.
"""
from __future__ import annotations

import argparse
import importlib
import os
import sys
import traceback

HERE = os.path.dirname(os.path.abspath(__file__))
sys.path.insert(0, os.path.dirname(HERE))

from sa.engine.context import Ctx  # noqa: E402
from sa.engine.report import Report  # noqa: E402
from sa.engine.universe import AnalysisError  # noqa: E402

PROPS = [f"C{n:02d}" for n in range(1, 21)]


def run(prop: str, tier: str, repo: str, shared: "Ctx | None" = None) -> int:
    report = Report(prop, tier)
    try:
        ctx = shared if shared is not None else Ctx(repo)
        report.analysed.update(ctx.base_stats())
        mod = importlib.import_module(f"sa.rules.{prop.lower()}")
        ctx._rule_stack[:] = [prop.lower()]  # pylint: disable=protected-access
        ctx._rule_tainted.clear()  # pylint: disable=protected-access
        ctx.__dict__.setdefault("_rule_cuts", {}).clear()
        mod.run(ctx, report)
        if tier == "thorough":
            if hasattr(mod, "thorough"):
                mod.thorough(ctx, report)
            checker_validation(prop, repo, report)
    except AnalysisError as exc:
        report.undecided("ENGINE", "-", "analysis completes", f"{exc}")
    except Exception as exc:  # pylint: disable=broad-except
        tb = traceback.format_exc().strip().splitlines()
        report.undecided("ENGINE", "-", "analysis completes", f"analyser raised {type(exc).__name__}: {exc} | {' / '.join(tb[-4:])}")
    return report.finish()


def checker_validation(prop: str, repo: str, report: Report) -> None:
    """Thorough tier: run the mutant corpus of this property (information only; never changes the verdict)."""
    import json
    import subprocess
    import tempfile

    if os.environ.get("VERIF_EVIDENCE_DIR"):
        return  # we are inside a self-test run already
    with tempfile.TemporaryDirectory(prefix="verif-cv-") as tmp:
        out = os.path.join(tmp, "res.json")
        try:
            res = subprocess.run([sys.executable, os.path.join(HERE, "selftest", "run.py"), "--only", prop, "--repo", repo, "--json", out], capture_output=True, text=True, timeout=900)
            data = json.load(open(out)) if os.path.exists(out) else []
        except Exception as exc:  # pylint: disable=broad-except
            report.info(f"checker validation could not run: {exc}")
            return
    summary = {
        "variants": len(data),
        "as_expected": sum(1 for r in data if r["status"] == "ok"),
        "unexpected": [r["id"] for r in data if r["status"] == "FAIL"],
        "stale": [r["id"] for r in data if r["status"] == "stale"],
        "firing_variants": sum(1 for r in data if r.get("expect") == "fire"),
        "silent_variants": sum(1 for r in data if r.get("expect") == "silent"),
    }
    report.extra["checker_validation"] = summary
    report.info(f"checker validation: {summary['as_expected']}/{summary['variants']} variants behaved as recorded (fire {summary['firing_variants']}, silent {summary['silent_variants']}); unexpected: {summary['unexpected']}")


def main() -> int:
    parser = argparse.ArgumentParser()
    parser.add_argument("prop")
    parser.add_argument("--tier", default=os.environ.get("VERIF_TIER", "quick"), choices=["quick", "thorough"])
    parser.add_argument("--repo", default=os.environ.get("VERIF_REPO", "/repo"))
    args = parser.parse_args()
    prop = args.prop.upper()
    if prop == "ALL":
        # every property in one process over one parsed universe; complete sub-analyses shared between properties are
        # computed once (tools_regress.py / tools_refactor.py use this; the registered commands run one property each)
        worst = 0
        codes = []
        shared = Ctx(args.repo)
        shared.shared_rule_cache = True  # type: ignore[attr-defined]
        for pid in PROPS:
            if os.path.exists(os.path.join(HERE, "rules", f"{pid.lower()}.py")):
                code = run(pid, args.tier, args.repo, shared)
                codes.append(f"{pid}={code}")
                worst = max(worst, code)
        print("RESULT-CODES " + " ".join(codes))
        return worst
    if prop not in PROPS:
        print(f"unknown property {prop}")
        return 2
    return run(prop, args.tier, args.repo)


def _alarm(signum, frame):  # pragma: no cover
    print("ANALYSIS-ERROR analysis exceeded its time budget")
    sys.stdout.flush()
    os._exit(2)


if __name__ == "__main__":
    import signal

    signal.signal(signal.SIGALRM, _alarm)
    signal.alarm(int(os.environ.get("VERIF_TIME_BUDGET", "600")))
    try:
        code = main()
    except SystemExit:
        raise
    except Exception:  # pylint: disable=broad-except
        traceback.print_exc()
        print("ANALYSIS-ERROR analyser crashed")
        code = 2
    sys.stdout.flush()
    sys.exit(code)
