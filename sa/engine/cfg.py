"""
E4 - control-flow graphs and path queries.

A hand-built CFG over the statement kinds the repository uses.  Nodes are
statements (or branch tests); edges carry the branch polarity.  ``raise``
statements are routed to the matching ``except`` handler of an enclosing
``try`` (by resolved class name when a resolver callback is given) or to the
function's exceptional exit.  Calls are *not* given implicit exceptional edges
here; rules that need "may raise" reasoning use :func:`try_regions`.
"""
from __future__ import annotations

import ast
from dataclasses import dataclass, field
from typing import Callable, Dict, Iterable, Iterator, List, Optional, Sequence, Set, Tuple


@dataclass
class Node:
    id: int
    kind: str  # entry | exit | raise | stmt | test | iter | handler | yield
    ast: Optional[ast.AST] = None
    label: str = ""

    @property
    def lineno(self) -> int:
        return getattr(self.ast, "lineno", 0)

    def __hash__(self) -> int:
        return self.id

    def __repr__(self) -> str:
        txt = ""
        if self.ast is not None:
            try:
                txt = ast.unparse(self.ast).split("\n")[0][:60]
            except Exception:  # pylint: disable=broad-except
                txt = type(self.ast).__name__
        return f"<{self.id}:{self.kind} {txt}>"


Edge = Tuple[int, int, Optional[object]]  # src, dst, label (True/False/'iter'/'done'/None/'exc')


class CFG:
    def __init__(self) -> None:
        self.nodes: List[Node] = []
        self.succ: Dict[int, List[Tuple[int, Optional[object]]]] = {}
        self.pred: Dict[int, List[Tuple[int, Optional[object]]]] = {}
        self.entry = self._new("entry")
        self.exit = self._new("exit")  # normal return / fall off the end
        self.raise_exit = self._new("raise")  # uncaught exception

    def _new(self, kind: str, node: Optional[ast.AST] = None, label: str = "") -> Node:
        n = Node(len(self.nodes), kind, node, label)
        self.nodes.append(n)
        self.succ[n.id] = []
        self.pred[n.id] = []
        return n

    def edge(self, src: Node, dst: Node, label: Optional[object] = None) -> None:
        if (dst.id, label) not in self.succ[src.id]:
            self.succ[src.id].append((dst.id, label))
            self.pred[dst.id].append((src.id, label))

    # ---------------------------------------------------------------- query
    def node_of(self, stmt: ast.AST) -> Optional[Node]:
        for n in self.nodes:
            if n.ast is stmt:
                return n
        return None

    def nodes_where(self, pred: Callable[[Node], bool]) -> List[Node]:
        return [n for n in self.nodes if pred(n)]

    def reachable(self, start: Node, avoid: Iterable[Node] = (), forward: bool = True) -> Set[int]:
        avoid_ids = {n.id for n in avoid}
        seen: Set[int] = set()
        stack = [start.id]
        graph = self.succ if forward else self.pred
        while stack:
            cur = stack.pop()
            if cur in seen or cur in avoid_ids:
                continue
            seen.add(cur)
            for nxt, _ in graph[cur]:
                stack.append(nxt)
        return seen

    def must_pass(self, src: Node, targets: Iterable[Node], through: Iterable[Node]) -> bool:
        """Every path from *src* to any of *targets* passes a node of *through*."""
        reach = self.reachable(src, avoid=through)
        return not any(t.id in reach for t in targets)

    def witness_path(self, src: Node, targets: Iterable[Node], avoid: Iterable[Node] = ()) -> Optional[List[Node]]:
        avoid_ids = {n.id for n in avoid}
        tids = {t.id for t in targets}
        prev: Dict[int, Optional[int]] = {src.id: None}
        queue = [src.id]
        while queue:
            cur = queue.pop(0)
            if cur in tids:
                path = []
                c: Optional[int] = cur
                while c is not None:
                    path.append(self.nodes[c])
                    c = prev[c]
                return path[::-1]
            for nxt, _ in self.succ[cur]:
                if nxt not in prev and nxt not in avoid_ids:
                    prev[nxt] = cur
                    queue.append(nxt)
        return None

    def paths(
        self,
        src: Node,
        dst_ids: Set[int],
        limit: int = 4000,
    ) -> List[List[Tuple[Node, Optional[object]]]]:
        """
        All simple paths from *src* to any node in *dst_ids*.  Each path is a
        list of (node, label-of-the-edge-leaving-it); loops are traversed at
        most once per node (back edges to visited nodes are not followed).
        """
        out: List[List[Tuple[Node, Optional[object]]]] = []

        def dfs(cur: int, trail: List[Tuple[Node, Optional[object]]], seen: Set[int]) -> None:
            if len(out) >= limit:
                return
            if cur in dst_ids:
                out.append(trail + [(self.nodes[cur], None)])
                return
            for nxt, label in self.succ[cur]:
                if nxt in seen:
                    continue
                dfs(nxt, trail + [(self.nodes[cur], label)], seen | {nxt})

        dfs(src.id, [], {src.id})
        return out

    def conditions_to(self, target: Node, start: Optional[Node] = None) -> List[List[Tuple[ast.expr, bool]]]:
        """Branch conditions (test, polarity) on every simple path start -> target."""
        res = []
        for path in self.paths(start or self.entry, {target.id}):
            conds = []
            for node, label in path:
                if node.kind == "test" and isinstance(label, bool) and isinstance(node.ast, ast.expr):
                    conds.append((node.ast, label))
            res.append(conds)
        return res


class Builder:
    def __init__(self, fnode: ast.AST, exc_matcher: Optional[Callable[[ast.expr, Optional[ast.expr]], bool]] = None) -> None:
        self.cfg = CFG()
        self.fnode = fnode
        # stacks
        self.loops: List[Tuple[Node, Node]] = []  # (continue target, break target)
        self.handlers: List[List[Tuple[Optional[ast.expr], Node]]] = []  # innermost last
        self.finals: List[Node] = []
        self.scopes: List[Tuple[str, object]] = []  # ("handlers", frame) / ("finally", node), innermost last: what an exception meets on its way out
        self.caught: List[Optional[ast.expr]] = []  # type of the handler whose body is being built, innermost last
        self.exc_matcher = exc_matcher or (lambda raised, caught: caught is None)

    def build(self) -> CFG:
        body = self.fnode.body  # type: ignore[attr-defined]
        last = self._block(body, [self.cfg.entry])
        for n in last:
            self.cfg.edge(n, self.cfg.exit)
        return self.cfg

    # Each _stmt takes the list of "open" predecessor nodes and returns the
    # list of nodes from which control falls through to the next statement.
    def _block(self, stmts: Sequence[ast.stmt], preds: List[Node]) -> List[Node]:
        cur = preds
        for stmt in stmts:
            if not cur:
                break
            cur = self._stmt(stmt, cur)
        return cur

    def _raise_target(self, raised: Optional[ast.expr]) -> List[Node]:
        """Where a raise of *raised* goes: the matching handler or raise_exit."""
        if raised is None and self.caught and self.caught[-1] is not None and not isinstance(self.caught[-1], ast.Tuple):
            # bare re-raise inside `except T`: an instance of T or of a subclass of it travels on; a handler for a
            # superclass of T takes it for sure, a handler for a subclass of T may
            held = self.caught[-1]
            targets = []
            for kind, frame in reversed(self.scopes):
                if kind == "finally":
                    return targets + [frame]  # the finally block runs first; the exception travels on from its end
                for caught, node in frame:
                    if self.exc_matcher(held, caught):
                        return targets + [node]
                    if caught is not None and not isinstance(caught, ast.Tuple) and self.exc_matcher(caught, held):
                        targets.append(node)
            return targets + [self.cfg.raise_exit]
        if raised is None:
            # bare re-raise / unknown exception: any enclosing handler may match
            targets: List[Node] = []
            for kind, frame in reversed(self.scopes):
                if kind == "finally":
                    return targets + [frame]
                targets += [node for _, node in frame]
            return targets + [self.cfg.raise_exit]
        for kind, frame in reversed(self.scopes):
            if kind == "finally":
                return [frame]
            for caught, node in frame:
                if self.exc_matcher(raised, caught):
                    return [node]
        return [self.cfg.raise_exit]

    def _stmt(self, stmt: ast.stmt, preds: List[Node]) -> List[Node]:
        cfg = self.cfg
        if isinstance(stmt, (ast.FunctionDef, ast.AsyncFunctionDef, ast.ClassDef)):
            node = cfg._new("stmt", stmt, "def")
            self._connect(preds, node)
            return [node]
        if isinstance(stmt, ast.If):
            test = cfg._new("test", stmt.test)
            test._stmt = stmt  # type: ignore[attr-defined]
            self._connect(preds, test)
            t_out = self._block(stmt.body, [self._branch(test, True)])
            f_out = self._block(stmt.orelse, [self._branch(test, False)]) if stmt.orelse else [self._branch(test, False)]
            return t_out + f_out
        if isinstance(stmt, ast.While):
            test = cfg._new("test", stmt.test)
            test._stmt = stmt  # type: ignore[attr-defined]
            self._connect(preds, test)
            after = cfg._new("stmt", None, "after-loop")
            self.loops.append((test, after))
            body_out = self._block(stmt.body, [self._branch(test, True)])
            self.loops.pop()
            self._connect(body_out, test)
            else_out = self._block(stmt.orelse, [self._branch(test, False)]) if stmt.orelse else [self._branch(test, False)]
            self._connect(else_out, after)
            return [after]
        if isinstance(stmt, (ast.For, ast.AsyncFor)):
            it = cfg._new("iter", stmt)
            self._connect(preds, it)
            after = cfg._new("stmt", None, "after-loop")
            self.loops.append((it, after))
            body_out = self._block(stmt.body, [self._branch(it, "iter")])
            self.loops.pop()
            self._connect(body_out, it)
            else_out = self._block(stmt.orelse, [self._branch(it, "done")]) if stmt.orelse else [self._branch(it, "done")]
            self._connect(else_out, after)
            return [after]
        if isinstance(stmt, (ast.With, ast.AsyncWith)):
            node = cfg._new("stmt", stmt, "with")
            self._connect(preds, node)
            return self._block(stmt.body, [node])
        if isinstance(stmt, ast.Try):
            return self._try(stmt, preds)
        if isinstance(stmt, ast.Return):
            node = cfg._new("stmt", stmt, "return")
            self._connect(preds, node)
            if self.finals:
                cfg.edge(node, self.finals[-1], "return")
            else:
                cfg.edge(node, cfg.exit)
            return []
        if isinstance(stmt, ast.Raise):
            node = cfg._new("stmt", stmt, "raise")
            self._connect(preds, node)
            for tgt in self._raise_target(stmt.exc):
                cfg.edge(node, tgt, "exc")
            return []
        if isinstance(stmt, ast.Break):
            node = cfg._new("stmt", stmt, "break")
            self._connect(preds, node)
            if self.loops:
                cfg.edge(node, self.loops[-1][1])
            return []
        if isinstance(stmt, ast.Continue):
            node = cfg._new("stmt", stmt, "continue")
            self._connect(preds, node)
            if self.loops:
                cfg.edge(node, self.loops[-1][0])
            return []
        node = cfg._new("stmt", stmt)
        self._connect(preds, node)
        return [node]

    def _branch(self, test: Node, label: object) -> Node:
        """A pseudo node representing one outgoing branch of *test*."""
        node = self.cfg._new("stmt", None, f"branch:{label}")
        self.cfg.edge(test, node, label)
        return node

    def _connect(self, preds: List[Node], node: Node) -> None:
        for p in preds:
            self.cfg.edge(p, node)

    def _try(self, stmt: ast.Try, preds: List[Node]) -> List[Node]:
        cfg = self.cfg
        final_entry: Optional[Node] = None
        if stmt.finalbody:
            final_entry = cfg._new("stmt", None, "finally")
            final_entry._try = stmt  # type: ignore[attr-defined]
            self.finals.append(final_entry)
            self.scopes.append(("finally", final_entry))
        frame = []
        handler_nodes = []
        for h in stmt.handlers:
            hn = cfg._new("handler", h)
            frame.append((h.type, hn))
            handler_nodes.append(hn)
        self.handlers.append(frame)
        self.scopes.append(("handlers", frame))
        try_entry = cfg._new("stmt", None, "try")
        try_entry._try = stmt  # type: ignore[attr-defined]
        self._connect(preds, try_entry)
        body_out = self._block(stmt.body, [try_entry])
        self.handlers.pop()
        self.scopes.pop()
        else_out = self._block(stmt.orelse, body_out) if stmt.orelse else body_out
        outs = list(else_out)
        for h, hn in zip(stmt.handlers, handler_nodes):
            # implicit: any statement of the try body may raise into the handler
            cfg.edge(try_entry, hn, "exc")
            self.caught.append(h.type)
            outs += self._block(h.body, [hn])
            self.caught.pop()
        if final_entry is not None:
            self.finals.pop()
            self.scopes.pop()
            self._connect(outs, final_entry)
            cfg.edge(try_entry, final_entry, "exc")
            fin_out = self._block(stmt.finalbody, [final_entry])
            # after finally: continue normally, or propagate (exception / return)
            for n in fin_out:
                for tgt in self._raise_target(None):
                    cfg.edge(n, tgt, "exc")
                if self.finals:
                    cfg.edge(n, self.finals[-1], "return")
                else:
                    cfg.edge(n, cfg.exit, "return")
            return fin_out
        return outs


def build_cfg(fnode: ast.AST, exc_matcher=None) -> CFG:
    return Builder(fnode, exc_matcher).build()


def try_regions(fnode: ast.AST) -> List[ast.Try]:
    out = []
    stack = list(ast.iter_child_nodes(fnode))
    while stack:
        node = stack.pop()
        if isinstance(node, (ast.FunctionDef, ast.AsyncFunctionDef, ast.ClassDef, ast.Lambda)):
            continue
        if isinstance(node, ast.Try):
            out.append(node)
        stack.extend(ast.iter_child_nodes(node))
    return out


def enclosing_tries(node: ast.AST, fnode: ast.AST) -> List[Tuple[ast.Try, str]]:
    """(try-statement, part) pairs enclosing *node*, innermost first; part in body/handler/orelse/finalbody."""
    from .universe import parent_of

    out: List[Tuple[ast.Try, str]] = []
    cur = node
    par = parent_of(cur)
    while par is not None and cur is not fnode:
        if isinstance(par, ast.Try):
            if any(cur is s for s in par.body):
                out.append((par, "body"))
            elif any(cur is s for s in par.orelse):
                out.append((par, "orelse"))
            elif any(cur is s for s in par.finalbody):
                out.append((par, "finalbody"))
        elif isinstance(par, ast.ExceptHandler):
            grand = parent_of(par)
            if isinstance(grand, ast.Try):
                out.append((grand, "handler"))
                cur = grand
                par = parent_of(cur)
                continue
        cur = par
        par = parent_of(cur)
    return out
