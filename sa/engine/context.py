"""Shared analysis context: universe, resolver, cached per-function facts, role finders."""
from __future__ import annotations

import ast
from typing import Dict, Iterable, List, Optional, Tuple

from .cfg import CFG, build_cfg
from .exprs import Defs, norm
from .resolve import Resolver
from .universe import AnalysisError, ClassInfo, FuncInfo, Module, Universe, own_nodes


class Ctx:
    def __init__(self, repo: str = "/repo") -> None:
        self.u = Universe(repo)
        self.r = Resolver(self.u)
        self._defs: Dict[str, Defs] = {}
        self._cfg: Dict[str, CFG] = {}

    # ------------------------------------------------------------ caches
    def defs(self, fn: FuncInfo) -> Defs:
        if fn.key not in self._defs:
            self._defs[fn.key] = Defs(fn)
        return self._defs[fn.key]

    def cfg(self, fn: FuncInfo) -> CFG:
        if fn.key not in self._cfg:
            self._cfg[fn.key] = build_cfg(fn.node, lambda raised, caught, fn=fn: self.exc_matches(fn, raised, caught))
        return self._cfg[fn.key]

    # -------------------------------------------------------- exceptions
    def exc_class(self, fn: FuncInfo, expr: Optional[ast.expr]) -> Optional[ClassInfo]:
        if expr is None:
            return None
        if isinstance(expr, ast.Call):
            expr = expr.func
        return self.r.resolve_class(fn.module, expr)

    def exc_matches(self, fn: FuncInfo, raised: Optional[ast.expr], caught: Optional[ast.expr]) -> bool:
        """Does ``except <caught>`` catch ``raise <raised>``?  Unknown -> name comparison."""
        if caught is None:
            return True
        if isinstance(caught, ast.Tuple):
            return any(self.exc_matches(fn, raised, elt) for elt in caught.elts)
        if raised is None:
            return False
        rexpr = raised.func if isinstance(raised, ast.Call) else raised
        cname = norm(caught).split(".")[-1]
        if cname in ("Exception", "BaseException"):
            return True
        rcls = self.r.resolve_class(fn.module, rexpr)
        ccls = self.r.resolve_class(fn.module, caught)
        if rcls is not None and ccls is not None:
            return self.r.is_subclass(rcls, ccls)
        if rcls is not None and ccls is None:
            # caught is a builtin / external class: check base names through the MRO
            for klass in self.r.mro(rcls):
                for base in klass.node.bases:
                    if norm(base).split(".")[-1] == cname:
                        return True
            return False
        return norm(rexpr).split(".")[-1] == cname

    def is_exc_subclass(self, fn: FuncInfo, expr: ast.expr, target: ClassInfo) -> bool:
        cls = self.exc_class(fn, expr)
        return cls is not None and self.r.is_subclass(cls, target)

    # ------------------------------------------------------------- roles
    def public_class(self, name: str) -> ClassInfo:
        """The class exported as ``puresnmp.<name>``."""
        root = self.u.module("puresnmp")
        got = self.r.resolve_name(root, name)
        if got is None or got.kind != "class":
            raise AnalysisError(f"puresnmp.{name} is not exported as a class any more")
        return got.target

    def client(self) -> ClassInfo:
        return self.public_class("Client")

    def wrapper(self) -> ClassInfo:
        return self.public_class("PyWrapper")

    def methods_awaiting_attr(self, cls: ClassInfo, attr: str) -> List[FuncInfo]:
        """Methods of *cls* that call ``self.<attr>(...)``."""
        out = []
        for meth in cls.methods.values():
            for node in own_nodes(meth.node):
                if (
                    isinstance(node, ast.Call)
                    and isinstance(node.func, ast.Attribute)
                    and node.func.attr == attr
                    and isinstance(node.func.value, ast.Name)
                    and node.func.value.id == "self"
                ):
                    out.append(meth)
                    break
        return out

    def sender_attr(self) -> str:
        """Name of the Client attribute that holds the ``sender`` constructor argument."""
        cls = self.client()
        init = cls.methods.get("__init__")
        if init is None:
            raise AnalysisError("Client.__init__ vanished")
        for node in own_nodes(init.node):
            if isinstance(node, ast.Assign) and isinstance(node.value, ast.Name) and node.value.id == "sender":
                for tgt in node.targets:
                    if isinstance(tgt, ast.Attribute) and isinstance(tgt.value, ast.Name) and tgt.value.id == "self":
                        return tgt.attr
        raise AnalysisError("Client.__init__ no longer stores its sender argument on self")

    def send_methods(self) -> List[FuncInfo]:
        """Client methods that await the sender attribute (the sender seam)."""
        cands = self.methods_awaiting_attr(self.client(), self.sender_attr())
        if not cands:
            raise AnalysisError("no method of Client calls the sender attribute any more")
        return cands

    def send_signature(self, fn: FuncInfo) -> Optional[Tuple[str, str]]:
        """(pdu parameter, request-id parameter) of a sender-calling method, if it has both."""
        pdu_cls = self.u.cls("puresnmp.pdu:PDU")
        id_param = pdu_param = None
        for name in fn.params[1:]:
            ann = self.r._param_annotation(fn, name)  # pylint: disable=protected-access
            cls = self.r.resolve_class(fn.module, ann) if ann is not None else None
            if cls is not None and self.r.is_subclass(cls, pdu_cls):
                pdu_param = name
            elif ann is not None and norm(ann) == "int":
                id_param = name
        if id_param and pdu_param:
            return pdu_param, id_param
        return None

    def send_method(self) -> FuncInfo:
        """The sender-calling method that takes (pdu, request id): the seam used by all operations."""
        cands = [c for c in self.send_methods() if self.send_signature(c)]
        if len(cands) != 1:
            raise AnalysisError(f"expected exactly one (pdu, request-id) sender-calling method on Client, found {[c.qualname for c in cands]}")
        return cands[0]

    def callers_of(self, target: FuncInfo, within: Optional[Iterable[FuncInfo]] = None) -> List[Tuple[FuncInfo, ast.Call]]:
        out = []
        pool = list(within) if within is not None else list(self.u.functions.values())
        for fn in pool:
            for node in own_nodes(fn.node):
                if isinstance(node, ast.Call) and target in self.r.callees(fn, node):
                    out.append((fn, node))
        return out

    def fn(self, key: str) -> FuncInfo:
        return self.u.func(key)

    def find_function(self, module: str, *names: str) -> FuncInfo:
        for name in names:
            fn = self.u.maybe_func(f"{module}:{name}")
            if fn is not None:
                return fn
        raise AnalysisError(f"none of {names} found in {module} (anchor vanished)")

    def base_stats(self) -> Dict[str, object]:
        st = dict(self.u.stats())
        st["repo_digest"] = self.u.repo_digest[:16]
        st["x690_digest"] = self.u.x690_digest[:16]
        return st


def bind_call_args(call: ast.Call, params: List[str], skip_self: bool = True) -> Dict[str, ast.expr]:
    """Bind positional and keyword arguments of *call* to parameter names."""
    names = list(params)
    if skip_self and names and names[0] in ("self", "cls"):
        names = names[1:]
    out: Dict[str, ast.expr] = {}
    pos = 0
    for arg in call.args:
        if isinstance(arg, ast.Starred):
            out[f"*{pos}"] = arg.value
            pos += 1
            continue
        if pos < len(names):
            out[names[pos]] = arg
        else:
            out[f"#{pos}"] = arg
        pos += 1
    for kw in call.keywords:
        if kw.arg is not None:
            out[kw.arg] = kw.value
    return out


def dataclass_fields(cls: ClassInfo) -> List[str]:
    """Declared field order of a dataclass / NamedTuple (annotated class attributes)."""
    out = []
    for stmt in cls.node.body:
        if isinstance(stmt, ast.AnnAssign) and isinstance(stmt.target, ast.Name):
            out.append(stmt.target.id)
    return out
