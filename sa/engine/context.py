"""Shared analysis context: universe, resolver, cached per-function facts, role finders."""
from __future__ import annotations

import ast
from typing import Any, Dict, Iterable, List, Optional, Tuple

from .cfg import CFG, build_cfg
from .exprs import Defs, norm
from .resolve import Resolver
from .universe import AnalysisError, ClassInfo, FuncInfo, Module, Universe, own_nodes


class Ctx:
    def __init__(self, repo: str = "/repo") -> None:
        self.u = Universe(repo)
        self.r = Resolver(self.u)
        self._defs: Dict[Any, Defs] = {}
        self._cfg: Dict[Any, CFG] = {}
        self._inlined: Dict[str, FuncInfo] = {}
        self._rule_stack: List[str] = []
        self._rule_cache: Dict[Tuple[str, str, str], Any] = {}
        self._rule_tainted: set = set()

    # ------------------------------------------------- rules shared between properties
    def sub_run(self, module: str, rep: Any) -> Any:
        """
        Runs the rules of another property (``sa.rules.<module>``) into a fresh sub-report whose obligations the
        caller may adopt.  Each module runs at most once per process; a module that is already running further up
        the stack (adoption cycle: C06 -> C11 -> C10 -> C06) contributes nothing to the inner request, and results
        computed under such a cut are not cached.
        """
        import importlib

        from .report import Report

        key = (module, "*" if getattr(self, "shared_rule_cache", False) else rep.prop, rep.tier)
        if key in self._rule_cache:
            return self._rule_cache[key]
        cuts: Dict[str, set] = self.__dict__.setdefault("_rule_cuts", {})
        cut_cache: Dict[Any, List[Tuple[frozenset, Any]]] = self.__dict__.setdefault("_rule_cut_cache", {})

        def note_cut(cut_module: str) -> None:
            # every module running above *cut_module* works with a result that lacks cut_module's contribution
            for m in self._rule_stack[self._rule_stack.index(cut_module) + 1 :]:
                self._rule_tainted.add(m)
                cuts.setdefault(m, set()).add(cut_module)

        sub = Report(rep.prop, rep.tier)
        if module in self._rule_stack:
            note_cut(module)
            return sub
        # a result computed under cuts is valid again whenever the same modules are (still) running further up: it is
        # reused instead of being recomputed once per path through the adoption graph
        on_stack = set(self._rule_stack)
        for cut_set, cached in cut_cache.get(key, []):
            if cut_set <= on_stack:
                for m in cut_set:
                    note_cut(m)
                return cached
        self._rule_stack.append(module)
        cuts[module] = set()
        try:
            importlib.import_module(f"sa.rules.{module}").run(self, sub)
        finally:
            self._rule_stack.pop()
        mine = cuts.pop(module, set())
        if module in self._rule_tainted or mine:
            self._rule_tainted.discard(module)
            cut_cache.setdefault(key, []).append((frozenset(mine), sub))
        else:
            self._rule_cache[key] = sub
        return sub

    # ------------------------------------------------------------ caches
    def defs(self, fn: FuncInfo) -> Defs:
        key = (fn.key, id(fn.node))  # an inlined view shares the key of its function but not its AST
        if key not in self._defs:
            self._defs[key] = Defs(fn)
        return self._defs[key]

    def cfg(self, fn: FuncInfo) -> CFG:
        key = (fn.key, id(fn.node))
        if key not in self._cfg:
            self._cfg[key] = build_cfg(fn.node, lambda raised, caught, fn=fn: self.exc_matches(fn, raised, caught))
        return self._cfg[key]

    def inlined(self, fn: FuncInfo, keep: Iterable[str] = ()) -> FuncInfo:
        """
        *fn* with small same-module helpers spliced in (engine/inline.py); *fn* itself when nothing was spliced.
        Calls of the functions whose keys are in *keep* stay calls (the sender seam, when the rule is about its call).
        """
        from .inline import inlined

        keep = tuple(sorted(keep))
        ckey = fn.key if not keep else f"{fn.key}|keep={','.join(keep)}"
        if ckey not in self._inlined:
            view = inlined(self, fn, keep=keep)
            self._inlined[ckey] = view if getattr(view, "inlined_helpers", 0) else fn
        return self._inlined[ckey]

    # ---------------------------------------------------------- expansion
    def xexpand(self, fn: FuncInfo, expr: ast.AST, depth: int = 3, stop: Iterable[str] = (), keep: Iterable[str] = ()) -> ast.AST:
        """
        Inline single-definition locals, trivially inlinable helper calls
        (functions / methods / closures of the repository whose body is a few
        simple assignments followed by one return) and module-level tuple
        constants.  Lets rules see through extracted helpers and named constants.
        """
        from .exprs import clone, is_log_call

        defs = self.defs(fn)
        stop = list(stop)
        stop_set = set(stop)
        keep_set = set(keep)
        out = defs.expand(expr, stop=stop)
        if depth <= 0:
            return out
        ctx = self

        class Inline(ast.NodeTransformer):
            def visit_Name(self, node: ast.Name) -> ast.AST:  # noqa: N802
                if isinstance(node.ctx, ast.Load) and node.id not in defs.params and not defs.all_values(node.id) and node.id not in defs.other_defs:
                    got = ctx.r.resolve_name(fn.module, node.id)
                    if got is not None and got.kind == "value" and isinstance(got.target, (ast.Tuple, ast.List)) and got.module is fn.module:
                        return clone(got.target)
                # a, b = helper(...): the element a simple helper returns at that position
                if isinstance(node.ctx, ast.Load) and node.id not in stop_set and node.id in defs.unpack and len(defs.unpack[node.id]) == 1 and not defs.all_values(node.id):
                    value, idx, _ = defs.unpack[node.id][0]
                    if isinstance(value, ast.Call) and isinstance(idx, int):
                        inl = self.visit_Call(clone(value))
                        if isinstance(inl, ast.Tuple) and idx < len(inl.elts) and not any(isinstance(e, ast.Starred) for e in inl.elts):
                            return inl.elts[idx]
                return node

            def visit_Call(self, node: ast.Call) -> ast.AST:  # noqa: N802
                self.generic_visit(node)
                try:
                    callees = [c for c in ctx.r.callees(fn, node) if isinstance(c, FuncInfo)]
                except Exception:  # pylint: disable=broad-except
                    return node
                if len(callees) != 1:
                    return node
                callee = callees[0]
                if callee.key in keep_set:
                    return node  # a call the rule wants to see as a call
                if callee.module.external or callee.is_async or callee is fn or any(isinstance(n, (ast.Yield, ast.YieldFrom)) for n in own_nodes(callee.node)):
                    return node
                body = [s for s in callee.node.body if not is_log_call(s)]
                # a guard helper: every return hands back one and the same parameter, everything else tests and
                # raises (def _community_creds(c): if isinstance(c, V2C): return c; raise ...) - identity on that argument
                g_rets = [n for n in own_nodes(callee.node) if isinstance(n, ast.Return)]
                if g_rets and all(isinstance(r.value, ast.Name) and r.value.id in callee.params for r in g_rets) and len({r.value.id for r in g_rets}) == 1:
                    pname = g_rets[0].value.id
                    from .inline import _always_terminates

                    # whatever else it does (tests, conversions it throws away, logging): it either raises or hands
                    # back that very argument
                    plain = all(isinstance(s, (ast.If, ast.Raise, ast.Return, ast.Assert)) for s in body) or _always_terminates(body)
                    rebinds = any(isinstance(n, ast.Name) and n.id == pname and isinstance(n.ctx, ast.Store) for n in own_nodes(callee.node))
                    if plain and not rebinds:
                        gb = bind_call_args(node, callee.params, skip_self=callee.cls is not None and bool(callee.params) and callee.params[0] in ("self", "cls"))
                        if pname in gb:
                            return clone(gb[pname])
                # x = getattr(o, "a", SENTINEL); if x is SENTINEL: raise ...   is   x = o.a   for every value handed back
                guarded_defaults: set = set()
                for i_, st_ in enumerate(body):
                    if isinstance(st_, ast.Assign) and len(st_.targets) == 1 and isinstance(st_.targets[0], ast.Name) and isinstance(st_.value, ast.Call) and isinstance(st_.value.func, ast.Name) and st_.value.func.id == "getattr" and len(st_.value.args) == 3 and isinstance(st_.value.args[1], ast.Constant) and isinstance(st_.value.args[1].value, str):
                        var_, dflt_ = st_.targets[0].id, norm(st_.value.args[2])
                        guarded_ = any(
                            isinstance(g, ast.If) and not g.orelse and g.body and isinstance(g.body[-1], ast.Raise) and norm(g.test) in (f"{var_} is {dflt_}", f"{var_} == {dflt_}")
                            for g in body[i_ + 1:]
                        )
                        if guarded_:
                            guarded_defaults.add(dflt_)
                # refusing guards (`if <test>: raise ...`, assert) do not change the value handed back
                body = [
                    s
                    for s in body
                    if not (isinstance(s, ast.Assert) or (isinstance(s, ast.If) and not s.orelse and s.body and isinstance(s.body[-1], ast.Raise) and all(isinstance(b, ast.Raise) or is_log_call(b) for b in s.body)))
                ]
                # `if <ok>: return X` followed by nothing but a raise: X is the only value ever handed back
                if len(body) >= 2 and isinstance(body[-1], ast.Raise) and isinstance(body[-2], ast.If) and not body[-2].orelse and body[-2].body and isinstance(body[-2].body[-1], ast.Return) and all(isinstance(x, (ast.Assign, ast.AnnAssign)) for x in body[-2].body[:-1]):
                    body = body[:-2] + list(body[-2].body)
                if not body or not isinstance(body[-1], ast.Return) or body[-1].value is None:
                    return node
                if not all(isinstance(s, (ast.Assign, ast.AnnAssign)) and isinstance((s.targets[0] if isinstance(s, ast.Assign) else s.target), ast.Name) for s in body[:-1]):
                    return node
                if any(isinstance(n, (ast.Return,)) for s in body[:-1] for n in ast.walk(s)):
                    return node
                cdefs = ctx.defs(callee)
                ret = cdefs.expand(body[-1].value)
                if guarded_defaults:
                    class _GetAttr(ast.NodeTransformer):
                        def visit_Call(self, n: ast.Call) -> ast.AST:  # noqa: N802
                            self.generic_visit(n)
                            if isinstance(n.func, ast.Name) and n.func.id == "getattr" and len(n.args) == 3 and isinstance(n.args[1], ast.Constant) and isinstance(n.args[1].value, str) and norm(n.args[2]) in guarded_defaults:
                                return ast.Attribute(value=n.args[0], attr=n.args[1].value, ctx=ast.Load())
                            return n

                    ret = _GetAttr().visit(clone(ret))
                params = callee.params
                bound = bind_call_args(node, params, skip_self=callee.cls is not None and bool(params) and params[0] in ("self", "cls"))
                if callee.cls is not None and params and params[0] == "self" and isinstance(node.func, ast.Attribute):
                    bound["self"] = node.func.value
                # defaults
                args = callee.node.args
                pos = args.posonlyargs + args.args
                for a, d in zip(pos[len(pos) - len(args.defaults):], args.defaults):
                    bound.setdefault(a.arg, d)
                if any(p not in bound for p in params if p not in ("cls",)):
                    return node

                class Sub(ast.NodeTransformer):
                    def visit_Name(self, n: ast.Name) -> ast.AST:  # noqa: N802
                        if isinstance(n.ctx, ast.Load) and n.id in bound:
                            return clone(bound[n.id])
                        return n

                    def visit_Lambda(self, n: ast.Lambda) -> ast.AST:  # noqa: N802
                        return n

                return Sub().visit(clone(ret))

        res = Inline().visit(out)
        if depth > 1 and ast.dump(res) != ast.dump(out):
            return self.xexpand(fn, res, depth - 1, stop, keep)
        return res

    # -------------------------------------------------------- exceptions
    def exc_class(self, fn: FuncInfo, expr: Optional[ast.expr]) -> Optional[ClassInfo]:
        if expr is None:
            return None
        if isinstance(expr, ast.Call):
            expr = expr.func
        return self.r.resolve_class(fn.module, expr)

    def exc_classes(self, fn: FuncInfo, expr: Optional[ast.expr], depth: int = 4) -> Optional[List[ClassInfo]]:
        """
        Every class a ``raise <expr>`` may instantiate: a class named directly, or a local bound to a choice
        among classes (``table.get(key, Default)``, ``table[key]``, ``A if c else B``).  None = unknown.
        """
        if expr is None or depth <= 0:
            return None
        if isinstance(expr, ast.Call) and not (isinstance(expr.func, ast.Attribute) and expr.func.attr == "get"):
            expr = expr.func
        cls = self.r.resolve_class(fn.module, expr)
        if cls is not None:
            return [cls]
        defs = self.defs(fn)

        def table_values(name_expr: ast.AST) -> Optional[List[ClassInfo]]:
            tab = name_expr
            if isinstance(tab, ast.Name):
                tab = defs.single(tab.id)
                if tab is None:
                    got = self.r.resolve_expr(fn.module, name_expr)
                    tab = got.target if got is not None and got.kind == "value" else None
            if not isinstance(tab, ast.Dict):
                return None
            out: List[ClassInfo] = []
            for v in tab.values:
                sub = self.exc_classes(fn, v, depth - 1)
                if sub is None:
                    return None
                out += sub
            return out

        if isinstance(expr, ast.Name):
            vals = defs.all_values(expr.id)
            if not vals:
                return None
            out: List[ClassInfo] = []
            for v in vals:
                sub = self.exc_classes(fn, v, depth - 1)
                if sub is None:
                    return None
                out += sub
            return out
        if isinstance(expr, ast.IfExp):
            a, b = self.exc_classes(fn, expr.body, depth - 1), self.exc_classes(fn, expr.orelse, depth - 1)
            return None if a is None or b is None else a + b
        if isinstance(expr, ast.Subscript):
            return table_values(expr.value)
        if isinstance(expr, ast.Call) and isinstance(expr.func, ast.Attribute) and expr.func.attr == "get" and len(expr.args) == 2:
            vals = table_values(expr.func.value)
            dflt = self.exc_classes(fn, expr.args[1], depth - 1)
            return None if vals is None or dflt is None else vals + dflt
        return None

    def exc_matches(self, fn: FuncInfo, raised: Optional[ast.expr], caught: Optional[ast.expr]) -> bool:
        """Does ``except <caught>`` catch ``raise <raised>``?  Unknown -> name comparison."""
        if caught is None:
            return True
        if isinstance(caught, ast.Tuple):
            return any(self.exc_matches(fn, raised, elt) for elt in caught.elts)
        if raised is None:
            return False
        rexpr = raised.func if isinstance(raised, ast.Call) else raised
        cname = norm(caught).split(".")[-1]
        if cname in ("Exception", "BaseException"):
            return True
        rcls = self.r.resolve_class(fn.module, rexpr)
        ccls = self.r.resolve_class(fn.module, caught)
        if rcls is not None and ccls is not None:
            return self.r.is_subclass(rcls, ccls)
        if rcls is not None and ccls is None:
            # caught is a builtin / external class: check base names through the MRO
            for klass in self.r.mro(rcls):
                for base in klass.node.bases:
                    if norm(base).split(".")[-1] == cname:
                        return True
            return False
        return norm(rexpr).split(".")[-1] == cname

    def is_exc_subclass(self, fn: FuncInfo, expr: ast.expr, target: ClassInfo) -> bool:
        cls = self.exc_class(fn, expr)
        return cls is not None and self.r.is_subclass(cls, target)

    # ------------------------------------------------------------- roles
    def public_class(self, name: str) -> ClassInfo:
        """The class exported as ``puresnmp.<name>``."""
        root = self.u.module("puresnmp")
        got = self.r.resolve_name(root, name)
        if got is None or got.kind != "class":
            raise AnalysisError(f"puresnmp.{name} is not exported as a class any more")
        return got.target

    def client(self) -> ClassInfo:
        return self.public_class("Client")

    def wrapper(self) -> ClassInfo:
        return self.public_class("PyWrapper")

    def methods_awaiting_attr(self, cls: ClassInfo, attr: str) -> List[FuncInfo]:
        """Methods of *cls* that call ``self.<attr>(...)``."""
        return self.methods_awaiting_attr_in(cls.methods.values(), attr)

    def methods_awaiting_attr_in(self, methods: Iterable[FuncInfo], attr: str) -> List[FuncInfo]:
        out = []
        for meth in methods:
            for node in own_nodes(meth.node):
                if (
                    isinstance(node, ast.Call)
                    and isinstance(node.func, ast.Attribute)
                    and node.func.attr == attr
                    and isinstance(node.func.value, ast.Name)
                    and node.func.value.id == "self"
                ):
                    out.append(meth)
                    break
        return out

    def sender_attr(self) -> str:
        """Name of the Client attribute that holds the ``sender`` constructor argument."""
        cls = self.client()
        init = cls.methods.get("__init__")
        if init is None:
            raise AnalysisError("Client.__init__ vanished")
        for node in own_nodes(init.node):
            if isinstance(node, ast.Assign) and isinstance(node.value, ast.Name) and node.value.id == "sender":
                for tgt in node.targets:
                    if isinstance(tgt, ast.Attribute) and isinstance(tgt.value, ast.Name) and tgt.value.id == "self":
                        return tgt.attr
        raise AnalysisError("Client.__init__ no longer stores its sender argument on self")

    def send_methods(self) -> List[FuncInfo]:
        """Client methods that await the sender attribute (the sender seam)."""
        cands = self.methods_awaiting_attr(self.client(), self.sender_attr())
        if not cands:
            raise AnalysisError("no method of Client calls the sender attribute any more")
        return cands

    def send_signature(self, fn: FuncInfo) -> Optional[Tuple[str, str]]:
        """(pdu parameter, request-id parameter) of a sender-calling method, if it has both."""
        pdu_cls = self.u.cls("puresnmp.pdu:PDU")
        id_param = pdu_param = None
        for name in fn.params[1:]:
            ann = self.r._param_annotation(fn, name)  # pylint: disable=protected-access
            cls = self.r.resolve_class(fn.module, ann) if ann is not None else None
            if cls is not None and self.r.is_subclass(cls, pdu_cls):
                pdu_param = name
            elif ann is not None and norm(ann) == "int":
                id_param = name
        if id_param and pdu_param:
            return pdu_param, id_param
        return None

    def send_method(self) -> FuncInfo:
        """
        The sender-calling method that takes (pdu, request id): the seam used by all operations.  When the call of
        the sender sits in a small helper of the class (``await self._transmit(payload)``) the result is the seam
        with that helper spliced in (an inlined view with the seam's own key).
        """
        direct = self.send_methods()
        cands = [c for c in direct if self.send_signature(c)]
        if not cands:
            cls = self.client()
            for meth in cls.methods.values():
                if meth in direct or not self.send_signature(meth):
                    continue
                calls_direct = any(isinstance(n, ast.Call) and any(c in direct for c in self.r.callees(meth, n) if isinstance(c, FuncInfo)) for n in own_nodes(meth.node))
                if calls_direct:
                    view = self.inlined(meth)
                    if any(v.key == view.key for v in self.methods_awaiting_attr_in([view], self.sender_attr())):
                        cands.append(view)
        if len(cands) != 1:
            raise AnalysisError(f"expected exactly one (pdu, request-id) sender-calling method on Client, found {[c.qualname for c in cands]}")
        return cands[0]

    def callers_of(self, target: FuncInfo, within: Optional[Iterable[FuncInfo]] = None) -> List[Tuple[FuncInfo, ast.Call]]:
        out = []
        pool = list(within) if within is not None else list(self.u.functions.values())
        for fn in pool:
            for node in own_nodes(fn.node):
                if isinstance(node, ast.Call) and target in self.r.callees(fn, node):
                    out.append((fn, node))
        return out

    def fn(self, key: str) -> FuncInfo:
        return self.u.func(key)

    def find_function(self, module: str, *names: str) -> FuncInfo:
        for name in names:
            fn = self.u.maybe_func(f"{module}:{name}")
            if fn is not None:
                return fn
        raise AnalysisError(f"none of {names} found in {module} (anchor vanished)")

    def base_stats(self) -> Dict[str, object]:
        st = dict(self.u.stats())
        st["repo_digest"] = self.u.repo_digest[:16]
        st["x690_digest"] = self.u.x690_digest[:16]
        return st


def bind_call_args(call: ast.Call, params: List[str], skip_self: bool = True, defs: Optional[Defs] = None) -> Dict[str, ast.expr]:
    """Bind positional and keyword arguments of *call* to parameter names (with *defs*: also the constant-key entries of a
    local dict display handed over as ``**local``)."""
    names = list(params)
    if skip_self and names and names[0] in ("self", "cls"):
        names = names[1:]
    out: Dict[str, ast.expr] = {}
    pos = 0
    for arg in call.args:
        if isinstance(arg, ast.Starred):
            out[f"*{pos}"] = arg.value
            pos += 1
            continue
        if pos < len(names):
            out[names[pos]] = arg
        else:
            out[f"#{pos}"] = arg
        pos += 1
    for kw in call.keywords:
        if kw.arg is not None:
            out[kw.arg] = kw.value
        elif defs is not None and isinstance(kw.value, ast.Name):
            disp = defs.single(kw.value.id)
            if isinstance(disp, ast.Dict):
                for k, v in zip(disp.keys, disp.values):
                    if isinstance(k, ast.Constant) and isinstance(k.value, str):
                        out.setdefault(k.value, v)
    return out


def dataclass_defaults(cls: ClassInfo) -> Dict[str, ast.expr]:
    """Field -> default value expression of a dataclass / NamedTuple (`x: T = v`, `field(default=v)`, `field(default_factory=f)` as `f()`)."""
    out: Dict[str, ast.expr] = {}
    for st in cls.node.body:
        if isinstance(st, ast.AnnAssign) and isinstance(st.target, ast.Name) and st.value is not None:
            val = st.value
            if isinstance(val, ast.Call) and ast.unparse(val.func).split(".")[-1] == "field":
                kws = {k.arg: k.value for k in val.keywords}
                if "default" in kws:
                    val = kws["default"]
                elif "default_factory" in kws:
                    fac = kws["default_factory"]
                    builtin = {"bytes": ast.Constant(b""), "str": ast.Constant(""), "int": ast.Constant(0), "list": ast.List([], ast.Load()), "dict": ast.Dict([], []), "tuple": ast.Tuple([], ast.Load())}
                    val = builtin.get(ast.unparse(fac), ast.Call(func=fac, args=[], keywords=[]))
                else:
                    continue
            out[st.target.id] = val
    return out


def dataclass_fields(cls: ClassInfo) -> List[str]:
    """Declared field order of a dataclass / NamedTuple (annotated class attributes)."""
    out = []
    for stmt in cls.node.body:
        if isinstance(stmt, ast.AnnAssign) and isinstance(stmt.target, ast.Name):
            out.append(stmt.target.id)
    return out
