"""
E5/E6 - expressions: normal form, single-definition inlining, guard atoms,
three-valued boolean evaluation, a small integer interpreter for extracted
expressions (used to decide equivalence with an RFC formula on a finite grid).
"""
from __future__ import annotations

import ast
import copy
import itertools
from typing import Any, Callable, Dict, Iterable, List, Optional, Sequence, Set, Tuple

from .universe import FuncInfo, own_nodes


def norm(expr: ast.AST) -> str:
    return ast.unparse(expr)


def clone(node):
    """Structural copy of an AST (fields and positions only; parent links are not followed)."""
    if isinstance(node, ast.AST):
        new = node.__class__()
        for name in node._fields:
            if hasattr(node, name):
                setattr(new, name, clone(getattr(node, name)))
        for name in ("lineno", "col_offset", "end_lineno", "end_col_offset"):
            if hasattr(node, name):
                setattr(new, name, getattr(node, name))
        return new
    if isinstance(node, list):
        return [clone(x) for x in node]
    return node


def is_log_call(stmt: ast.stmt) -> bool:
    """``LOG.debug(...)`` style statements (and ``warn(...)``) carry no semantics for the rules."""
    if isinstance(stmt, ast.Expr) and isinstance(stmt.value, ast.Call):
        func = stmt.value.func
        if isinstance(func, ast.Attribute) and isinstance(func.value, ast.Name) and func.value.id in ("LOG", "log", "logger", "logging"):
            return True
        if isinstance(func, ast.Name) and func.id in ("warn", "print"):
            return True
    if isinstance(stmt, ast.Expr) and isinstance(stmt.value, ast.Constant):
        return True  # docstring / bare constant
    return False


class Defs:
    """Definitions of local names inside one function (own body only)."""

    def __init__(self, fn: FuncInfo) -> None:
        self.fn = fn
        self.params = set(fn.params)
        self.assigns: Dict[str, List[Tuple[ast.expr, ast.stmt]]] = {}
        self.other_defs: Set[str] = set()  # loop targets, with-as, aug-assign, unpack...
        self.unpack: Dict[str, List[Tuple[ast.expr, int, ast.stmt]]] = {}
        self._fill_cache: Dict[str, Optional[ast.expr]] = {}
        for node in own_nodes(fn.node):
            if isinstance(node, ast.Assign):
                for tgt in node.targets:
                    self._target(tgt, node.value, node)
            elif isinstance(node, ast.AnnAssign):
                if node.value is not None:
                    self._target(node.target, node.value, node)
            elif isinstance(node, ast.AugAssign):
                if isinstance(node.target, ast.Name):
                    self.other_defs.add(node.target.id)
            elif isinstance(node, (ast.For, ast.AsyncFor)):
                for n in ast.walk(node.target):
                    if isinstance(n, ast.Name):
                        self.other_defs.add(n.id)
            elif isinstance(node, (ast.With, ast.AsyncWith)):
                for item in node.items:
                    if item.optional_vars is not None:
                        for n in ast.walk(item.optional_vars):
                            if isinstance(n, ast.Name):
                                self.other_defs.add(n.id)
            elif isinstance(node, ast.ExceptHandler) and node.name:
                self.other_defs.add(node.name)
            elif isinstance(node, ast.NamedExpr) and isinstance(node.target, ast.Name):
                self.other_defs.add(node.target.id)

    def _target(self, tgt: ast.expr, value: ast.expr, stmt: ast.stmt) -> None:
        if isinstance(tgt, ast.Name):
            self.assigns.setdefault(tgt.id, []).append((value, stmt))
        elif isinstance(tgt, (ast.Tuple, ast.List)):
            for idx, elt in enumerate(tgt.elts):
                if isinstance(elt, ast.Name):
                    self.unpack.setdefault(elt.id, []).append((value, idx, stmt))
                    self.other_defs.add(elt.id)
                else:
                    for n in ast.walk(elt):
                        if isinstance(n, ast.Name):
                            self.other_defs.add(n.id)

    def single(self, name: str) -> Optional[ast.expr]:
        """The unique defining expression of a local, if it has exactly one definition."""
        if name in self.params or name in self.other_defs:
            return None
        vals = self.assigns.get(name, [])
        if len(vals) == 1:
            synth = self.fill_loop(name, vals[0][0])
            return synth if synth is not None else vals[0][0]
        return None

    def fill_loop(self, name: str, init: ast.AST) -> Optional[ast.expr]:
        """
        ``xs = []`` / ``d = {}`` filled by exactly one loop whose body only skips
        (``if c: continue``), logs and stores -> the equivalent comprehension.
        """
        is_list = (isinstance(init, ast.List) and not init.elts) or (isinstance(init, ast.Call) and isinstance(init.func, ast.Name) and init.func.id == "list" and not init.args)
        is_dict = (isinstance(init, ast.Dict) and not init.keys) or (isinstance(init, ast.Call) and isinstance(init.func, ast.Name) and init.func.id in ("dict", "OrderedDict") and not init.args and not init.keywords)
        if not (is_list or is_dict):
            return None
        if name in self._fill_cache:
            return self._fill_cache[name]
        self._fill_cache[name] = None
        loops = []
        other_mutation = False
        for node in own_nodes(self.fn.node):
            if isinstance(node, ast.For):
                touches = False
                for sub in ast.walk(node):
                    if isinstance(sub, ast.Call) and isinstance(sub.func, ast.Attribute) and isinstance(sub.func.value, ast.Name) and sub.func.value.id == name and sub.func.attr in ("append", "extend", "insert", "pop", "remove", "clear", "update", "setdefault"):
                        touches = True
                    if isinstance(sub, ast.Subscript) and isinstance(sub.ctx, (ast.Store, ast.Del)) and isinstance(sub.value, ast.Name) and sub.value.id == name:
                        touches = True
                if touches and not any(isinstance(a, ast.For) and a is not node and any(n is node for n in ast.walk(a)) for a in loops):
                    loops.append(node)
        # mutations outside loops
        for node in own_nodes(self.fn.node):
            if isinstance(node, ast.Call) and isinstance(node.func, ast.Attribute) and isinstance(node.func.value, ast.Name) and node.func.value.id == name and node.func.attr in ("append", "extend", "insert", "pop", "remove", "clear", "update", "setdefault"):
                if not any(any(n is node for n in ast.walk(l)) for l in loops):
                    other_mutation = True
        if len(loops) != 1 or other_mutation:
            return None
        loop = loops[0]
        if loop.orelse or any(isinstance(n, (ast.Break, ast.Return, ast.For, ast.While)) for n in ast.walk(ast.Module(body=loop.body, type_ignores=[]))):
            return None
        conds: List[ast.expr] = []
        store = None
        body = list(loop.body)
        while body:
            st = body.pop(0)
            if is_log_call(st):
                continue
            if isinstance(st, ast.If) and not st.orelse and len([x for x in st.body if not is_log_call(x)]) == 1 and isinstance([x for x in st.body if not is_log_call(x)][0], ast.Continue):
                conds.append(ast.UnaryOp(ast.Not(), clone(st.test)))
                continue
            if isinstance(st, ast.If) and not st.orelse and [x for x in st.body if not is_log_call(x)] and isinstance([x for x in st.body if not is_log_call(x)][-1], ast.Raise):
                # a guard that refuses the whole operation: the comprehension describes the executions that complete
                continue
            if isinstance(st, ast.If) and not st.orelse and not body:
                conds.append(clone(st.test))
                body = list(st.body)
                continue
            if store is None and isinstance(st, ast.Expr) and isinstance(st.value, ast.Call) and isinstance(st.value.func, ast.Attribute) and norm(st.value.func.value) == name and st.value.func.attr == "append" and len(st.value.args) == 1 and is_list:
                store = ("list", st.value.args[0])
                continue
            if store is None and isinstance(st, ast.Assign) and len(st.targets) == 1 and isinstance(st.targets[0], ast.Subscript) and norm(st.targets[0].value) == name and is_dict:
                store = ("dict", st.targets[0].slice, st.value)
                continue
            if isinstance(st, ast.Assign) and len(st.targets) == 1 and isinstance(st.targets[0], ast.Name) and store is None:
                # a local computed inside the loop body before the store: keep it by substitution
                local = st.targets[0].id
                rest = body
                val = st.value

                class Sub(ast.NodeTransformer):
                    def visit_Name(self, node: ast.Name) -> ast.AST:  # noqa: N802
                        if node.id == local and isinstance(node.ctx, ast.Load):
                            return clone(val)
                        return node

                body = [Sub().visit(clone(x)) for x in rest]
                continue
            return None
        if store is None:
            return None
        gen = ast.comprehension(target=clone(loop.target), iter=clone(loop.iter), ifs=conds, is_async=0)
        if store[0] == "list":
            out: ast.expr = ast.ListComp(elt=clone(store[1]), generators=[gen])
        else:
            out = ast.DictComp(key=clone(store[1]), value=clone(store[2]), generators=[gen])
        ast.copy_location(out, loop)
        ast.fix_missing_locations(out)
        self._fill_cache[name] = out
        return out

    def single_stmt(self, name: str) -> Optional[ast.stmt]:
        if name in self.params or name in self.other_defs:
            return None
        vals = self.assigns.get(name, [])
        if len(vals) == 1:
            return vals[0][1]
        return None

    def all_values(self, name: str) -> List[ast.expr]:
        return [v for v, _ in self.assigns.get(name, [])]

    def expand(self, expr: ast.AST, depth: int = 8, stop: Iterable[str] = ()) -> ast.AST:
        """Inline single-definition locals (recursively) into a copy of *expr*."""
        stop_set = set(stop)
        defs = self

        class Inliner(ast.NodeTransformer):
            def __init__(self, budget: int) -> None:
                self.budget = budget

            def visit_Name(self, node: ast.Name) -> ast.AST:  # noqa: N802
                if isinstance(node.ctx, ast.Load) and node.id not in stop_set and self.budget > 0:
                    val = defs.single(node.id)
                    if val is not None:
                        sub = Inliner(self.budget - 1)
                        return sub.visit(clone(val))
                return node

            def visit_Lambda(self, node: ast.Lambda) -> ast.AST:  # noqa: N802
                return node

        return Inliner(depth).visit(clone(expr))

    def expanded(self, expr: ast.AST, depth: int = 8) -> str:
        return norm(self.expand(expr, depth))


# ---------------------------------------------------------------------------
# guard atoms


def strip_not(expr: ast.expr, pol: bool = True) -> Tuple[ast.expr, bool]:
    while isinstance(expr, ast.UnaryOp) and isinstance(expr.op, ast.Not):
        expr = expr.operand
        pol = not pol
    return expr, pol


def atom(expr: ast.expr, pol: bool) -> Tuple[str, bool]:
    """Canonical (text, polarity) of an atomic condition."""
    expr, pol = strip_not(expr, pol)
    if isinstance(expr, ast.Compare) and len(expr.ops) == 1:
        op = expr.ops[0]
        left, right = expr.left, expr.comparators[0]
        if isinstance(op, ast.NotIn):
            return norm(ast.Compare(left, [ast.In()], [right])), not pol
        if isinstance(op, ast.IsNot):
            return norm(ast.Compare(left, [ast.Is()], [right])), not pol
        if isinstance(op, ast.NotEq):
            return norm(ast.Compare(left, [ast.Eq()], [right])), not pol
    return norm(expr), pol


def implied(expr: ast.expr, pol: bool) -> Set[Tuple[str, bool]]:
    """Atoms whose truth value follows from ``expr`` evaluating to *pol*."""
    expr, pol = strip_not(expr, pol)
    if isinstance(expr, ast.BoolOp):
        if isinstance(expr.op, ast.Or) and not pol:
            out: Set[Tuple[str, bool]] = set()
            for v in expr.values:
                out |= implied(v, False)
            return out
        if isinstance(expr.op, ast.And) and pol:
            out = set()
            for v in expr.values:
                out |= implied(v, True)
            return out
        return {atom(expr, pol)}
    return {atom(expr, pol)}


def facts_on_all_paths(path_conditions: List[List[Tuple[ast.expr, bool]]], expand: Optional[Callable[[ast.AST], ast.AST]] = None) -> Set[Tuple[str, bool]]:
    """Atoms implied on *every* path (intersection of per-path implied sets)."""
    result: Optional[Set[Tuple[str, bool]]] = None
    for conds in path_conditions:
        facts: Set[Tuple[str, bool]] = set()
        for test, pol in conds:
            texpr = expand(test) if expand else test
            facts |= implied(texpr, pol)  # type: ignore[arg-type]
        result = facts if result is None else (result & facts)
    return result or set()


# ---------------------------------------------------------------------------
# three-valued evaluation of a boolean expression under atom assignments


def eval3(expr: ast.expr, env: Callable[[ast.expr], Optional[bool]]) -> Optional[bool]:
    """
    Kleene evaluation.  *env* gives the truth value of an atomic sub-expression
    or None when unknown.
    """
    known = env(expr)
    if known is not None:
        return known
    if isinstance(expr, ast.UnaryOp) and isinstance(expr.op, ast.Not):
        val = eval3(expr.operand, env)
        return None if val is None else (not val)
    if isinstance(expr, ast.BoolOp):
        vals = [eval3(v, env) for v in expr.values]
        if isinstance(expr.op, ast.And):
            if any(v is False for v in vals):
                return False
            if all(v is True for v in vals):
                return True
            return None
        if any(v is True for v in vals):
            return True
        if all(v is False for v in vals):
            return False
        return None
    if isinstance(expr, ast.Constant):
        return bool(expr.value)
    return None


# ---------------------------------------------------------------------------
# integer interpreter for extracted expressions


class Unevaluable(Exception):
    pass


def int_eval(expr: ast.AST, atoms: Callable[[ast.AST], Optional[Any]]) -> Any:
    """
    Evaluate an (already expanded) integer / boolean expression.  *atoms* maps a
    sub-expression to a value (or None = not an atom).  Only arithmetic,
    comparisons, boolean connectives, ``min`` / ``max`` / ``abs`` / ``len`` of an
    atom are interpreted; anything else raises Unevaluable.  No repository code is
    executed: this is an interpreter over the syntax tree.
    """
    val = atoms(expr)
    if val is not None:
        return val
    if isinstance(expr, ast.Constant) and isinstance(expr.value, (int, bool)):
        return expr.value
    if isinstance(expr, ast.UnaryOp):
        v = int_eval(expr.operand, atoms)
        if isinstance(expr.op, ast.USub):
            return -v
        if isinstance(expr.op, ast.Not):
            return not v
        if isinstance(expr.op, ast.UAdd):
            return v
        raise Unevaluable(norm(expr))
    if isinstance(expr, ast.BinOp):
        a, b = int_eval(expr.left, atoms), int_eval(expr.right, atoms)
        try:
            if isinstance(expr.op, ast.Add):
                return a + b
            if isinstance(expr.op, ast.Sub):
                return a - b
            if isinstance(expr.op, ast.Mult):
                return a * b
            if isinstance(expr.op, ast.FloorDiv):
                return a // b
            if isinstance(expr.op, ast.Mod):
                return a % b
            if isinstance(expr.op, ast.Pow) and 0 <= b < 80:
                return a**b
            if isinstance(expr.op, ast.BitAnd):
                return a & b
            if isinstance(expr.op, ast.BitOr):
                return a | b
            if isinstance(expr.op, ast.LShift) and 0 <= b < 80:
                return a << b
            if isinstance(expr.op, ast.RShift):
                return a >> b
        except ZeroDivisionError:
            raise Unevaluable("division by zero")
        raise Unevaluable(norm(expr))
    if isinstance(expr, ast.BoolOp):
        vals = [int_eval(v, atoms) for v in expr.values]
        if isinstance(expr.op, ast.And):
            res = True
            for v in vals:
                res = v
                if not v:
                    break
            return res
        res = False
        for v in vals:
            res = v
            if v:
                break
        return res
    if isinstance(expr, ast.Compare) and len(expr.ops) == 1 and isinstance(expr.ops[0], (ast.Is, ast.IsNot)) and isinstance(expr.comparators[0], ast.Constant) and expr.comparators[0].value is None:
        int_eval(expr.left, atoms)  # an integer is never None
        return isinstance(expr.ops[0], ast.IsNot)
    if isinstance(expr, ast.Call) and isinstance(expr.func, ast.Name) and expr.func.id == "isinstance" and len(expr.args) == 2 and not expr.keywords:
        # the type test of an argument check: the value is an int (bool when it is True / False)
        val = int_eval(expr.args[0], atoms)
        kinds = expr.args[1].elts if isinstance(expr.args[1], ast.Tuple) else [expr.args[1]]
        names = [norm(k) for k in kinds]
        known = {"int": True, "numbers.Integral": True, "numbers.Number": True, "numbers.Real": True, "object": True, "bool": isinstance(val, bool), "str": False, "bytes": False, "bytearray": False, "float": False, "list": False, "tuple": False, "dict": False, "type(None)": False}
        if all(n_ in known for n_ in names):
            return any(known[n_] for n_ in names)
        raise Unevaluable(norm(expr))
    if isinstance(expr, ast.Compare):
        left = int_eval(expr.left, atoms)
        for op, comp in zip(expr.ops, expr.comparators):
            right = int_eval(comp, atoms)
            ok = {
                ast.Lt: left < right,
                ast.LtE: left <= right,
                ast.Gt: left > right,
                ast.GtE: left >= right,
                ast.Eq: left == right,
                ast.NotEq: left != right,
            }.get(type(op))
            if ok is None:
                raise Unevaluable(norm(expr))
            if not ok:
                return False
            left = right
        return True
    if isinstance(expr, ast.IfExp):
        return int_eval(expr.body, atoms) if int_eval(expr.test, atoms) else int_eval(expr.orelse, atoms)
    if isinstance(expr, ast.Call) and isinstance(expr.func, ast.Name) and not expr.keywords:
        if expr.func.id in ("min", "max") and len(expr.args) >= 2:
            vals = [int_eval(a, atoms) for a in expr.args]
            return min(vals) if expr.func.id == "min" else max(vals)
        if expr.func.id == "abs" and len(expr.args) == 1:
            return abs(int_eval(expr.args[0], atoms))
        if expr.func.id == "int" and len(expr.args) == 1:
            return int(int_eval(expr.args[0], atoms))
        if expr.func.id == "bool" and len(expr.args) == 1:
            return bool(int_eval(expr.args[0], atoms))
        if expr.func.id == "len" and len(expr.args) == 1:
            arg = expr.args[0]
            # len(list(x)) == len(x); len(a + b) == len(a) + len(b)
            if isinstance(arg, ast.Call) and isinstance(arg.func, ast.Name) and arg.func.id in ("list", "tuple") and len(arg.args) == 1:
                return int_eval(ast.Call(ast.Name("len", ast.Load()), [arg.args[0]], []), atoms)
            if isinstance(arg, ast.BinOp) and isinstance(arg.op, ast.Add):
                return int_eval(ast.Call(ast.Name("len", ast.Load()), [arg.left], []), atoms) + int_eval(
                    ast.Call(ast.Name("len", ast.Load()), [arg.right], []), atoms
                )
            if isinstance(arg, ast.BoolOp) and isinstance(arg.op, ast.Or) and len(arg.values) == 2:
                # len(x or []) == len(x)
                second = arg.values[1]
                if isinstance(second, (ast.List, ast.Tuple)) and not second.elts:
                    return int_eval(ast.Call(ast.Name("len", ast.Load()), [arg.values[0]], []), atoms)
    raise Unevaluable(norm(expr))


def names_in(expr: ast.AST) -> Set[str]:
    return {n.id for n in ast.walk(expr) if isinstance(n, ast.Name)}


def calls_in(node: ast.AST, own: bool = True) -> List[ast.Call]:
    src = own_nodes(node) if own else ast.walk(node)
    return [n for n in src if isinstance(n, ast.Call)]


def attr_chain(expr: ast.AST) -> Optional[List[str]]:
    """``a.b.c`` -> ['a','b','c'];  None when not a pure Name/Attribute chain."""
    parts: List[str] = []
    cur = expr
    while isinstance(cur, ast.Attribute):
        parts.append(cur.attr)
        cur = cur.value
    if isinstance(cur, ast.Name):
        parts.append(cur.id)
        return parts[::-1]
    return None


def strip_casts(expr: ast.AST) -> ast.AST:
    """``cast(T, x)`` -> x (casts are not trusted and carry no runtime effect)."""
    while isinstance(expr, ast.Call) and isinstance(expr.func, ast.Name) and expr.func.id == "cast" and len(expr.args) == 2:
        expr = expr.args[1]
    return expr
