"""
E9 - statement-level inlining of small helpers.

Rules that reason about one function's control flow (retry loops, release on
every path, decode steps) would lose sight of the code when a maintainer
extracts a block into a helper.  ``inlined(ctx, fn)`` returns a view of *fn* (a
FuncInfo with the same key, over a rewritten copy of its AST) in which calls of
helper functions / methods of the repository are replaced by the helper's body:

    x = await helper(a, b)      ->   _i1_p = a ; _i1_q = b ; <body> ; x = <returned expr>

Only helpers that are safe to splice are inlined: defined in the same module
(or a method called on ``self`` inherited from a class of another module of the
repository, when every global name it reads is bound to the same definition in
both modules),
not recursive, no yield / global / nonlocal / varargs, and a single ``return``
as the last statement of the body (or none).  Locals of the helper are renamed
with a fresh prefix; ``self`` stays ``self`` for methods called on ``self``.
Nothing is executed; the original AST is left untouched.
"""
from __future__ import annotations

import ast
from typing import Dict, List, Optional, Tuple

from .exprs import clone
from .universe import FuncInfo, docstring_free_body, own_nodes, set_parents

BLOCK_FIELDS = ("body", "orelse", "finalbody")


def _call_of(stmt: ast.stmt) -> Tuple[Optional[ast.Call], bool]:
    """The call a statement consists of ( ``[x =] [await] f(..)`` / ``return [await] f(..)`` ) and whether it is awaited."""
    value = None
    if isinstance(stmt, (ast.Assign, ast.AnnAssign, ast.Expr, ast.Return)):
        value = stmt.value
    if isinstance(stmt, ast.Assign) and len(stmt.targets) != 1:
        return None, False
    awaited = False
    if isinstance(value, ast.Await):
        value, awaited = value.value, True
    if isinstance(value, ast.Call):
        return value, awaited
    return None, False


def _simple_read(expr: ast.AST) -> bool:
    """A name, an attribute chain over one, a constant (evaluating it has no effect and cannot be affected by a call)."""
    while isinstance(expr, ast.Attribute):
        expr = expr.value
    return isinstance(expr, (ast.Name, ast.Constant))


def _splicable(helper: FuncInfo) -> bool:
    node = helper.node
    args = node.args  # type: ignore[attr-defined]
    if args.vararg or args.kwarg or args.posonlyargs:
        return False
    body = docstring_free_body(node)
    if not body:
        return False
    for n in own_nodes(node):
        if isinstance(n, (ast.Yield, ast.YieldFrom, ast.Global, ast.Nonlocal)):
            return False
    rets = [n for n in own_nodes(node) if isinstance(n, ast.Return)]
    if (len(rets) > 1 or (rets and rets[0] is not body[-1])) and structure_returns([clone(s) for s in body], "_ret") is None:
        return False
    if getattr(node, "decorator_list", None):
        deco = [ast.unparse(d) for d in node.decorator_list]
        if any(d not in ("staticmethod", "classmethod") for d in deco):
            return False
    return True


def _same_globals(ctx, helper: FuncInfo, fn: FuncInfo, missing: Dict[str, object]) -> bool:
    """
    A helper of another module of the repository (an inherited method, a shared function) can be spliced only when
    every global name its body reads means the same thing in the module it lands in.
    """
    import builtins

    local = set(_assigned_names(helper.node)) | set(helper.params)
    for n in own_nodes(helper.node):
        if isinstance(n, (ast.FunctionDef, ast.AsyncFunctionDef, ast.Lambda, ast.ClassDef)) and n is not helper.node:
            return False
        if isinstance(n, ast.Name) and isinstance(n.ctx, ast.Load) and n.id not in local:
            here, there = ctx.r.resolve_name(helper.module, n.id), ctx.r.resolve_name(fn.module, n.id)
            if here is None and there is None and hasattr(builtins, n.id):
                continue
            if here is not None and there is None and not hasattr(builtins, n.id):
                missing[n.id] = here  # unknown where the helper lands: bound in the view's own environment
                continue
            if here is None or there is None or here != there:
                return False
    return True


def _has_return(stmts) -> bool:
    for s in stmts if isinstance(stmts, list) else [stmts]:
        if isinstance(s, (ast.FunctionDef, ast.AsyncFunctionDef, ast.ClassDef)):
            continue
        if isinstance(s, ast.Return):
            return True
        for fld in BLOCK_FIELDS:
            blk = getattr(s, fld, None)
            if isinstance(blk, list) and _has_return([b for b in blk if isinstance(b, ast.stmt)]):
                return True
        for h in getattr(s, "handlers", []) or []:
            if _has_return(h.body):
                return True
    return False


def _always_terminates(stmts: List[ast.stmt]) -> bool:
    if not stmts:
        return False
    last = stmts[-1]
    if isinstance(last, (ast.Return, ast.Raise)):
        return True
    if isinstance(last, ast.If):
        return bool(last.orelse) and _always_terminates(last.body) and _always_terminates(last.orelse)
    if isinstance(last, (ast.With, ast.AsyncWith)):
        return _always_terminates(last.body)
    if isinstance(last, ast.Try):
        return not last.orelse and not _has_return(last.finalbody) and _always_terminates(last.body) and all(_always_terminates(h.body) for h in last.handlers)
    return False


def structure_returns(stmts: List[ast.stmt], retvar: str) -> Optional[List[ast.stmt]]:
    """
    The statement list with every ``return X`` turned into ``<retvar> = X`` and the statements after an early return
    moved into the branch that does not return (guard style: ``if c: return a`` / rest  ->  ``if c: ret = a`` /
    ``else: rest``).  Nothing is duplicated; None when the shape is not covered (return inside a loop, a branch that
    only sometimes returns, a try that returns on some paths only).
    """

    def assign(ret: ast.Return) -> ast.stmt:
        node = ast.Assign([ast.Name(retvar, ast.Store())], ret.value if ret.value is not None else ast.Constant(None), lineno=ret.lineno, col_offset=0)
        return node

    def tr(block: List[ast.stmt]) -> Optional[List[ast.stmt]]:
        out: List[ast.stmt] = []
        for idx, s in enumerate(block):
            rest = block[idx + 1:]
            if isinstance(s, ast.Return):
                out.append(assign(s))
                return out
            if not _has_return(s):
                out.append(s)
                continue
            if isinstance(s, ast.If):
                b_ret, o_ret = _has_return(s.body), _has_return(s.orelse)
                b_term, o_term = _always_terminates(s.body), _always_terminates(s.orelse)
                if (b_ret and not b_term) or (o_ret and not o_term):
                    return None
                nb, no, nrest = tr(s.body), tr(s.orelse), None
                if nb is None or no is None:
                    return None
                if not (b_term and o_term):
                    nrest = tr(rest)
                    if nrest is None:
                        return None
                    if b_term:
                        no = no + nrest
                    else:
                        nb = nb + nrest
                s.body = nb or [ast.Pass(lineno=s.lineno, col_offset=0)]
                s.orelse = no
                out.append(s)
                return out
            if isinstance(s, (ast.With, ast.AsyncWith)) and _always_terminates(s.body):
                nb = tr(s.body)
                if nb is None:
                    return None
                s.body = nb
                out.append(s)
                return out
            if isinstance(s, ast.Try) and _always_terminates([s]):
                nb = tr(s.body)
                if nb is None:
                    return None
                s.body = nb
                for h in s.handlers:
                    hb = tr(h.body)
                    if hb is None:
                        return None
                    h.body = hb
                out.append(s)
                return out
            return None
        return out

    return tr(stmts)


def _assigned_names(node: ast.AST) -> List[str]:
    out = []
    for n in own_nodes(node):
        if isinstance(n, ast.Name) and isinstance(n.ctx, (ast.Store, ast.Del)):
            out.append(n.id)
        elif isinstance(n, ast.ExceptHandler) and n.name:
            out.append(n.name)
        elif isinstance(n, (ast.FunctionDef, ast.AsyncFunctionDef)):
            out.append(n.name)
    return out


class _Rename(ast.NodeTransformer):
    def __init__(self, mapping: Dict[str, str]) -> None:
        self.mapping = mapping

    def visit_Name(self, node: ast.Name) -> ast.AST:  # noqa: N802
        if node.id in self.mapping:
            node.id = self.mapping[node.id]
        return node

    def visit_ExceptHandler(self, node: ast.ExceptHandler) -> ast.AST:  # noqa: N802
        if node.name in self.mapping:
            node.name = self.mapping[node.name]
        self.generic_visit(node)
        return node

    def visit_Lambda(self, node: ast.Lambda) -> ast.AST:  # noqa: N802
        # lambda parameters shadow; leave bodies that use their own parameter names alone
        shadow = {a.arg for a in node.args.args}
        saved = self.mapping
        self.mapping = {k: v for k, v in saved.items() if k not in shadow}
        self.generic_visit(node)
        self.mapping = saved
        return node


def inlined(ctx, fn: FuncInfo, depth: int = 3, keep: Tuple[str, ...] = ()) -> FuncInfo:
    """A view of *fn* with small same-module helpers spliced in (see module docstring)."""
    counter = [0]
    new_node = clone(fn.node)
    view = FuncInfo(fn.module, fn.qualname, new_node, fn.cls, fn.parent)
    view.nested = dict(fn.nested)  # local helpers resolve while splicing; re-indexed over the rewritten tree below
    changed = [False]
    counter_env = [0]

    def resolve(call: ast.Call, awaited: bool) -> Optional[FuncInfo]:
        try:
            callees = [c for c in ctx.r.callees(view, call) if isinstance(c, FuncInfo)]
        except Exception:  # pylint: disable=broad-except
            return None
        if len(callees) != 1:
            return None
        helper = callees[0]
        if helper.module.external or helper.key == fn.key or helper.key in keep:
            return None
        if helper.module is not fn.module:
            # only a method of the object itself inherited from a base class of another module (self._accept(..)),
            # never a function of another module: rules anchor on those calls (util helpers of the walk)
            on_self = isinstance(call.func, ast.Attribute) and isinstance(call.func.value, ast.Name) and call.func.value.id in ("self", "cls") and helper.cls is not None
            missing: Dict[str, object] = {}
            if not on_self or not _same_globals(ctx, helper, view, missing):
                return None
            if missing:
                # the view moves to a copy of its module whose environment also knows the helper's imports
                import dataclasses

                counter_env[0] += 1
                mod2 = dataclasses.replace(view.module)
                env2 = dict(ctx.r.env(view.module))
                env2.update(missing)
                mod2.env_name = f"{fn.module.name}#view{id(view)}.{counter_env[0]}"  # type: ignore[attr-defined]
                ctx.r._env[mod2.env_name] = env2  # type: ignore[attr-defined]  # pylint: disable=protected-access
                view.module = mod2
        if helper.is_async != awaited:
            return None
        if not _splicable(helper):
            return None
        return helper

    def splice(stmt: ast.stmt, call: ast.Call, helper: FuncInfo) -> Optional[List[ast.stmt]]:
        from .context import bind_call_args

        counter[0] += 1
        prefix = f"_i{counter[0]}_"
        hnode = helper.node
        params = helper.params
        decos = [ast.unparse(d) for d in getattr(hnode, "decorator_list", [])]
        is_method_on_self = helper.cls is not None and isinstance(call.func, ast.Attribute) and "staticmethod" not in decos
        bound = bind_call_args(call, params, skip_self=is_method_on_self)
        mapping: Dict[str, str] = {}
        pre: List[ast.stmt] = []
        hargs = hnode.args  # type: ignore[attr-defined]
        defaults = dict(zip([a.arg for a in hargs.args][len(hargs.args) - len(hargs.defaults):], hargs.defaults))
        for a, d in zip(hargs.kwonlyargs, hargs.kw_defaults):
            if d is not None:
                defaults[a.arg] = d
        rebound = set(_assigned_names(hnode))
        helper_locals = rebound | set(params)
        target_names = {n.id for t in (stmt.targets if isinstance(stmt, ast.Assign) else [getattr(stmt, "target", None)]) if t is not None for n in ast.walk(t) if isinstance(n, ast.Name)}
        for idx, p in enumerate(params):
            if is_method_on_self and idx == 0:
                recv = call.func.value  # type: ignore[union-attr]
                if isinstance(recv, ast.Name) and recv.id in ("self", "cls"):
                    continue  # same object, same name
                mapping[p] = prefix + p
                pre.append(ast.Assign([ast.Name(prefix + p, ast.Store())], clone(recv), lineno=stmt.lineno, col_offset=0))
                continue
            arg = bound.get(p)
            if arg is None:
                arg = defaults.get(p)
            if arg is None or isinstance(arg, ast.Starred):
                return None
            if isinstance(arg, ast.Name) and p in bound and p not in rebound and (arg.id not in helper_locals or arg.id == p) and arg.id not in target_names:
                mapping[p] = arg.id  # a plain local handed through: the helper reads the caller's name
                continue
            mapping[p] = prefix + p
            pre.append(ast.Assign([ast.Name(prefix + p, ast.Store())], clone(arg), lineno=stmt.lineno, col_offset=0))
        for name in _assigned_names(hnode):
            mapping.setdefault(name, prefix + name)
        body = [clone(s) for s in docstring_free_body(hnode)]
        renamer = _Rename(mapping)
        body = [renamer.visit(s) for s in body]
        result_expr: ast.expr = ast.Constant(None)
        n_rets = sum(1 for s in body if _has_return(s))
        if body and isinstance(body[-1], ast.Return) and n_rets == 1:
            last = body.pop()
            result_expr = last.value if last.value is not None else ast.Constant(None)
        elif n_rets:
            total = _always_terminates(body)
            slot = prefix + "ret"
            direct = False
            if total and isinstance(stmt, ast.Assign) and len(stmt.targets) == 1 and isinstance(stmt.targets[0], ast.Name):
                tname = stmt.targets[0].id
                used_inside = any(isinstance(n, ast.Name) and n.id == tname for s_ in body for n in ast.walk(s_)) or any(isinstance(n, ast.Name) and n.id == tname for s_ in pre for n in ast.walk(s_))
                if not used_inside:
                    slot, direct = tname, True  # every path of the helper ends in a return: the target is its return slot
            structured = structure_returns(body, slot)
            if structured is None:
                return None
            body = ([] if total else [ast.Assign([ast.Name(slot, ast.Store())], ast.Constant(None), lineno=stmt.lineno, col_offset=0)]) + structured
            if direct:
                out = pre + body
                for s in out:
                    ast.fix_missing_locations(s)
                return out
            result_expr = ast.Name(slot, ast.Load())
        tails: Optional[List[ast.stmt]] = None
        if isinstance(stmt, ast.Assign) and len(stmt.targets) == 1 and isinstance(stmt.targets[0], ast.Tuple) and isinstance(result_expr, ast.Tuple) and len(result_expr.elts) == len(stmt.targets[0].elts):
            # a, b = helper(..) with `return x, y`: element-wise assignments (no element mentions a target)
            tnames = {n.id for n in ast.walk(stmt.targets[0]) if isinstance(n, ast.Name)}
            if all(isinstance(t, ast.Name) for t in stmt.targets[0].elts) and not any(isinstance(n, ast.Name) and n.id in tnames for e in result_expr.elts for n in ast.walk(e)) and not any(isinstance(e, ast.Starred) for e in result_expr.elts):
                tails = [ast.Assign([clone(t)], e, lineno=stmt.lineno, col_offset=0) for t, e in zip(stmt.targets[0].elts, result_expr.elts)]
        if tails is not None:
            out = pre + body + tails
            for s in out:
                ast.fix_missing_locations(s)
            return out
        if isinstance(stmt, ast.Assign):
            tail: ast.stmt = ast.Assign(clone(stmt.targets), result_expr, lineno=stmt.lineno, col_offset=0)
        elif isinstance(stmt, ast.AnnAssign):
            tail = ast.AnnAssign(clone(stmt.target), clone(stmt.annotation), result_expr, stmt.simple, lineno=stmt.lineno, col_offset=0)
        elif isinstance(stmt, ast.Return):
            tail = ast.Return(result_expr, lineno=stmt.lineno, col_offset=0)
        else:
            tail = ast.Expr(result_expr, lineno=stmt.lineno, col_offset=0)
        out = pre + body + [tail]
        for s in out:
            ast.fix_missing_locations(s)
        return out

    def rewrite(stmts: List[ast.stmt]) -> List[ast.stmt]:
        out: List[ast.stmt] = []
        for stmt in stmts:
            if isinstance(stmt, (ast.FunctionDef, ast.AsyncFunctionDef, ast.ClassDef)):
                out.append(stmt)
                continue
            for fld in BLOCK_FIELDS:
                blk = getattr(stmt, fld, None)
                if isinstance(blk, list) and blk and isinstance(blk[0], ast.stmt):
                    setattr(stmt, fld, rewrite(blk))
            for h in getattr(stmt, "handlers", []) or []:
                h.body = rewrite(h.body)
            call, awaited = _call_of(stmt)
            # f(a, helper(b)): a helper call in argument position is lifted in front of the statement when everything
            # evaluated before it is a plain read (names, attribute chains, constants) - it is spliced in the next pass
            # helper(a).method(b): a helper call in receiver position is evaluated first of all - lifted likewise
            if call is not None and isinstance(call.func, ast.Attribute) and isinstance(call.func.value, ast.Call) and resolve(call.func.value, False) is not None:
                counter[0] += 1
                tmp = f"_h{counter[0]}"
                out.extend(rewrite([ast.fix_missing_locations(ast.Assign([ast.Name(tmp, ast.Store())], call.func.value, lineno=stmt.lineno, col_offset=0))]))
                call.func.value = ast.Name(tmp, ast.Load())
                ast.fix_missing_locations(stmt)
                changed[0] = True
            if call is not None and resolve(call, awaited) is None and _simple_read(call.func):
                arg_slots = [("args", i, a) for i, a in enumerate(call.args)] + [("keywords", i, k.value) for i, k in enumerate(call.keywords)]
                for pos, (kind_, i, a) in enumerate(arg_slots):
                    inner = a
                    if isinstance(inner, ast.Call) and resolve(inner, False) is not None and all(_simple_read(x) for _, _, x in arg_slots[:pos]):
                        counter[0] += 1
                        tmp = f"_h{counter[0]}"
                        out.extend(rewrite([ast.fix_missing_locations(ast.Assign([ast.Name(tmp, ast.Store())], inner, lineno=stmt.lineno, col_offset=0))]))
                        if kind_ == "args":
                            call.args[i] = ast.Name(tmp, ast.Load())
                        else:
                            call.keywords[i].value = ast.Name(tmp, ast.Load())
                        ast.fix_missing_locations(stmt)
                        changed[0] = True
                        break
            helper = resolve(call, awaited) if call is not None else None
            repl = splice(stmt, call, helper) if helper is not None and call is not None else None
            if repl is None:
                out.append(stmt)
            else:
                changed[0] = True
                out.extend(repl)
        return out

    for _ in range(depth):
        changed[0] = False
        set_parents(new_node)
        new_node.body = rewrite(new_node.body)  # type: ignore[attr-defined]
        if not changed[0]:
            break
    set_parents(new_node)
    # nested functions of the view
    def index_nested(parent: FuncInfo) -> None:
        def visit(stmts: List[ast.stmt]) -> None:
            for stmt in stmts:
                if isinstance(stmt, (ast.FunctionDef, ast.AsyncFunctionDef)):
                    sub = FuncInfo(parent.module, parent.qualname + "." + stmt.name, stmt, None, parent)
                    parent.nested[stmt.name] = sub
                    index_nested(sub)
                elif isinstance(stmt, ast.ClassDef):
                    continue
                else:
                    for fld in BLOCK_FIELDS:
                        blk = getattr(stmt, fld, None)
                        if isinstance(blk, list):
                            visit([s for s in blk if isinstance(s, ast.stmt)])
                    for h in getattr(stmt, "handlers", []) or []:
                        visit(h.body)

        visit(parent.node.body)  # type: ignore[attr-defined]

    view.nested = {}
    index_nested(view)
    view.inlined_helpers = counter[0]  # type: ignore[attr-defined]
    return view
