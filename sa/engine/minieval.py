"""
E10 - a small evaluator for table-like helper code.

Some obligations are about *what a short function computes* for every member of
a small finite domain (which exception class `construct()` builds for status
0..18, which octet `V3Flags.__bytes__` emits for the eight flag combinations,
what a counter constructor hands to its base class at every boundary).  The
function's text can be written in many equivalent ways (dictionary, linear
scan, memoised helper, table-driven loop); instead of recognising each form the
rule evaluates the source over that domain with this interpreter.  Nothing of
the repository is imported or executed: the interpreter walks the AST and knows
only the constructs listed below; anything else raises ``Unevaluable`` and the
obligation is reported undecided.

Values: int / str / bytes / bool / None / tuple / list / dict / set of values,
``ClassRef`` (a class of the analysed universe), ``Instance`` (a constructed
object: class, positional and keyword arguments, attribute dict), ``FuncRef``,
``Sym`` (an opaque caller-supplied value that can only be passed around).
"""
from __future__ import annotations

import ast
import operator
from typing import Any, Callable, Dict, List, Optional, Tuple

from .universe import ClassInfo, FuncInfo, docstring_free_body


class Unevaluable(Exception):
    pass


class Sym:
    def __init__(self, name: str) -> None:
        self.name = name

    def __repr__(self) -> str:
        return f"<{self.name}>"

    def __eq__(self, other: object) -> bool:
        return isinstance(other, Sym) and other.name == self.name

    def __hash__(self) -> int:
        return hash(("sym", self.name))


class ClassRef:
    def __init__(self, cls: ClassInfo) -> None:
        self.cls = cls

    def __repr__(self) -> str:
        return f"class {self.cls.name}"

    def __eq__(self, other: object) -> bool:
        return isinstance(other, ClassRef) and other.cls.key == self.cls.key

    def __hash__(self) -> int:
        return hash(("cls", self.cls.key))


class FuncRef:
    def __init__(self, fn: FuncInfo, bound_self: Any = None, closure: Optional[Dict[str, Any]] = None) -> None:
        self.fn = fn
        self.bound_self = bound_self
        self.closure = closure  # the defining environment of a nested function (read at call time)
        self.attrs: Dict[str, Any] = {}


class PyModel:
    """A modelled callable handed into the evaluation by a rule (what an external or factory-made function does)."""

    def __init__(self, fn: Callable[[List[Any], Dict[str, Any]], Any], label: str = "model") -> None:
        self.fn, self.label = fn, label

    def __repr__(self) -> str:
        return f"<{self.label}>"


class Instance:
    def __init__(self, cls: ClassInfo, args: List[Any], kwargs: Dict[str, Any]) -> None:
        self.cls = cls
        self.args = args
        self.kwargs = kwargs
        self.attrs: Dict[str, Any] = {}

    def __repr__(self) -> str:
        return f"{self.cls.name}({', '.join([repr(a) for a in self.args] + [f'{k}={v!r}' for k, v in self.kwargs.items()])})"

    def __lt__(self, other: object) -> bool:
        # tuple-like objects (NamedTuple instances such as VarBind) order like the tuple of their fields
        if isinstance(other, Instance) and "__items__" in self.attrs and "__items__" in other.attrs:
            return list(self.attrs["__items__"]) < list(other.attrs["__items__"])
        return NotImplemented  # type: ignore[return-value]


class OidVal(tuple):
    """
    A modelled ObjectIdentifier: a tuple of sub-identifiers with x690's semantics - ``other in self`` holds when
    ``self`` is a prefix of ``other`` (subtree containment, equality included), ordering is lexicographic.
    """

    def __contains__(self, other: object) -> bool:  # type: ignore[override]
        return isinstance(other, tuple) and tuple(other[: len(self)]) == tuple(self)

    def __str__(self) -> str:
        return ".".join(str(n) for n in self)

    def __repr__(self) -> str:
        return f"OID({self})"

    def __add__(self, other: object) -> "OidVal":  # type: ignore[override]
        return OidVal(tuple(self) + tuple(other))  # type: ignore[arg-type]


class SymBytes:
    """Octets that are only known as a concatenation of parts: literal bytes and ``bytes(<object>)`` encodings."""

    def __init__(self, parts: List[Any]) -> None:
        self.parts = parts

    def __repr__(self) -> str:
        return "bytes[" + " + ".join(repr(p) for p in self.parts) + "]"

    @staticmethod
    def of(val: Any) -> "SymBytes":
        if isinstance(val, SymBytes):
            return val
        if isinstance(val, (bytes, bytearray)):
            return SymBytes([bytes(val)] if val else [])
        return SymBytes([val])

    def __add__(self, other: Any) -> "SymBytes":
        return SymBytes(self.parts + SymBytes.of(other).parts)

    def __radd__(self, other: Any) -> "SymBytes":
        return SymBytes(SymBytes.of(other).parts + self.parts)


class Raised(Exception):
    def __init__(self, value: Any) -> None:
        super().__init__(repr(value))
        self.value = value


class _Return(Exception):
    def __init__(self, value: Any) -> None:
        super().__init__("return")
        self.value = value


class _Break(Exception):
    pass


class _Continue(Exception):
    pass


CMP = {
    ast.Eq: operator.eq, ast.NotEq: operator.ne, ast.Lt: operator.lt, ast.LtE: operator.le, ast.Gt: operator.gt, ast.GtE: operator.ge,
    ast.Is: lambda a, b: a is b or (a == b and isinstance(a, (ClassRef, type(None), bool))), ast.IsNot: lambda a, b: not (a is b or (a == b and isinstance(a, (ClassRef, type(None), bool)))),
    ast.In: lambda a, b: a in b, ast.NotIn: lambda a, b: a not in b,
}
BIN = {
    ast.Add: operator.add, ast.Sub: operator.sub, ast.Mult: operator.mul, ast.FloorDiv: operator.floordiv, ast.Mod: operator.mod, ast.Pow: operator.pow,
    ast.BitAnd: operator.and_, ast.BitOr: operator.or_, ast.BitXor: operator.xor, ast.LShift: operator.lshift, ast.RShift: operator.rshift,
}


class MiniEval:
    def __init__(self, ctx, construct: Optional[Callable[[ClassInfo, List[Any], Dict[str, Any]], Any]] = None, max_steps: int = 20000, run_init: bool = False, externals: Optional[Dict[str, Callable[..., Any]]] = None) -> None:
        self.ctx = ctx
        self.externals = externals or {}  # function key -> model (args, kwargs) -> value, for library calls such as x690.decode
        self._yields: List[List[Any]] = []
        self.steps = 0
        self.max_steps = max_steps
        self.construct = construct
        self.run_init = run_init

    # ------------------------------------------------------------------ API
    def call_function(self, fn: FuncInfo, args: List[Any], kwargs: Optional[Dict[str, Any]] = None, depth: int = 0, closure: Optional[Dict[str, Any]] = None) -> Any:
        """
        Value returned by *fn* for the given argument values (``Raised`` propagates).  Coroutines are evaluated at
        once (``await`` yields the value); a generator function returns the list of what it yields - when it raises
        after having yielded, the exception carries that list as ``partial``.
        """
        if depth > 8:
            raise Unevaluable("call depth")
        kwargs = dict(kwargs or {})
        node = fn.node
        a = node.args  # type: ignore[attr-defined]
        names = [x.arg for x in a.posonlyargs + a.args]
        env: Dict[str, Any] = dict(closure) if closure else {}
        for name in names + [x.arg for x in a.kwonlyargs]:
            env.pop(name, None)
        for name, val in zip(names, args):
            env[name] = val
        if a.vararg:
            env[a.vararg.arg] = tuple(args[len(names):])
        elif len(args) > len(names):
            raise Unevaluable(f"{fn.qualname}: too many arguments")
        defaults = dict(zip(names[len(names) - len(a.defaults):], a.defaults))
        for kwa, d in zip(a.kwonlyargs, a.kw_defaults):
            names.append(kwa.arg)
            if d is not None:
                defaults[kwa.arg] = d
        for name in names:
            if name in env:
                continue
            if name in kwargs:
                env[name] = kwargs.pop(name)
            elif name in defaults:
                try:
                    env[name] = self.eval(fn, defaults[name], {}, depth)
                except Unevaluable:
                    env[name] = Sym(f"default-of-{name}")  # e.g. a typing construct used as marker
            else:
                raise Unevaluable(f"{fn.qualname}: argument {name} missing")
        if a.kwarg:
            env[a.kwarg.arg] = dict(kwargs)
            kwargs = {}
        if kwargs:
            raise Unevaluable(f"{fn.qualname}: unexpected keyword {list(kwargs)}")
        from .universe import own_nodes

        is_gen = any(isinstance(n, (ast.Yield, ast.YieldFrom)) for n in own_nodes(node))
        if is_gen:
            self._yields.append([])
        try:
            try:
                self.exec_block(fn, docstring_free_body(node), env, depth)
            finally:
                if closure is not None:
                    for name in env.get("__nonlocal__", ()):  # cells shared with the defining function
                        if name in env:
                            closure[name] = env[name]
        except _Return as ret:
            if is_gen:
                return self._yields.pop()
            return ret.value
        except Raised as exc:
            if is_gen:
                exc.partial = self._yields.pop()  # type: ignore[attr-defined]
            raise
        except Exception:
            if is_gen:
                self._yields.pop()
            raise
        if is_gen:
            return self._yields.pop()
        return None

    # ----------------------------------------------------------- statements
    def exec_block(self, fn: FuncInfo, stmts: List[ast.stmt], env: Dict[str, Any], depth: int) -> None:
        for stmt in stmts:
            self.steps += 1
            if self.steps > self.max_steps:
                raise Unevaluable("step budget")
            self.exec_stmt(fn, stmt, env, depth)

    def assign(self, fn: FuncInfo, tgt: ast.AST, val: Any, env: Dict[str, Any], depth: int) -> None:
        if isinstance(tgt, ast.Name):
            env[tgt.id] = val
        elif isinstance(tgt, (ast.Tuple, ast.List)):
            if isinstance(val, Instance) and "__items__" in val.attrs:
                val = val.attrs["__items__"]
            vals = list(val) if isinstance(val, (tuple, list)) else None
            if vals is None or len(vals) != len(tgt.elts):
                raise Unevaluable("unpacking")
            for t, v in zip(tgt.elts, vals):
                self.assign(fn, t, v, env, depth)
        elif isinstance(tgt, ast.Subscript):
            base = self.eval(fn, tgt.value, env, depth)
            key = self.eval(fn, tgt.slice, env, depth)
            if isinstance(base, (dict, list)):
                base[key] = val
            else:
                raise Unevaluable("subscript store")
        elif isinstance(tgt, ast.Attribute):
            base = self.eval(fn, tgt.value, env, depth)
            if isinstance(base, (Instance, FuncRef)):
                base.attrs[tgt.attr] = val
            else:
                raise Unevaluable("attribute store")
        else:
            raise Unevaluable(f"assignment target {type(tgt).__name__}")

    def exec_stmt(self, fn: FuncInfo, stmt: ast.stmt, env: Dict[str, Any], depth: int) -> None:
        if isinstance(stmt, ast.Expr) and isinstance(stmt.value, ast.Yield):
            if not self._yields:
                raise Unevaluable("yield outside a generator call")
            self._yields[-1].append(self.eval(fn, stmt.value.value, env, depth) if stmt.value.value is not None else None)
            return
        if isinstance(stmt, ast.Expr) and isinstance(stmt.value, ast.YieldFrom):
            if not self._yields:
                raise Unevaluable("yield outside a generator call")
            self._yields[-1].extend(self.iterate(self.eval(fn, stmt.value.value, env, depth)))
            return
        if isinstance(stmt, ast.Expr):
            if isinstance(stmt.value, ast.Constant):
                return
            try:
                self.eval(fn, stmt.value, env, depth)
            except Unevaluable:
                # a statement evaluated for its effect only (logging, warnings): ignore what cannot be modelled,
                # except mutations of tracked containers
                call = stmt.value
                if isinstance(call, ast.Call) and isinstance(call.func, ast.Attribute) and call.func.attr in ("append", "extend", "update", "add", "insert", "pop", "remove", "clear", "setdefault") and isinstance(call.func.value, ast.Name) and call.func.value.id in env:
                    raise
            return
        if isinstance(stmt, ast.Assign):
            val = self.eval(fn, stmt.value, env, depth)
            for tgt in stmt.targets:
                self.assign(fn, tgt, val, env, depth)
            return
        if isinstance(stmt, ast.AnnAssign):
            if stmt.value is not None:
                self.assign(fn, stmt.target, self.eval(fn, stmt.value, env, depth), env, depth)
            return
        if isinstance(stmt, ast.AugAssign):
            cur = self.eval(fn, stmt.target, env, depth)
            val = self.eval(fn, stmt.value, env, depth)
            op = BIN.get(type(stmt.op))
            if op is None:
                raise Unevaluable("augmented operator")
            # in-place operators of the mutable builtins change the object itself (every alias sees it)
            if isinstance(cur, list) and isinstance(stmt.op, ast.Add) and isinstance(val, (list, tuple)):
                cur.extend(val)
                self.assign(fn, stmt.target, cur, env, depth)
                return
            if isinstance(cur, list) and isinstance(stmt.op, ast.Mult) and isinstance(val, int) and not isinstance(val, bool):
                cur *= val
                self.assign(fn, stmt.target, cur, env, depth)
                return
            if isinstance(cur, set) and isinstance(val, (set, frozenset)) and isinstance(stmt.op, (ast.BitOr, ast.BitAnd, ast.Sub, ast.BitXor)):
                if isinstance(stmt.op, ast.BitOr):
                    cur |= val
                elif isinstance(stmt.op, ast.BitAnd):
                    cur &= val
                elif isinstance(stmt.op, ast.Sub):
                    cur -= val
                else:
                    cur ^= val
                self.assign(fn, stmt.target, cur, env, depth)
                return
            if isinstance(cur, dict) and isinstance(val, dict) and isinstance(stmt.op, ast.BitOr):
                cur.update(val)
                self.assign(fn, stmt.target, cur, env, depth)
                return
            self.assign(fn, stmt.target, self.apply_bin(op, cur, val), env, depth)
            return
        if isinstance(stmt, ast.If):
            self.exec_block(fn, stmt.body if self.truth(self.eval(fn, stmt.test, env, depth)) else stmt.orelse, env, depth)
            return
        if isinstance(stmt, (ast.For, ast.AsyncFor)):
            items = self.iterate(self.eval(fn, stmt.iter, env, depth))
            broke = False
            for item in items:
                self.assign(fn, stmt.target, item, env, depth)
                try:
                    self.exec_block(fn, stmt.body, env, depth)
                except _Break:
                    broke = True
                    break
                except _Continue:
                    continue
            if not broke:
                self.exec_block(fn, stmt.orelse, env, depth)
            return
        if isinstance(stmt, ast.While):
            for _ in range(10000):
                if not self.truth(self.eval(fn, stmt.test, env, depth)):
                    self.exec_block(fn, stmt.orelse, env, depth)
                    return
                try:
                    self.exec_block(fn, stmt.body, env, depth)
                except _Break:
                    return
                except _Continue:
                    continue
            raise Unevaluable("loop bound")
        if isinstance(stmt, ast.Return):
            raise _Return(self.eval(fn, stmt.value, env, depth) if stmt.value is not None else None)
        if isinstance(stmt, ast.Raise):
            if stmt.exc is None:
                raise Unevaluable("bare raise")
            raise Raised(self.eval(fn, stmt.exc, env, depth))
        if isinstance(stmt, ast.Break):
            raise _Break()
        if isinstance(stmt, ast.Continue):
            raise _Continue()
        if isinstance(stmt, ast.Nonlocal):
            env.setdefault("__nonlocal__", set()).update(stmt.names)
            return
        if isinstance(stmt, (ast.Pass, ast.Global, ast.Import, ast.ImportFrom)):
            return
        if isinstance(stmt, ast.Assert):
            return
        if isinstance(stmt, ast.Try):
            if stmt.finalbody:
                raise Unevaluable("try/finally")
            try:
                self.exec_block(fn, stmt.body, env, depth)
            except Raised as exc:
                for h in stmt.handlers:
                    if h.type is None or self._catches(fn, exc.value, h.type, env, depth):
                        if h.name:
                            env[h.name] = exc.value
                        self.exec_block(fn, h.body, env, depth)
                        return
                raise
            self.exec_block(fn, stmt.orelse, env, depth)
            return
        if isinstance(stmt, (ast.FunctionDef, ast.AsyncFunctionDef)):
            nested = fn.nested.get(stmt.name)
            if nested is None:
                raise Unevaluable("nested function")
            env[stmt.name] = FuncRef(nested, closure=env)
            return
        raise Unevaluable(f"statement {type(stmt).__name__}")

    def _catches(self, fn: FuncInfo, value: Any, htype: ast.AST, env: Dict[str, Any], depth: int) -> bool:
        types = htype.elts if isinstance(htype, ast.Tuple) else [htype]
        vcls = value.cls if isinstance(value, Instance) else (value.cls if isinstance(value, ClassRef) else None)
        for t in types:
            name = ast.unparse(t).split(".")[-1]
            if name in ("Exception", "BaseException"):
                return True
            tcls = self.ctx.r.resolve_class(fn.module, t)
            if tcls is not None and vcls is not None and self.ctx.r.is_subclass(vcls, tcls):
                return True
        return False

    # ---------------------------------------------------------- expressions
    @staticmethod
    def truth(val: Any) -> bool:
        if isinstance(val, Sym):
            raise Unevaluable(f"truth value of {val}")
        if isinstance(val, Instance) and "__items__" in val.attrs:
            return bool(val.attrs["__items__"])
        if isinstance(val, Instance) and "__truth__" in val.attrs:
            return bool(val.attrs["__truth__"])
        if isinstance(val, (ClassRef, Instance, FuncRef)):
            return True
        return bool(val)

    @staticmethod
    def iterate(val: Any) -> List[Any]:
        if isinstance(val, Instance) and "__items__" in val.attrs:
            return list(val.attrs["__items__"])  # a modelled container object (x690 Sequence)
        if isinstance(val, (list, tuple, set, frozenset)):
            return list(val)
        if isinstance(val, dict):
            return list(val.keys())
        if isinstance(val, (str, bytes, range)):
            return list(val)
        raise Unevaluable(f"iteration over {type(val).__name__}")

    @staticmethod
    def apply_bin(op, a: Any, b: Any) -> Any:
        if op is operator.add and (isinstance(a, SymBytes) or isinstance(b, SymBytes)) and all(isinstance(x, (SymBytes, bytes)) for x in (a, b)):
            return SymBytes.of(a) + SymBytes.of(b)
        for x in (a, b):
            if isinstance(x, (Sym, ClassRef, Instance, FuncRef)):
                raise Unevaluable("arithmetic on an opaque value")
        try:
            return op(a, b)
        except Exception as exc:  # pylint: disable=broad-except
            raise Unevaluable(f"operator: {exc}") from exc

    def eval(self, fn: FuncInfo, expr: ast.AST, env: Dict[str, Any], depth: int = 0) -> Any:  # noqa: C901
        self.steps += 1
        if self.steps > self.max_steps:
            raise Unevaluable("step budget")
        if isinstance(expr, ast.Constant):
            return expr.value
        if isinstance(expr, ast.Name):
            if expr.id in env:
                return env[expr.id]
            return self.global_name(fn, expr)
        if isinstance(expr, ast.NamedExpr):
            val = self.eval(fn, expr.value, env, depth)
            env[expr.target.id] = val
            return val
        if isinstance(expr, (ast.Tuple, ast.List, ast.Set)):
            vals: List[Any] = []
            for e in expr.elts:
                if isinstance(e, ast.Starred):
                    vals += self.iterate(self.eval(fn, e.value, env, depth))
                else:
                    vals.append(self.eval(fn, e, env, depth))
            return tuple(vals) if isinstance(expr, ast.Tuple) else (vals if isinstance(expr, ast.List) else set(vals))
        if isinstance(expr, ast.Dict):
            out: Dict[Any, Any] = {}
            for k, v in zip(expr.keys, expr.values):
                if k is None:
                    out.update(self.eval(fn, v, env, depth))
                else:
                    out[self.eval(fn, k, env, depth)] = self.eval(fn, v, env, depth)
            return out
        if isinstance(expr, ast.JoinedStr):
            pieces: List[Any] = []
            for part in expr.values:
                if isinstance(part, ast.FormattedValue):
                    try:
                        val_p = self.eval(fn, part.value, env, depth)
                    except Unevaluable:
                        val_p = Sym("?")  # message text only
                    pieces.append(val_p if part.conversion == -1 and part.format_spec is None else Sym("?"))
                elif isinstance(part, ast.Constant):
                    pieces.append(part.value)
            if all(isinstance(p, (str, int)) and not isinstance(p, bool) for p in pieces):
                return "".join(str(p) for p in pieces)  # f"{PREFIX}.1.0" over constants: the string itself
            return Sym("formatted-string")
        if isinstance(expr, ast.UnaryOp):
            val = self.eval(fn, expr.operand, env, depth)
            if isinstance(expr.op, ast.Not):
                return not self.truth(val)
            if isinstance(expr.op, ast.USub) and isinstance(val, int):
                return -val
            if isinstance(expr.op, ast.Invert) and isinstance(val, int):
                return ~val
            raise Unevaluable("unary operator")
        if isinstance(expr, ast.BoolOp):
            val = None
            for sub in expr.values:
                val = self.eval(fn, sub, env, depth)
                t = self.truth(val)
                if isinstance(expr.op, ast.And) and not t:
                    return val
                if isinstance(expr.op, ast.Or) and t:
                    return val
            return val
        if isinstance(expr, ast.BinOp):
            op = BIN.get(type(expr.op))
            if op is None:
                raise Unevaluable("binary operator")
            left, right = self.eval(fn, expr.left, env, depth), self.eval(fn, expr.right, env, depth)
            if isinstance(expr.op, ast.Mod) and isinstance(left, str):
                return Sym("formatted-string")
            return self.apply_bin(op, left, right)
        if isinstance(expr, ast.Compare):
            left = self.eval(fn, expr.left, env, depth)
            for op_, comp in zip(expr.ops, expr.comparators):
                right = self.eval(fn, comp, env, depth)
                f = CMP[type(op_)]
                if isinstance(left, Sym) or isinstance(right, Sym):
                    if isinstance(op_, (ast.Is, ast.IsNot)) and (left is None or right is None):
                        res = isinstance(op_, ast.IsNot)  # a caller-supplied value is not None
                    else:
                        raise Unevaluable("comparison of an opaque value")
                else:
                    try:
                        res = f(left, right)
                    except Exception as exc:  # pylint: disable=broad-except
                        raise Unevaluable(f"comparison: {exc}") from exc
                if not res:
                    return False
                left = right
            return True
        if isinstance(expr, ast.IfExp):
            return self.eval(fn, expr.body if self.truth(self.eval(fn, expr.test, env, depth)) else expr.orelse, env, depth)
        if isinstance(expr, (ast.ListComp, ast.SetComp, ast.GeneratorExp, ast.DictComp)):
            return self.comprehension(fn, expr, env, depth)
        if isinstance(expr, ast.Subscript):
            base = self.eval(fn, expr.value, env, depth)
            if isinstance(expr.slice, ast.Slice):
                lo = self.eval(fn, expr.slice.lower, env, depth) if expr.slice.lower is not None else None
                hi = self.eval(fn, expr.slice.upper, env, depth) if expr.slice.upper is not None else None
                st = self.eval(fn, expr.slice.step, env, depth) if expr.slice.step is not None else None
                if isinstance(base, (list, tuple, str, bytes)):
                    return base[slice(lo, hi, st)]
                raise Unevaluable("slice")
            key = self.eval(fn, expr.slice, env, depth)
            if isinstance(base, Instance) and "__items__" in base.attrs:
                base = base.attrs["__items__"]
            if isinstance(base, (dict, list, tuple, str, bytes)):
                try:
                    return base[key]
                except (KeyError, IndexError) as exc:
                    raise Raised(Sym(type(exc).__name__)) from exc  # what the real code would raise
                except TypeError as exc:
                    raise Unevaluable(f"subscript: {exc!r}") from exc
            raise Unevaluable("subscript of an opaque value")
        if isinstance(expr, ast.Attribute):
            return self.attribute(fn, expr, env, depth)
        if isinstance(expr, ast.Call):
            return self.call(fn, expr, env, depth)
        if isinstance(expr, ast.Lambda):
            self._lambda_fn = fn
            return ("lambda", (expr, env))
        if isinstance(expr, ast.Await):
            return self.eval(fn, expr.value, env, depth)  # coroutines are evaluated when they are called
        raise Unevaluable(f"expression {type(expr).__name__}")

    def class_attribute(self, cls: ClassInfo, name: str, depth: int) -> Any:
        """
        A class-level container (``_REGISTRY: Dict[..] = {}``) as it stands once the module is imported: the value of
        its class-body assignment, then ``__init_subclass__`` of the owning class applied to every subclass the
        repository defines, in definition order.  NotImplemented when the attribute is not such a container.
        """
        owner = next((k for k in self.ctx.r.mro(cls) if name in k.attrs), None)
        if owner is None or owner.module.external or not isinstance(owner.attrs[name], (ast.Dict, ast.List, ast.Set, ast.Call)):
            return NotImplemented
        store = self.__dict__.setdefault("_class_attrs", {})
        key = (owner.key, name)
        if key in store:
            return store[key]
        pseudo = FuncInfo(owner.module, f"<class {owner.name}>", ast.FunctionDef(name="<class>", args=ast.arguments(posonlyargs=[], args=[], kwonlyargs=[], kw_defaults=[], defaults=[]), body=[], decorator_list=[], lineno=owner.node.lineno), owner)
        store[key] = self.eval(pseudo, owner.attrs[name], {}, depth + 1)
        hook = owner.methods.get("__init_subclass__")
        if hook is not None:
            subs = [c for c in self.ctx.u.classes.values() if c.key != owner.key and not c.module.external and self.ctx.r.is_subclass(c, owner)]
            subs.sort(key=lambda c: (c.module.name != owner.module.name, c.module.name, c.node.lineno))
            for sub in subs:
                self.call_function(hook, [ClassRef(sub)], {}, depth + 1)
        return store[key]

    def apply(self, fobj: Any, args: List[Any], depth: int) -> Any:
        if isinstance(fobj, PyModel):
            return fobj.fn(list(args), {})
        if isinstance(fobj, FuncRef):
            lead = [fobj.bound_self] if isinstance(fobj.bound_self, Instance) and fobj.fn.cls is not None else []
            return self.call_function(fobj.fn, lead + args, {}, depth + 1, closure=fobj.closure)
        if isinstance(fobj, tuple) and len(fobj) == 2 and fobj[0] == "lambda":
            lam, lenv = fobj[1]
            inner = dict(lenv)
            for a, v in zip(lam.args.args, args):
                inner[a.arg] = v
            return self.eval(self._lambda_fn, lam.body, inner, depth + 1)
        if fobj is bytes and len(args) == 1 and isinstance(args[0], (Instance, Sym, SymBytes)):
            return SymBytes.of(args[0]) if isinstance(args[0], SymBytes) else SymBytes([args[0]])
        if fobj in (str, int, bool, len, tuple, list, bytes):
            if any(isinstance(x, (Sym, Instance, ClassRef, FuncRef)) for x in args):
                raise Unevaluable(f"{getattr(fobj, '__name__', fobj)}() of an opaque value")
            try:
                return fobj(*args)
            except Exception as exc:  # pylint: disable=broad-except
                raise Unevaluable(f"{getattr(fobj, '__name__', fobj)}(): {exc}") from exc
        raise Unevaluable("call of an opaque function object")

    def itertools_model(self, fn: FuncInfo, name: str, args: List[Any], kwargs: Dict[str, Any], depth: int) -> Any:
        if name == "chain":
            out: List[Any] = []
            for a in args:
                out += self.iterate(a)
            return out
        if name == "chain.from_iterable":
            out = []
            for a in self.iterate(args[0]):
                out += self.iterate(a)
            return out
        if name in ("takewhile", "dropwhile"):
            items = self.iterate(args[1])
            k = 0
            while k < len(items) and self.truth(self.apply(args[0], [items[k]], depth)):
                k += 1
            return items[:k] if name == "takewhile" else items[k:]
        if name == "islice":
            items = self.iterate(args[0])
            return items[slice(*args[1:])]
        if name == "zip_longest":
            import itertools

            return [tuple(t) for t in itertools.zip_longest(*[self.iterate(a) for a in args], fillvalue=kwargs.get("fillvalue"))]
        if name == "starmap":
            return [self.apply(args[0], list(self.iterate(t)), depth) for t in self.iterate(args[1])]
        raise Unevaluable(f"itertools.{name}")

    def comprehension(self, fn: FuncInfo, expr: ast.AST, env: Dict[str, Any], depth: int) -> Any:
        inner = dict(env)
        results: List[Any] = []

        def rec(idx: int) -> None:
            if idx == len(expr.generators):  # type: ignore[attr-defined]
                if isinstance(expr, ast.DictComp):
                    results.append((self.eval(fn, expr.key, inner, depth), self.eval(fn, expr.value, inner, depth)))
                else:
                    results.append(self.eval(fn, expr.elt, inner, depth))  # type: ignore[attr-defined]
                return
            gen = expr.generators[idx]  # type: ignore[attr-defined]
            for item in self.iterate(self.eval(fn, gen.iter, inner, depth)):
                self.assign(fn, gen.target, item, inner, depth)
                if all(self.truth(self.eval(fn, c, inner, depth)) for c in gen.ifs):
                    rec(idx + 1)

        rec(0)
        if isinstance(expr, ast.DictComp):
            return dict(results)
        if isinstance(expr, ast.SetComp):
            return set(results)
        return results

    def global_name(self, fn: FuncInfo, expr: ast.Name) -> Any:
        cls = self.ctx.r.resolve_class(fn.module, expr)
        if cls is not None:
            return ClassRef(cls)
        got = self.ctx.r.resolve_name(fn.module, expr.id)
        if got is not None and got.kind == "func":
            return FuncRef(got.target)
        if got is not None and got.kind == "value" and got.module is not None:
            # module-level objects live as long as the evaluator: a dict / list / set at module level that a function
            # fills (a cache, a registry) is the same object at the next call
            store = self.__dict__.setdefault("_module_values", {})
            gkey = (got.module.name, expr.id)
            if gkey in store:
                return store[gkey]
            pseudo = FuncInfo(got.module, "<module>", fn.node)
            try:
                val_m = self.eval(pseudo, got.target, {}, 0)
            except Unevaluable:
                return Sym(f"module-value:{expr.id}")  # a logger, a TypeVar, ...
            if isinstance(val_m, (dict, list, set)):
                store[gkey] = val_m
            return val_m
        if got is not None and got.kind not in ("func", "value", "class"):
            return Sym(f"ext:{expr.id}")  # a name imported from outside the analysed universe (datetime.timedelta, ...)
        cur = fn.parent
        builtin_types = {"int": int, "str": str, "bytes": bytes, "bool": bool, "float": float, "list": list, "tuple": tuple, "dict": dict}
        if expr.id in builtin_types:
            return builtin_types[expr.id]
        import builtins

        if isinstance(getattr(builtins, expr.id, None), type) and issubclass(getattr(builtins, expr.id), BaseException):
            return Sym(f"builtin:{expr.id}")  # calling it yields an opaque exception object that can be raised
        if cur is not None and expr.id in cur.nested:
            return FuncRef(cur.nested[expr.id])
        raise Unevaluable(f"name {expr.id}")

    def attribute(self, fn: FuncInfo, expr: ast.Attribute, env: Dict[str, Any], depth: int) -> Any:
        # module.attr (imported module alias): resolve the dotted name as a whole first
        cls = self.ctx.r.resolve_class(fn.module, expr)
        if cls is not None and not (isinstance(expr.value, ast.Name) and expr.value.id in env):
            return ClassRef(cls)
        base = self.eval(fn, expr.value, env, depth)
        if isinstance(base, tuple) and len(base) == 3 and base[0] == "super":
            _, obj, klass = base
            owner = obj.cls if isinstance(obj, Instance) else klass
            mro = self.ctx.r.mro(owner)
            after = mro[[c.key for c in mro].index(klass.key) + 1:] if klass.key in [c.key for c in mro] else []
            for nxt in after:
                if expr.attr in nxt.methods:
                    meth = nxt.methods[expr.attr]
                    if meth.module.external:
                        break
                    return FuncRef(meth, bound_self=obj)
            return ("super-method", obj, expr.attr)
        if isinstance(base, ClassRef):
            from .resolve import EnumMember, NotConstant

            try:
                val = self.ctx.r.class_const(base.cls, expr.attr)
                return val  # Enum members stay EnumMember objects (compared by class and name)
            except NotConstant:
                pass
            meth = self.ctx.r.method(base.cls, expr.attr)
            if meth is not None:
                return FuncRef(meth, bound_self=base)
            if expr.attr == "__name__":
                return base.cls.name
            if expr.attr == "__mro__":
                return tuple(ClassRef(k) for k in self.ctx.r.mro(base.cls))
            got_attr = self.class_attribute(base.cls, expr.attr, depth)
            if got_attr is not NotImplemented:
                return got_attr
            raise Unevaluable(f"class attribute {base.cls.name}.{expr.attr}")
        if isinstance(base, Instance):
            if expr.attr in base.attrs:
                return base.attrs[expr.attr]
            if expr.attr in base.kwargs:
                return base.kwargs[expr.attr]
            from .resolve import NotConstant

            try:
                return self.ctx.r.class_const(base.cls, expr.attr)
            except NotConstant:
                pass
            meth = self.ctx.r.method(base.cls, expr.attr)
            if meth is not None:
                if any(ast.unparse(d) == "property" for d in getattr(meth.node, "decorator_list", [])):
                    return self.call_function(meth, [base], {}, depth + 1)
                return FuncRef(meth, bound_self=base)
            # an object built by a repository __init__ that was not run at construction (its arguments are kept for
            # inspection): run it now, once, and look again
            init = self.ctx.r.method(base.cls, "__init__")
            if init is not None and init.cls is not None and not init.module.external and not base.attrs.get("__init_ran__") and init.cls.name not in ("object", "Generic"):
                base.attrs["__init_ran__"] = True
                self.call_function(init, [base] + list(base.args), dict(base.kwargs), depth + 1)
                if expr.attr in base.attrs:
                    return base.attrs[expr.attr]
            raise Unevaluable(f"attribute {expr.attr} of {base.cls.name} instance")
        if isinstance(base, FuncRef):
            if expr.attr in base.attrs:
                return base.attrs[expr.attr]
            if expr.attr in ("__name__", "__qualname__"):
                return base.fn.name
            raise Unevaluable(f"function attribute {expr.attr}")
        if isinstance(base, Sym):
            return Sym(f"{base.name}.{expr.attr}")
        if isinstance(base, OidVal):
            if expr.attr == "nodes":
                return tuple(base)
            if expr.attr in ("value", "pyvalue"):
                return str(base)
            if expr.attr == "pythonize":
                return ("builtin-method", base, "pythonize")
            raise Unevaluable(f"OID attribute {expr.attr}")
        if isinstance(base, slice) and expr.attr in ("start", "stop", "step"):
            return getattr(base, expr.attr)
        if isinstance(base, type) and base is dict and expr.attr == "fromkeys":
            return ("builtin-method", dict, "fromkeys")
        if isinstance(base, type) and base is int and expr.attr == "from_bytes":
            return ("builtin-method", int, "from_bytes")
        if isinstance(base, (dict, list, tuple, str, bytes, set, int)):
            return ("builtin-method", base, expr.attr)
        raise Unevaluable(f"attribute {expr.attr}")

    def call(self, fn: FuncInfo, expr: ast.Call, env: Dict[str, Any], depth: int) -> Any:  # noqa: C901
        func = expr.func
        if isinstance(func, ast.Name) and func.id == "cast" and len(expr.args) == 2 and "cast" not in env:
            return self.eval(fn, expr.args[1], env, depth)
        args: List[Any] = []
        for a in expr.args:
            if isinstance(a, ast.Starred):
                args += self.iterate(self.eval(fn, a.value, env, depth))
            else:
                args.append(self.eval(fn, a, env, depth))
        kwargs: Dict[str, Any] = {}
        for kw in expr.keywords:
            if kw.arg is None:
                val = self.eval(fn, kw.value, env, depth)
                if not isinstance(val, dict):
                    raise Unevaluable("** of a non-dict")
                kwargs.update(val)
            else:
                kwargs[kw.arg] = self.eval(fn, kw.value, env, depth)
        if isinstance(func, ast.Attribute) and func.attr == "isEnabledFor":
            return False  # diagnostics are off in the modelled execution
        # X.__subclasses__()
        if isinstance(func, ast.Attribute) and func.attr == "__subclasses__":
            base = self.eval(fn, func.value, env, depth)
            if isinstance(base, ClassRef):
                subs = self.ctx.r.subclasses(base.cls, direct=True)
                subs = sorted(subs, key=lambda c: (c.module.name != base.cls.module.name, c.module.name, c.node.lineno))
                return [ClassRef(c) for c in subs]
            raise Unevaluable("__subclasses__ of a non-class")
        if isinstance(func, ast.Name) and func.id == "super" and not args and fn.cls is not None:
            selfname = fn.params[0] if fn.params else "self"
            return ("super", env.get(selfname), fn.cls)
        if isinstance(func, ast.Name) and func.id not in env:
            name = func.id
            simple: Dict[str, Callable[..., Any]] = {
                "len": len, "tuple": tuple, "list": list, "dict": dict, "set": set, "frozenset": frozenset, "sorted": sorted, "min": min, "max": max, "sum": sum,
                "slice": slice, "OrderedDict": dict, "abs": abs, "int": int, "bool": bool, "str": str, "bytes": bytes, "range": range, "divmod": divmod, "pow": pow, "any": any, "all": all, "repr": repr,
            }
            if name == "cast" and len(args) == 2:
                return args[1]  # typing.cast has no runtime effect
            if name in ("dict", "OrderedDict") and len(args) == 1 and not isinstance(args[0], dict):
                pairs = []
                for item in self.iterate(args[0]):
                    if isinstance(item, Instance) and "__items__" in item.attrs:
                        item = tuple(item.attrs["__items__"])
                    if not (isinstance(item, (tuple, list)) and len(item) == 2):
                        raise Unevaluable("dict() of something else than pairs")
                    pairs.append((item[0], item[1]))
                out_d = dict(pairs)
                out_d.update(kwargs)
                return out_d
            if name == "map" and len(args) == 2:
                fobj = args[0]
                items = self.iterate(args[1])
                if fobj is str:
                    return [str(i) for i in items]
                if fobj is int:
                    return [int(i) for i in items]
                return [self.apply(fobj, [i], depth) for i in items]
            if name in ("sorted", "min", "max") and "key" in kwargs and len(args) == 1:
                items = self.iterate(args[0])
                keyed = [(self.apply(kwargs["key"], [i], depth), n_, i) for n_, i in enumerate(items)]
                try:
                    if name == "sorted":
                        keyed.sort(key=lambda t: (t[0], t[1]), reverse=bool(kwargs.get("reverse", False)))
                        return [t[2] for t in keyed]
                    pick = (min if name == "min" else max)(keyed, key=lambda t: t[0])
                    return pick[2]
                except Exception as exc:  # pylint: disable=broad-except
                    raise Unevaluable(f"{name}(key=..): {exc}") from exc
            if name == "next" and len(args) in (1, 2):
                items = self.iterate(args[0])  # generator expressions are materialised lists here: next() of a fresh one
                if items:
                    return items[0]
                if len(args) == 2:
                    return args[1]
                raise Raised(Sym("StopIteration"))
            if name == "iter" and len(args) == 1:
                return self.iterate(args[0])
            if name == "reversed" and len(args) == 1:
                return list(reversed(self.iterate(args[0])))
            if name == "enumerate":
                return list(enumerate(self.iterate(args[0]), *(args[1:2])))
            if name == "zip":
                return list(zip(*[self.iterate(a) for a in args]))
            if name in ("isinstance", "issubclass") and len(args) == 2:
                targets = list(args[1]) if isinstance(args[1], tuple) else [args[1]]
                subject = args[0]
                if name == "isinstance":
                    if isinstance(subject, Instance):
                        scls: Optional[ClassInfo] = subject.cls
                    elif isinstance(subject, OidVal):
                        scls = self.ctx.u.cls("x690.types:ObjectIdentifier")
                    elif isinstance(subject, (bool, int, str, bytes, float, list, tuple, dict)) or subject is None:
                        return any(isinstance(t, type) and isinstance(subject, t) for t in targets)
                    else:
                        raise Unevaluable("isinstance of an opaque value")
                else:
                    scls = subject.cls if isinstance(subject, ClassRef) else None
                if scls is None:
                    raise Unevaluable("issubclass of a non-class")
                return any(isinstance(t, ClassRef) and self.ctx.r.is_subclass(scls, t.cls) for t in targets)
            if name == "type" and len(args) == 1:
                if isinstance(args[0], Instance):
                    return ClassRef(args[0].cls)
                if isinstance(args[0], OidVal):
                    return ClassRef(self.ctx.u.cls("x690.types:ObjectIdentifier"))
                if isinstance(args[0], (Sym, SymBytes, ClassRef, FuncRef)):
                    raise Unevaluable("type() of an opaque value")
                return type(args[0])
            if name == "getattr" and len(args) in (2, 3) and isinstance(args[1], str):
                try:
                    return self.attribute(fn, ast.Attribute(ast.Name("__obj", ast.Load()), args[1], ast.Load()), {**env, "__obj": args[0]}, depth)
                except Unevaluable:
                    if len(args) == 3:
                        return args[2]
                    raise
            if name in ("int", "bytes", "str") and not args:
                return {"int": 0, "bytes": b"", "str": ""}[name]
            if name == "bytes" and len(args) == 1 and isinstance(args[0], (Instance, Sym, SymBytes)):
                return SymBytes.of(args[0]) if isinstance(args[0], SymBytes) else SymBytes([args[0]])  # the object's encoding, as a token
            if name == "len" and len(args) == 1 and isinstance(args[0], SymBytes):
                return Sym("length-of-encoding")
            if name == "len" and len(args) == 1 and isinstance(args[0], Instance) and "__items__" in args[0].attrs:
                return len(args[0].attrs["__items__"])
            if name in simple:
                for x in args:
                    if isinstance(x, (Sym, Instance, ClassRef, FuncRef)):
                        raise Unevaluable(f"{name}() of an opaque value")
                try:
                    return simple[name](*args, **kwargs)
                except Exception as exc:  # pylint: disable=broad-except
                    raise Unevaluable(f"{name}(): {exc}") from exc
        target = self.eval(fn, func, env, depth)
        if isinstance(target, PyModel):
            return target.fn(list(args), dict(kwargs))
        if isinstance(target, tuple) and len(target) == 2 and target[0] == "lambda":
            return self.apply(target, args, depth)
        if isinstance(target, tuple) and len(target) == 3 and target[0] == "super-method":
            _, obj, meth = target
            if isinstance(obj, Instance):
                obj.attrs.setdefault("__super_calls__", []).append((meth, args, kwargs))  # what reaches the external base class
            return None
        if isinstance(target, tuple) and len(target) == 3 and target[0] == "builtin-method":
            _, base, meth = target
            if isinstance(base, bytes) and meth == "join" and len(args) == 1:
                items = self.iterate(args[0])
                if any(isinstance(i, SymBytes) for i in items):
                    out = SymBytes([])
                    for k, item in enumerate(items):
                        if k and base:
                            out = out + base
                        out = out + item
                    return out
            if isinstance(base, OidVal) and meth == "pythonize":
                return str(base)
            if base is dict and meth == "fromkeys":
                try:
                    return dict.fromkeys(self.iterate(args[0]), *args[1:])
                except Exception as exc:  # pylint: disable=broad-except
                    raise Unevaluable(f"dict.fromkeys: {exc}") from exc
            if base is int and meth == "from_bytes":
                try:
                    return int.from_bytes(*args, **kwargs)
                except Exception as exc:  # pylint: disable=broad-except
                    raise Unevaluable(f"int.from_bytes: {exc}") from exc
            allowed = {
                dict: ("get", "items", "keys", "values", "setdefault", "update", "pop", "copy"),
                list: ("append", "extend", "index", "count", "copy", "insert", "pop", "reverse", "sort"),
                tuple: ("index", "count"),
                set: ("add", "union", "difference", "intersection", "copy", "discard", "update", "remove", "clear", "issubset", "issuperset", "isdisjoint", "difference_update", "intersection_update", "symmetric_difference", "pop"),
                frozenset: ("union", "difference", "intersection", "copy", "issubset", "issuperset", "isdisjoint", "symmetric_difference"),
                str: ("join", "startswith", "endswith", "lstrip", "rstrip", "strip", "split", "encode", "format", "lower", "upper"),
                bytes: ("join", "startswith", "endswith", "decode", "hex"), int: ("bit_length", "to_bytes"),
            }
            for typ, names in allowed.items():
                if isinstance(base, typ) and meth in names:
                    try:
                        res = getattr(base, meth)(*args, **kwargs)
                    except Exception as exc:  # pylint: disable=broad-except
                        raise Unevaluable(f".{meth}(): {exc}") from exc
                    return list(res) if meth in ("items", "keys", "values") else res
            raise Unevaluable(f"method {meth} of {type(base).__name__}")
        if isinstance(target, ClassRef):
            if self.construct is not None:
                got = self.construct(target.cls, args, kwargs)
                if got is not NotImplemented:
                    return got
            if target.cls.key == "x690.types:ObjectIdentifier" and not kwargs and len(args) <= 1:
                # modelled OIDs: ObjectIdentifier("1.3.6.1") / ObjectIdentifier() / ObjectIdentifier(<oid>)
                if not args:
                    return OidVal(())
                if isinstance(args[0], OidVal):
                    return args[0]
                if isinstance(args[0], str) and all(part.isdigit() for part in args[0].strip(".").split(".") if part != "") :
                    return OidVal(tuple(int(part) for part in args[0].strip(".").split(".") if part != ""))
                if isinstance(args[0], (tuple, list)) and all(isinstance(x, int) for x in args[0]):
                    return OidVal(tuple(args[0]))
            if any(ast.unparse(b).split(".")[-1] == "TypedDict" for klass in self.ctx.r.mro(target.cls) for b in klass.node.bases):
                out_td: Dict[Any, Any] = {}
                for a in args:
                    out_td.update(a if isinstance(a, dict) else dict(self.iterate(a)))
                out_td.update(kwargs)
                return out_td  # a TypedDict "class" builds a plain dict
            inst = Instance(target.cls, args, kwargs)
            init = self.ctx.r.method(target.cls, "__init__")
            if init is None or init.cls is None or init.cls.name in ("object", "Generic"):
                # dataclass / NamedTuple style: positional arguments follow the declared field order
                fields: List[str] = []
                for klass in reversed(self.ctx.r.mro(target.cls)):
                    for st in klass.node.body:
                        if isinstance(st, ast.AnnAssign) and isinstance(st.target, ast.Name) and st.target.id not in fields:
                            fields.append(st.target.id)
                for name, val in zip(fields, args):
                    inst.attrs[name] = val
                for name, val in kwargs.items():
                    inst.attrs[name] = val
                if any(ast.unparse(b).split(".")[-1] == "NamedTuple" for klass in self.ctx.r.mro(target.cls) for b in klass.node.bases):
                    inst.attrs["__items__"] = [inst.attrs.get(f) for f in fields]
            elif self.run_init and not init.module.external:
                self.call_function(init, [inst] + args, kwargs, depth + 1)
            return inst
        if isinstance(target, FuncRef):
            callee = target.fn
            if callee.key in self.externals:
                return self.externals[callee.key](args, kwargs)
            if callee.module.external and not callee.module.name.startswith("x690"):
                raise Unevaluable(f"external function {callee.qualname}")
            decos = [ast.unparse(d).split("(")[0].split(".")[-1] for d in getattr(callee.node, "decorator_list", [])]
            if any(d not in ("staticmethod", "classmethod", "lru_cache", "cache", "property") for d in decos):
                raise Unevaluable(f"decorated function {callee.qualname}")
            call_args = list(args)
            if callee.cls is not None and "staticmethod" not in decos:
                if "classmethod" in decos:
                    owner = target.bound_self if isinstance(target.bound_self, ClassRef) else ClassRef(callee.cls)
                    call_args = [owner] + call_args
                elif isinstance(target.bound_self, Instance):
                    call_args = [target.bound_self] + call_args
                elif isinstance(target.bound_self, ClassRef):
                    pass  # Class.method(instance, ...) style: arguments as given
            return self.call_function(callee, call_args, kwargs, depth + 1, closure=target.closure)
        if isinstance(target, Sym) and target.name in ("ext:takewhile", "ext:dropwhile", "ext:chain", "ext:chain.from_iterable", "ext:islice", "ext:zip_longest", "ext:starmap"):
            return self.itertools_model(fn, target.name[4:], args, kwargs, depth)
        if isinstance(target, Sym):
            return Sym(f"{target.name}(..)")
        raise Unevaluable(f"call of {type(target).__name__}")
