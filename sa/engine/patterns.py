"""Reusable analysis steps built on the engine: value numbers, CFG simulation, call search."""
from __future__ import annotations

import ast
from typing import Any, Callable, Dict, Iterable, List, Optional, Sequence, Set, Tuple, Union

from .cfg import CFG, Node
from .context import Ctx
from .exprs import Defs, eval3, norm, strip_casts
from .universe import ClassInfo, FuncInfo, own_nodes


# --------------------------------------------------------------------- calls
def calls_resolving_to(ctx: Ctx, fn: FuncInfo, *keys: str) -> List[ast.Call]:
    """Call nodes in *fn* (own body) whose callee resolves to one of *keys*."""
    out = []
    for node in own_nodes(fn.node):
        if isinstance(node, ast.Call) and ctx.r.call_resolves_to(fn, node, *keys):
            out.append(node)
    return sorted(out, key=lambda n: (n.lineno, n.col_offset))


def calls_to_class(ctx: Ctx, fn: FuncInfo, target: ClassInfo, subclasses: bool = True) -> List[Tuple[ast.Call, ClassInfo]]:
    out = []
    for node in own_nodes(fn.node):
        if isinstance(node, ast.Call):
            for callee in ctx.r.callees(fn, node):
                if isinstance(callee, ClassInfo) and (callee == target or (subclasses and ctx.r.is_subclass(callee, target))):
                    out.append((node, callee))
    return sorted(out, key=lambda p: (p[0].lineno, p[0].col_offset))


def stmt_of(node: ast.AST) -> Optional[ast.stmt]:
    from .universe import parent_of

    cur: Optional[ast.AST] = node
    while cur is not None and not isinstance(cur, ast.stmt):
        cur = parent_of(cur)
    return cur  # type: ignore[return-value]


def cfg_node_of(cfg: CFG, node: ast.AST) -> Optional[Node]:
    """CFG node whose statement / test contains *node*."""
    from .universe import parent_of

    cur: Optional[ast.AST] = node
    while cur is not None:
        got = cfg.node_of(cur)
        if got is not None:
            return got
        cur = parent_of(cur)
    return None


# -------------------------------------------------------------- value numbers
def value_number(defs: Defs, expr: ast.AST, depth: int = 0) -> Tuple[str, Any]:
    """
    SSA-style value number of an expression inside one function: two uses share
    a number only if they read the same definition; every call gets a number of
    its own (per call site), so two reads of a clock never compare equal.
    """
    expr = strip_casts(expr)
    if isinstance(expr, ast.Constant):
        return ("const", repr(expr.value))
    if isinstance(expr, ast.Name):
        if expr.id in defs.params and expr.id not in defs.assigns and expr.id not in defs.other_defs:
            return ("param", expr.id)
        val = defs.single(expr.id)
        if val is not None and depth < 10:
            if isinstance(strip_casts(val), (ast.Name, ast.Constant)):
                return value_number(defs, val, depth + 1)
            return ("def", expr.id)
        return ("multi", expr.id + "@" + str(getattr(expr, "lineno", 0)))
    if isinstance(expr, ast.Attribute):
        base = value_number(defs, expr.value, depth + 1)
        return ("attr", (base, expr.attr))
    if isinstance(expr, ast.Call):
        return ("call", (norm(expr.func), expr.lineno, expr.col_offset))
    if isinstance(expr, ast.Await):
        return ("await", (expr.lineno, expr.col_offset))
    return ("expr", (norm(expr), getattr(expr, "lineno", 0), getattr(expr, "col_offset", 0)))


# ------------------------------------------------------------ CFG simulation
class Outcome:
    def __init__(self, kind: str, node: Optional[Node], trail: List[Node]) -> None:
        self.kind = kind  # return | raise | fallthrough | unknown
        self.node = node
        self.trail = trail

    @property
    def stmt(self) -> Optional[ast.AST]:
        return self.node.ast if self.node is not None else None

    def __repr__(self) -> str:
        return f"<Outcome {self.kind} {self.node}>"


def simulate(cfg: CFG, env: Callable[[ast.expr], Optional[bool]], start: Optional[Node] = None, max_steps: int = 400, expand: Optional[Callable[[ast.AST], ast.AST]] = None) -> List[Outcome]:
    """
    Follow the CFG from *start* deciding each branch with Kleene evaluation under
    *env*.  Undecided branches fork.  Loops (``iter`` nodes) take the 'done'
    edge after one body pass at most.  Returns the terminal outcome of every
    feasible path.
    """
    outcomes: List[Outcome] = []
    budget = [60000]

    def walk(node: Node, trail: List[Node], seen: Dict[int, int]) -> None:
        budget[0] -= 1
        if budget[0] < 0:
            from .universe import AnalysisError

            raise AnalysisError("path simulation exceeded its budget (too many undecided branches)")
        if len(trail) > max_steps:
            outcomes.append(Outcome("unknown", node, trail))
            return
        if node.kind == "test":
            visits = seen.get(-node.id - 1, 0)
            if visits >= 2:
                # third arrival at the same loop test on one path: the path is a cycle
                outcomes.append(Outcome("loop", node, trail + [node]))
                return
            seen = {**seen, -node.id - 1: visits + 1}
        trail = trail + [node]
        # how a `finally` block was entered decides how it is left: by the pending return / exception, or normally
        pending = seen.get(("pending",))
        if node.id == cfg.exit.id:
            prev = trail[-2] if len(trail) > 1 else None
            if pending is not None and pending[0] == "return":
                prev = pending[1]
            if prev is not None and isinstance(prev.ast, ast.Return):
                outcomes.append(Outcome("return", prev, trail))
            else:
                outcomes.append(Outcome("fallthrough", prev, trail))
            return
        if node.id == cfg.raise_exit.id:
            prev = trail[-2] if len(trail) > 1 else None
            if pending is not None and pending[0] == "raise":
                prev = pending[1]
            outcomes.append(Outcome("raise", prev, trail))
            return
        succ = cfg.succ[node.id]
        if node.kind == "handler" and pending is not None:
            seen = {k: v for k, v in seen.items() if k != ("pending",)}  # caught: nothing is pending any more
            pending = None
        if isinstance(node.ast, (ast.Raise, ast.Return)) and node.kind == "stmt" and any(cfg.nodes[n_].label == "finally" for n_, _ in succ):
            seen = {**seen, ("pending",): ("raise" if isinstance(node.ast, ast.Raise) else "return", node)}
        elif node.kind == "stmt" and not isinstance(node.ast, (ast.Raise, ast.Return)) and any(lab == "return" for _, lab in succ):
            # the end of a finally block
            if pending is not None and pending[0] == "raise":
                for nxt, label in succ:
                    if label == "exc":
                        walk(cfg.nodes[nxt], trail, seen)
                return
            if pending is not None and pending[0] == "return":
                for nxt, label in succ:
                    if label == "return":
                        walk(cfg.nodes[nxt], trail, seen)
                return
            for nxt, label in succ:
                if label not in ("exc", "return"):
                    walk(cfg.nodes[nxt], trail, seen)
            return
        # locals set to None on this path (a refused-fetch marker, a not-found default): `x is None` is decided by them
        if node.kind != "test" and node.ast is not None and not isinstance(node.ast, ast.expr):
            stored: Set[str] = set()
            if isinstance(node.ast, (ast.Assign, ast.AnnAssign, ast.AugAssign, ast.Delete, ast.Expr, ast.Return)):
                stored = {n.id for n in ast.walk(node.ast) if isinstance(n, ast.Name) and isinstance(n.ctx, (ast.Store, ast.Del))}
            elif isinstance(node.ast, (ast.With, ast.AsyncWith)):
                stored = {n.id for it in node.ast.items if it.optional_vars is not None for n in ast.walk(it.optional_vars) if isinstance(n, ast.Name)}
            elif isinstance(node.ast, ast.ExceptHandler) and node.ast.name:
                stored = {node.ast.name}
            if stored:
                seen = {k: v for k, v in seen.items() if not (isinstance(k, tuple) and k[0] in ("none", "flag") and k[1] in stored)}
                st_ = node.ast
                if isinstance(st_, ast.Assign) and len(st_.targets) == 1 and isinstance(st_.targets[0], ast.Name) and isinstance(st_.value, ast.Constant) and st_.value.value is None:
                    seen[("none", st_.targets[0].id)] = True
                # a flag set to True / False on this path (must_abort = True ... finally: if must_abort and ..)
                if isinstance(st_, ast.Assign) and len(st_.targets) == 1 and isinstance(st_.targets[0], ast.Name) and isinstance(st_.value, ast.Constant) and isinstance(st_.value.value, bool):
                    seen[("flag", st_.targets[0].id)] = st_.value.value
        elif node.kind in ("iter",) and node.ast is not None:
            stored = {n.id for n in ast.walk(getattr(node.ast, "target", node.ast)) if isinstance(n, ast.Name) and isinstance(n.ctx, ast.Store)}
            if stored:
                seen = {k: v for k, v in seen.items() if not (isinstance(k, tuple) and k[0] in ("none", "flag") and k[1] in stored)}
        if node.kind == "test":
            nones = {k[1] for k in seen if isinstance(k, tuple) and k[0] == "none"}
            flags = {k[1]: v for k, v in seen.items() if isinstance(k, tuple) and k[0] == "flag"}

            def env_n(expr: ast.expr, _env=env, _nones=nones, _flags=flags) -> Optional[bool]:
                if isinstance(expr, ast.Name) and expr.id in _flags:
                    return _flags[expr.id]
                if isinstance(expr, ast.Compare) and len(expr.ops) == 1 and isinstance(expr.left, ast.Name) and expr.left.id in _flags and isinstance(expr.comparators[0], ast.Constant) and isinstance(expr.comparators[0].value, bool):
                    if isinstance(expr.ops[0], (ast.Is, ast.Eq)):
                        return _flags[expr.left.id] is expr.comparators[0].value
                    if isinstance(expr.ops[0], (ast.IsNot, ast.NotEq)):
                        return _flags[expr.left.id] is not expr.comparators[0].value
                if _nones and isinstance(expr, ast.Compare) and len(expr.ops) == 1 and isinstance(expr.left, ast.Name) and expr.left.id in _nones and isinstance(expr.comparators[0], ast.Constant) and expr.comparators[0].value is None:
                    if isinstance(expr.ops[0], (ast.Is, ast.Eq)):
                        return True
                    if isinstance(expr.ops[0], (ast.IsNot, ast.NotEq)):
                        return False
                return _env(expr)

            val = eval3(node.ast, env_n)  # type: ignore[arg-type]
            if val is None and expand is not None and not nones and not flags:
                val = eval3(expand(node.ast), env_n)  # type: ignore[arg-type]
            for nxt, label in succ:
                if val is None or label == val:
                    walk(cfg.nodes[nxt], trail, seen)
            return
        if node.kind == "iter":
            count = seen.get(node.id, 0)
            for nxt, label in succ:
                if label == "iter" and count >= 1:
                    continue
                walk(cfg.nodes[nxt], trail, {**seen, node.id: count + 1})
            return
        if isinstance(node.ast, ast.Raise) and not succ:
            outcomes.append(Outcome("raise", node, trail))
            return
        if not succ:
            outcomes.append(Outcome("unknown", node, trail))
            return
        for nxt, label in succ:
            if label == "exc" and not isinstance(node.ast, ast.Raise) and node.label not in ("try",):
                continue
            if node.label in ("try", "finally") and label == "exc":
                continue  # implicit exceptional edges are not followed here
            walk(cfg.nodes[nxt], trail, seen)

    walk(start or cfg.entry, [], {})
    return outcomes


def raised_class(ctx: Ctx, fn: FuncInfo, outcome: Outcome) -> Optional[ClassInfo]:
    """Class of the exception raised by a 'raise' outcome (through a local if needed)."""
    stmt = outcome.stmt
    if isinstance(stmt, ast.Raise) and stmt.exc is None:
        # a bare re-raise: the exception in flight is the one raised last on this path (when the path shows it)
        for node in reversed(outcome.trail[:-1]):
            if isinstance(node.ast, ast.Raise) and node.ast.exc is not None and node.ast is not stmt:
                stmt = node.ast
                break
    if not isinstance(stmt, ast.Raise) or stmt.exc is None:
        return None
    exc = stmt.exc
    if isinstance(exc, ast.Name):
        val = ctx.defs(fn).single(exc.id)
        if val is not None:
            exc = val
    return ctx.exc_class(fn, exc)


def mentions(expr: ast.AST, names: Iterable[str]) -> bool:
    wanted = set(names)
    return any(isinstance(n, ast.Name) and n.id in wanted for n in ast.walk(expr))


def derived_names(defs: Defs, roots: Iterable[str], fnode: ast.AST) -> Set[str]:
    """Locals whose definitions (transitively) mention one of *roots* (flow-insensitive)."""
    known = set(roots)
    changed = True
    while changed:
        changed = False
        for name, vals in defs.assigns.items():
            if name in known:
                continue
            if any(mentions(v, known) for v, _ in vals):
                known.add(name)
                changed = True
        for name, vals in defs.unpack.items():
            if name in known:
                continue
            if any(mentions(v, known) for v, _, _ in vals):
                known.add(name)
                changed = True
        for node in own_nodes(fnode):
            if isinstance(node, (ast.For, ast.AsyncFor)) and mentions(node.iter, known):
                for n in ast.walk(node.target):
                    if isinstance(n, ast.Name) and n.id not in known:
                        known.add(n.id)
                        changed = True
            if isinstance(node, ast.comprehension) and mentions(node.iter, known):
                for n in ast.walk(node.target):
                    if isinstance(n, ast.Name) and n.id not in known:
                        known.add(n.id)
                        changed = True
    return known


def compare_env(classify: Callable[[ast.Compare], Optional[bool]]) -> Callable[[ast.expr], Optional[bool]]:
    """Build an eval3 environment that decides only Compare atoms through *classify*."""

    def env(expr: ast.expr) -> Optional[bool]:
        if isinstance(expr, ast.Compare) and len(expr.ops) == 1:
            return classify(expr)
        return None

    return env


# ------------------------------------------------------- integer-state CFG runs
class Run:
    """One abstract execution: integer variables are concrete, everything else is an event."""

    def __init__(self) -> None:
        self.events: List[Tuple[str, int]] = []  # (event name, line)
        self.end = ""  # return | raise:<Class> | stuck | budget
        self.raised: Optional[ast.AST] = None
        self.state: Dict[str, int] = {}


def run_int_cfg(
    ctx: Ctx,
    fn: FuncInfo,
    init: Dict[str, int],
    event_of: Callable[[Node], Optional[str]],
    raises_at: Callable[[Node, int], Optional[ast.expr]],
    max_steps: int = 300,
    decide: Optional[Callable[[ast.expr], Optional[bool]]] = None,
    atoms_extra: Optional[Callable[[ast.AST], Optional[Any]]] = None,
) -> Run:
    """
    Deterministic walk of *fn*'s CFG with a concrete integer state.

    event_of(node)      -> name of an observable event at this node (recorded)
    raises_at(node, k)  -> exception class expression raised by the k-th visit of
                           this node (None = the statement completes normally)
    Tests that the integer interpreter cannot decide end the run as 'stuck'.
    """
    from .exprs import Unevaluable, int_eval

    cfg = ctx.cfg(fn)
    state = dict(init)
    run = Run()
    run.state = state
    visits: Dict[int, int] = {}
    range_iters: Dict[Any, Any] = {}
    node = cfg.entry
    pending_exc: Optional[ast.expr] = None
    returning = False

    raising_try: Optional[ast.Try] = None

    def route(start: ast.AST, exc_expr: Optional[ast.expr]):
        """Where an exception raised at *start* goes next: the first matching handler or the first finally block on its way out."""
        for tr, part in enclosing_tries_of(start, fn):
            if part == "body":
                for h in tr.handlers:
                    if exc_expr is not None and ctx.exc_matches(fn, exc_expr, h.type):
                        return (cfg.node_of(h) or cfg.raise_exit), None
            if tr.finalbody and part != "finalbody":
                fin = next((n for n in cfg.nodes if n.label == "finally" and getattr(n, "_try", None) is tr), None)
                if fin is not None:
                    return fin, tr
        return cfg.raise_exit, None

    def atoms(expr: ast.AST):
        if isinstance(expr, ast.Name) and expr.id in state:
            return state[expr.id]
        if atoms_extra is not None:
            got = atoms_extra(expr)
            if got is not None:
                return got
        if isinstance(expr, (ast.Name, ast.Attribute)):
            try:
                val = ctx.r.const(fn.module, expr, fn.cls)
            except Exception:  # pylint: disable=broad-except
                return None
            if isinstance(val, (int, bool)):
                return val
        return None

    for _ in range(max_steps):
        if node.id == cfg.exit.id:
            run.end = "return"
            return run
        if node.id == cfg.raise_exit.id:
            run.end = "raise:" + (norm(pending_exc) if pending_exc is not None else "?")
            run.raised = pending_exc
            return run
        visits[node.id] = visits.get(node.id, 0) + 1
        ev = event_of(node)
        if ev:
            run.events.append((ev, node.lineno))
        exc = raises_at(node, visits[node.id])
        if exc is not None:
            pending_exc = exc
            if node.ast is None:
                node, raising_try = cfg.raise_exit, None
            else:
                node, raising_try = route(node.ast, exc)
            continue
        stmt = node.ast
        if node.kind == "test":
            pre = decide(stmt) if decide is not None else None
            if pre is not None:
                val = pre
            else:
                try:
                    val = bool(int_eval(stmt, atoms))
                except Unevaluable:
                    if isinstance(stmt, ast.Call) and isinstance(stmt.func, ast.Attribute) and stmt.func.attr == "isEnabledFor":
                        val = False  # "is this log level on?": the guarded block only logs
                    else:
                        run.end = "stuck:" + norm(stmt)
                        return run
            nxt = [n for n, lab in cfg.succ[node.id] if lab == val]
            if not nxt:
                run.end = "stuck"
                return run
            node = cfg.nodes[nxt[0]]
            continue
        if isinstance(stmt, ast.AugAssign) and isinstance(stmt.target, ast.Name) and stmt.target.id in state:
            try:
                state[stmt.target.id] = int_eval(ast.BinOp(ast.Name(stmt.target.id, ast.Load()), stmt.op, stmt.value), atoms)
            except Unevaluable:
                state.pop(stmt.target.id, None)
        elif (
            isinstance(stmt, ast.Assign)
            and len(stmt.targets) == 1
            and isinstance(stmt.targets[0], ast.Tuple)
            and isinstance(stmt.value, ast.Tuple)
            and len(stmt.targets[0].elts) == len(stmt.value.elts)
            and all(isinstance(t, ast.Name) for t in stmt.targets[0].elts)
        ):
            new_vals = {}
            for tgt, val in zip(stmt.targets[0].elts, stmt.value.elts):
                try:
                    new_vals[tgt.id] = int_eval(val, atoms)
                except Unevaluable:
                    new_vals[tgt.id] = None
            for name, val in new_vals.items():
                if val is None:
                    state.pop(name, None)
                else:
                    state[name] = val
        elif isinstance(stmt, ast.Assign) and len(stmt.targets) == 1 and isinstance(stmt.targets[0], ast.Name):
            # also introduces new integer locals (attempts = retries)
            try:
                state[stmt.targets[0].id] = int_eval(stmt.value, atoms)
            except Unevaluable:
                state.pop(stmt.targets[0].id, None)
        elif isinstance(stmt, ast.AnnAssign) and isinstance(stmt.target, ast.Name) and stmt.value is not None:
            try:
                state[stmt.target.id] = int_eval(stmt.value, atoms)
            except Unevaluable:
                state.pop(stmt.target.id, None)
        if isinstance(stmt, ast.Raise):
            exc_expr = stmt.exc
            if exc_expr is None:
                exc_expr = pending_exc  # bare re-raise
            pending_exc = exc_expr
            # find the handler: use CFG edge for explicit raises (already matched by class)
            succ = cfg.succ[node.id]
            node, raising_try = route(stmt, exc_expr)
            continue
        if raising_try is not None and node.kind == "stmt" and any(lab == "return" for _, lab in cfg.succ[node.id]):
            # the end of the finally block an exception passed through: it travels on
            node, raising_try = route(raising_try, pending_exc)
            continue
        succ = [(n, lab) for n, lab in cfg.succ[node.id] if lab != "exc"]
        if node.kind == "iter":
            it = getattr(stmt, "iter", None)
            tgt = getattr(stmt, "target", None)
            limit = None
            backwards = False
            if isinstance(it, ast.Call) and isinstance(it.func, ast.Name) and it.func.id == "reversed" and len(it.args) == 1:
                it, backwards = it.args[0], True
            if isinstance(it, ast.Call) and isinstance(it.func, ast.Name) and it.func.id == "range" and isinstance(tgt, ast.Name):
                try:
                    rargs = [int_eval(a, atoms) for a in it.args]
                    key_ = ("range", node.id)
                    if key_ not in range_iters:
                        rng = range(*rargs)
                        range_iters[key_] = iter(reversed(rng) if backwards else rng)
                    limit = range_iters[key_]
                except Unevaluable:
                    limit = None
            if limit is None:
                run.end = "stuck:for-loop"
                return run
            try:
                state[tgt.id] = next(limit)
                lab_wanted = "iter"
            except StopIteration:
                range_iters.pop(("range", node.id), None)
                lab_wanted = "done"
            nxt = [n for n, lab in cfg.succ[node.id] if lab == lab_wanted]
            if not nxt:
                run.end = "stuck"
                return run
            node = cfg.nodes[nxt[0]]
            continue
        if not succ:
            run.end = "stuck"
            return run
        if isinstance(stmt, ast.Return):
            returning = True
        # the end of a `finally` block has a "return" edge (a pending return leaves the function) next to its normal
        # continuation: which one is taken depends on how the block was entered
        pick = [x for x in succ if (x[1] == "return") == returning] or succ
        node = cfg.nodes[pick[0][0]]
    run.end = "budget"
    return run


def node_stmt_anchor(stmt: ast.AST) -> ast.AST:
    """For a statement inside an except handler: the enclosing Try (so that outer tries are searched)."""
    from .universe import parent_of

    cur: Optional[ast.AST] = stmt
    while cur is not None and not isinstance(cur, ast.ExceptHandler):
        cur = parent_of(cur)
    if cur is None:
        return stmt
    return parent_of(cur) or stmt


def enclosing_tries_of(node_or_ast, fn: FuncInfo):
    from .cfg import enclosing_tries

    target = node_or_ast.ast if isinstance(node_or_ast, Node) else node_or_ast
    if target is None:
        return []
    return enclosing_tries(target, fn.node)
