"""
Verdicts, evidence and known findings.

exit 0  every obligation discharged (or the failing ones are listed known findings)
exit 1  + "VIOLATION property=<id> replay=<path>" for each unlisted failing obligation
exit 2  + "ANALYSIS-ERROR ..." when an anchor vanished, an instance count fell
        below its floor, a construct is outside the recognised idioms or the
        analyser itself raised: fail-closed, never a silent pass.
"""
from __future__ import annotations

import json
import os
import sys
import time
from dataclasses import dataclass, field
from typing import Any, Dict, List, Optional

VERIF = os.path.dirname(os.path.dirname(os.path.dirname(os.path.abspath(__file__))))
EVIDENCE_DIR = os.environ.get("VERIF_EVIDENCE_DIR") or os.path.join(VERIF, "evidence")
KNOWN_FILE = os.path.join(VERIF, "known_findings.json")


@dataclass
class Obligation:
    rule: str
    site: str
    text: str
    status: str  # ok | violated | undecided
    detail: str = ""
    key: str = ""
    witness: Any = None

    def as_dict(self) -> Dict[str, Any]:
        out = {"rule": self.rule, "site": self.site, "obligation": self.text, "status": self.status}
        if self.detail:
            out["detail"] = self.detail
        if self.key:
            out["key"] = self.key
        if self.witness is not None:
            out["witness"] = self.witness
        return out


class Report:
    def __init__(self, prop: str, tier: str) -> None:
        self.prop = prop
        self.tier = tier
        self.t0 = time.time()
        self.obligations: List[Obligation] = []
        self.infos: List[str] = []
        self.floors: Dict[str, int] = {}
        self.rules_text: Dict[str, str] = {}
        self.analysed: Dict[str, Any] = {}
        self.assumptions: List[str] = []
        self.trusted: List[str] = []
        self.extra: Dict[str, Any] = {}
        self.level = "other"

    # ------------------------------------------------------------------
    def rule(self, rule: str, text: str, floor: int = 1) -> None:
        """Declare a rule, its statement and the minimum number of instances."""
        self.rules_text[rule] = text
        self.floors[rule] = floor

    def ok(self, rule: str, site: str, text: str, detail: str = "") -> None:
        self.obligations.append(Obligation(rule, site, text, "ok", detail))

    def violated(self, rule: str, site: str, text: str, detail: str, key: str, witness: Any = None) -> None:
        self.obligations.append(Obligation(rule, site, text, "violated", detail, f"{rule}|{key}", witness))

    def undecided(self, rule: str, site: str, text: str, detail: str) -> None:
        self.obligations.append(Obligation(rule, site, text, "undecided", detail))

    def check(self, cond: Optional[bool], rule: str, site: str, text: str, detail: str = "", key: str = "", witness: Any = None) -> bool:
        """cond True -> ok, False -> violated, None -> undecided."""
        if cond is None:
            self.undecided(rule, site, text, detail or "construct outside the recognised idioms")
            return False
        if cond:
            self.ok(rule, site, text, detail)
            return True
        self.violated(rule, site, text, detail, key or site.split(" ")[-1], witness)
        return False

    def info(self, msg: str) -> None:
        self.infos.append(msg)

    def adopt_rules(self, other: "Report", rule: str, only: List[str], containing: Optional[str] = None) -> int:
        """Adopt the obligations of the listed rules of a sub-analysis under *rule* (optionally only those whose text
        contains *containing*); returns how many."""
        sub = Report(other.prop, other.tier)
        sub.obligations = [ob for ob in other.obligations if ob.rule in only and (containing is None or containing in ob.text or containing in ob.key)]
        self.adopt(sub, rule)
        return len(sub.obligations)

    def adopt(self, other: "Report", rule: str) -> None:
        """Take over the obligations of a sub-analysis (a rule shared with another property) under *rule*."""
        for ob in other.obligations:
            key = ob.key.split("|", 1)[1] if "|" in ob.key else ob.key
            self.obligations.append(
                Obligation(rule, ob.site, f"[{ob.rule}] {ob.text}", ob.status, ob.detail, f"{rule}|{key}" if ob.status == "violated" else "", ob.witness)
            )

    # ------------------------------------------------------------------
    def finish(self) -> int:
        known = load_known()
        counts: Dict[str, int] = {}
        for ob in self.obligations:
            counts[ob.rule] = counts.get(ob.rule, 0) + 1
        errors: List[str] = []
        for rule, floor in self.floors.items():
            if counts.get(rule, 0) < floor:
                errors.append(
                    f"rule {rule} matched {counts.get(rule, 0)} instance(s), fewer than the {floor} confirmed on the pinned tree"
                )
        for ob in self.obligations:
            if ob.status == "undecided":
                errors.append(f"{ob.rule} undecided at {ob.site}: {ob.detail}")
        violated = [ob for ob in self.obligations if ob.status == "violated"]
        known_hits: List[Obligation] = []
        fresh: List[Obligation] = []
        for ob in violated:
            entry = known.get((self.prop, ob.key))
            if entry is not None:
                known_hits.append(ob)
                print(f"KNOWN-FINDING: property={self.prop} {entry['what']} [{ob.key}]")
            else:
                fresh.append(ob)
        discharged = sum(1 for ob in self.obligations if ob.status == "ok")
        self._print_summary(counts, discharged, errors)
        replay_paths = []
        if fresh:
            os.makedirs(os.path.join(EVIDENCE_DIR, "violations"), exist_ok=True)
            for idx, ob in enumerate(fresh):
                path = os.path.join(EVIDENCE_DIR, "violations", f"{self.prop}-{idx}.json")
                with open(path, "w", encoding="utf8") as fptr:
                    json.dump(
                        {
                            "property": self.prop,
                            "rule": ob.rule,
                            "rule_text": self.rules_text.get(ob.rule, ""),
                            "site": ob.site,
                            "obligation": ob.text,
                            "detail": ob.detail,
                            "key": ob.key,
                            "witness": ob.witness,
                        },
                        fptr,
                        indent=1,
                        default=str,
                    )
                replay_paths.append(path)
        self._write_evidence(counts, discharged, len(fresh), known_hits, errors)
        for ob, path in zip(fresh, replay_paths):
            print(f"  {ob.rule} at {ob.site}: {ob.text} -- {ob.detail}")
            print(f"VIOLATION property={self.prop} replay={path}")
        if fresh:
            return 1
        if errors:
            for err in errors:
                print(f"ANALYSIS-ERROR property={self.prop} {err}")
            return 2
        return 0

    def _print_summary(self, counts: Dict[str, int], discharged: int, errors: List[str]) -> None:
        print(f"== {self.prop} [{self.tier}] analysed: " + ", ".join(f"{k}={v}" for k, v in self.analysed.items() if not isinstance(v, (list, dict))))
        for rule in sorted(self.rules_text):
            sub = [ob for ob in self.obligations if ob.rule == rule]
            bad = [ob for ob in sub if ob.status != "ok"]
            print(f"  {rule}: {len(sub)} instance(s), {len(sub) - len(bad)} discharged - {self.rules_text[rule]}")
        for msg in self.infos:
            print(f"  info: {msg}")
        print(f"  obligations={len(self.obligations)} discharged={discharged}")

    def _write_evidence(self, counts, discharged, n_fresh, known_hits, errors) -> None:
        os.makedirs(EVIDENCE_DIR, exist_ok=True)
        samples = [ob.as_dict() for ob in self.obligations]
        distinct = len({(ob.rule, ob.site, ob.text) for ob in self.obligations})
        coverage: Dict[str, Any] = {
            "explanation": (
                "Static analysis of the current working tree of /repo (and the installed x690 source): "
                "each rule below is a structural necessary condition of the property; every instance "
                "of every rule was located by role in the resolved program and decided on all paths "
                "of the functions involved. No repository code was imported or executed."
            ),
            "rules": self.rules_text,
            "rule_instances": counts,
            "obligations": len(self.obligations),
            "discharged": discharged,
            "evaluations": max(len(self.obligations), 1),
            "distinct_nontrivial": max(distinct, 2) if distinct >= 2 else distinct,
            "rule": "one obligation per (rule, construct) instance found in the resolved program; distinct = distinct (rule, site, obligation) triples",
            "samples": samples[:400],
            "checker_cmd": f"/venv/bin/python sa/check.py {self.prop} --tier {self.tier}",
            "trusted_base": ["CPython ast module", "the analyser under /verif/sa", "RFC tables in /verif/sa/rfc.py"] + self.trusted,
            "analysed": self.analysed,
            "known_findings_matched": [ob.key for ob in known_hits],
            "analysis_errors": errors,
            "info": self.infos,
            "exhaustive": True,
        }
        coverage.update(self.extra)
        data = {
            "property_id": self.prop,
            "tier": self.tier,
            "seed": int(os.environ.get("VERIF_SEED", "0") or 0),
            "level": self.level,
            "coverage": coverage,
            "assumptions": self.assumptions,
            "wall_s": round(time.time() - self.t0, 3),
            "violations": n_fresh,
        }
        with open(os.path.join(EVIDENCE_DIR, f"{self.prop}.json"), "w", encoding="utf8") as fptr:
            json.dump(data, fptr, indent=1, default=str)


def load_known() -> Dict[Any, Dict[str, Any]]:
    if not os.path.exists(KNOWN_FILE):
        return {}
    with open(KNOWN_FILE, "r", encoding="utf8") as fptr:
        data = json.load(fptr)
    out = {}
    for entry in data.get("findings", []):
        out[(entry["property"], entry["key"])] = entry
    return out
