"""
E2/E3 - symbols, classes, constants, callee resolution.

Resolution is by *definition*, never by text: names are followed through
imports (absolute, relative, aliased), module-level bindings, class hierarchies
(C3 MRO across puresnmp, the plug-ins and x690), annotations, constructor
calls, ``self`` and the plug-in factories (``<ns>.create(identifier)``).
"""
from __future__ import annotations

import ast
import os
from dataclasses import dataclass
from typing import Any, Dict, List, Optional, Sequence, Set, Tuple, Union

from .universe import (
    AnalysisError,
    ClassInfo,
    FuncInfo,
    Module,
    Universe,
    own_nodes,
)


@dataclass(frozen=True)
class Binding:
    kind: str  # module | func | class | value | external | param | local
    target: Any = None  # Module | FuncInfo | ClassInfo | ast.expr | str
    module: Optional[Module] = None  # module in which a 'value' expr lives


class NotConstant(Exception):
    pass


class EnumMember:
    """A constant-evaluated member of an Enum class (e.g. TypeClass.CONTEXT)."""

    def __init__(self, cls: str, name: str, value: Any) -> None:
        self.cls, self.name, self.value = cls, name, value

    def __eq__(self, other: object) -> bool:
        return isinstance(other, EnumMember) and (self.cls, self.name) == (other.cls, other.name)

    def __hash__(self) -> int:
        return hash((self.cls, self.name))

    def __repr__(self) -> str:
        return f"{self.cls}.{self.name}"


class IntEnumMember(int):
    """A member of an IntEnum: an int for every comparison, hash and arithmetic purpose, that remembers its name."""

    def __new__(cls, value: int, enum_cls: str = "", name: str = "") -> "IntEnumMember":
        obj = super().__new__(cls, value)
        obj.enum_cls, obj.enum_name = enum_cls, name  # type: ignore[attr-defined]
        return obj

    def __repr__(self) -> str:
        return f"{self.enum_cls}.{self.enum_name}"  # type: ignore[attr-defined]

    __str__ = __repr__


class StrEnumMember(str):
    """A member of a str-mixin Enum (class Mode(str, Enum)): a str for every comparison and hash, that remembers its name."""

    def __new__(cls, value: str, enum_cls: str = "", name: str = "") -> "StrEnumMember":
        obj = super().__new__(cls, value)
        obj.enum_cls, obj.enum_name = enum_cls, name  # type: ignore[attr-defined]
        return obj


class Resolver:
    def __init__(self, universe: Universe) -> None:
        self.u = universe
        self._env: Dict[str, Dict[str, Binding]] = {}
        self._mro: Dict[str, List[ClassInfo]] = {}
        self._busy: Set[Tuple[str, str]] = set()
        self._busy_expr: Set[Tuple[str, int]] = set()

    # ------------------------------------------------------------------ env
    def env(self, mod: Module) -> Dict[str, Binding]:
        name = getattr(mod, "env_name", None) or mod.name  # a view of a module with extra bindings (engine/inline.py)
        if name in self._env:
            return self._env[name]
        env: Dict[str, Binding] = {}
        self._env[name] = env
        self._fill_env(mod, mod.tree.body, env)
        return env

    def _fill_env(self, mod: Module, body: Sequence[ast.stmt], env: Dict[str, Binding]) -> None:
        for stmt in body:
            if isinstance(stmt, ast.Import):
                for alias in stmt.names:
                    name = alias.asname or alias.name.split(".")[0]
                    target = alias.name if alias.asname else alias.name.split(".")[0]
                    env[name] = self._module_binding(target)
            elif isinstance(stmt, ast.ImportFrom):
                base = self._abs_module(mod, stmt.module, stmt.level)
                for alias in stmt.names:
                    name = alias.asname or alias.name
                    env[name] = self._import_from(base, alias.name)
            elif isinstance(stmt, (ast.FunctionDef, ast.AsyncFunctionDef)):
                fn = self.u.functions.get(f"{mod.name}:{stmt.name}")
                if fn is not None:
                    env[stmt.name] = Binding("func", fn)
            elif isinstance(stmt, ast.ClassDef):
                cls = self.u.classes.get(f"{mod.name}:{stmt.name}")
                if cls is not None:
                    env[stmt.name] = Binding("class", cls)
            elif isinstance(stmt, ast.Assign):
                for tgt in stmt.targets:
                    if isinstance(tgt, ast.Name):
                        env[tgt.id] = Binding("value", stmt.value, mod)
            elif isinstance(stmt, ast.AnnAssign) and isinstance(stmt.target, ast.Name):
                if stmt.value is not None:
                    env[stmt.target.id] = Binding("value", stmt.value, mod)
            elif isinstance(stmt, ast.Try):
                # try: from typing import X / except ImportError: fallback -> first wins
                for blk in [h.body for h in stmt.handlers][::-1] + [stmt.orelse, stmt.body]:
                    self._fill_env(mod, blk, env)
            elif isinstance(stmt, ast.If):
                self._fill_env(mod, stmt.orelse, env)
                self._fill_env(mod, stmt.body, env)

    def _abs_module(self, mod: Module, name: Optional[str], level: int) -> str:
        if level == 0:
            return name or ""
        parts = mod.name.split(".")
        is_pkg = os.path.basename(mod.path) == "__init__.py"
        if not is_pkg:
            parts = parts[:-1]
        if level > 1:
            parts = parts[: len(parts) - (level - 1)]
        base = ".".join(parts)
        if name:
            return f"{base}.{name}" if base else name
        return base

    def _module_binding(self, dotted: str) -> Binding:
        if dotted in self.u.modules:
            return Binding("module", self.u.modules[dotted])
        # namespace packages (puresnmp_plugins, puresnmp.plugins without import)
        prefix = dotted + "."
        if any(m.startswith(prefix) for m in self.u.modules):
            return Binding("module", dotted)
        return Binding("external", dotted)

    def _import_from(self, base: str, name: str) -> Binding:
        sub = f"{base}.{name}" if base else name
        if base in self.u.modules:
            benv = self.env(self.u.modules[base])
            if name in benv:
                return benv[name]
        if sub in self.u.modules:
            return Binding("module", self.u.modules[sub])
        prefix = sub + "."
        if any(m.startswith(prefix) for m in self.u.modules):
            return Binding("module", sub)
        return Binding("external", sub)

    # ---------------------------------------------------------------- names
    def resolve_name(self, mod: Module, name: str) -> Optional[Binding]:
        return self.env(mod).get(name)

    def resolve_expr(self, mod: Module, expr: ast.expr) -> Optional[Binding]:
        """Resolve a Name / dotted Attribute chain to a module-level definition."""
        if isinstance(expr, ast.Name):
            return self.resolve_name(mod, expr.id)
        if isinstance(expr, ast.Attribute):
            base = self.resolve_expr(mod, expr.value)
            if base is None:
                return None
            if base.kind == "module":
                if isinstance(base.target, Module):
                    got = self.env(base.target).get(expr.attr)
                    if got is not None:
                        return got
                    return self._module_binding(base.target.name + "." + expr.attr)
                return self._module_binding(str(base.target) + "." + expr.attr)
            if base.kind == "class":
                attr = self.class_attr(base.target, expr.attr)
                if attr is not None:
                    return attr
                return None
            if base.kind == "external":
                return Binding("external", f"{base.target}.{expr.attr}")
        return None

    def resolve_class(self, mod: Module, expr: ast.expr) -> Optional[ClassInfo]:
        """Resolve an annotation / base / constructor expression to a class."""
        if isinstance(expr, ast.Constant) and isinstance(expr.value, str):
            try:
                expr = ast.parse(expr.value, mode="eval").body
            except SyntaxError:
                return None
        if isinstance(expr, ast.Subscript):
            # Optional[X] / Type[X] keep the inner class for Optional only
            head = self.resolve_expr(mod, expr.value)
            if head is not None and head.kind == "external" and str(head.target).endswith("Optional"):
                return self.resolve_class(mod, expr.slice)  # type: ignore[arg-type]
            return self.resolve_class(mod, expr.value)
        got = self.resolve_expr(mod, expr)
        if got is not None and got.kind == "class":
            return got.target
        if got is not None and got.kind == "value" and got.module is not None:
            # alias: X690Type as Type / TV3SecModel = SecurityModel[...]
            return self.resolve_class(got.module, got.target)
        return None

    # ------------------------------------------------------------------ mro
    def bases(self, cls: ClassInfo) -> List[ClassInfo]:
        out = []
        for base in cls.node.bases:
            got = self.resolve_class(cls.module, base)
            if got is not None:
                out.append(got)
        return out

    def mro(self, cls: ClassInfo) -> List[ClassInfo]:
        if cls.key in self._mro:
            return self._mro[cls.key]
        self._mro[cls.key] = [cls]  # recursion guard
        seqs = [self.mro(b)[:] for b in self.bases(cls)] + [self.bases(cls)[:]]
        result = [cls]
        while True:
            seqs = [s for s in seqs if s]
            if not seqs:
                break
            for seq in seqs:
                cand = seq[0]
                if not any(cand in s[1:] for s in seqs):
                    break
            else:  # inconsistent hierarchy: fall back to DFS order
                cand = seqs[0][0]
            result.append(cand)
            for seq in seqs:
                if seq and seq[0] == cand:
                    del seq[0]
        self._mro[cls.key] = result
        return result

    def is_subclass(self, cls: ClassInfo, other: ClassInfo) -> bool:
        return other in self.mro(cls)

    def subclasses(self, cls: ClassInfo, direct: bool = False) -> List[ClassInfo]:
        out = []
        for cand in self.u.classes.values():
            if cand == cls:
                continue
            if direct:
                if cls in self.bases(cand):
                    out.append(cand)
            elif self.is_subclass(cand, cls):
                out.append(cand)
        return out

    def class_attr(self, cls: ClassInfo, name: str) -> Optional[Binding]:
        for klass in self.mro(cls):
            if name in klass.methods:
                return Binding("func", klass.methods[name])
            if name in klass.attrs:
                return Binding("value", klass.attrs[name], klass.module)
        return None

    def class_attr_owner(self, cls: ClassInfo, name: str) -> Optional[ClassInfo]:
        for klass in self.mro(cls):
            if name in klass.methods or name in klass.attrs:
                return klass
        return None

    def method(self, cls: ClassInfo, name: str) -> Optional[FuncInfo]:
        got = self.class_attr(cls, name)
        if got is not None and got.kind == "func":
            return got.target
        return None

    # ----------------------------------------------------------- const eval
    def const(self, mod: Module, expr: ast.expr, cls: Optional[ClassInfo] = None, depth: int = 0) -> Any:
        if depth > 12:
            raise NotConstant("depth")
        if isinstance(expr, ast.Constant):
            return expr.value
        if isinstance(expr, (ast.List, ast.Tuple)):
            vals = [self.const(mod, e, cls, depth + 1) for e in expr.elts]
            return vals if isinstance(expr, ast.List) else tuple(vals)
        if isinstance(expr, ast.UnaryOp):
            val = self.const(mod, expr.operand, cls, depth + 1)
            if isinstance(expr.op, ast.USub):
                return -val
            if isinstance(expr.op, ast.Invert):
                return ~val
            if isinstance(expr.op, ast.Not):
                return not val
            raise NotConstant("unary")
        if isinstance(expr, ast.BinOp):
            left = self.const(mod, expr.left, cls, depth + 1)
            right = self.const(mod, expr.right, cls, depth + 1)
            ops = {
                ast.Add: lambda a, b: a + b,
                ast.Sub: lambda a, b: a - b,
                ast.Mult: lambda a, b: a * b,
                ast.FloorDiv: lambda a, b: a // b,
                ast.Mod: lambda a, b: a % b,
                ast.Pow: lambda a, b: a**b if abs(b) < 200 else (_ for _ in ()).throw(NotConstant("pow")),
                ast.LShift: lambda a, b: a << b,
                ast.RShift: lambda a, b: a >> b,
                ast.BitOr: lambda a, b: a | b,
                ast.BitAnd: lambda a, b: a & b,
                ast.BitXor: lambda a, b: a ^ b,
            }
            fn = ops.get(type(expr.op))
            if fn is None:
                raise NotConstant("binop")
            try:
                return fn(left, right)
            except NotConstant:
                raise
            except Exception as exc:  # pylint: disable=broad-except
                raise NotConstant(str(exc))
        if isinstance(expr, ast.Name):
            if cls is not None:
                attr = self.class_attr(cls, expr.id) if expr.id in cls.attrs else None
                if attr is not None and attr.kind == "value":
                    return self.const(attr.module or mod, attr.target, cls, depth + 1)
            got = self.resolve_name(mod, expr.id)
            if got is not None and got.kind == "value" and got.module is not None:
                return self.const(got.module, got.target, None, depth + 1)
            raise NotConstant(expr.id)
        if isinstance(expr, ast.Attribute):
            if cls is not None and isinstance(expr.value, ast.Name) and expr.value.id in ("self", "cls"):
                # a class-level constant read through the instance; never re-bound by a method of the class
                attr = self.class_attr(cls, expr.attr)
                if attr is not None and attr.kind == "value" and not self._instance_rebinds(cls, expr.attr):
                    return self.const(attr.module or cls.module, attr.target, cls, depth + 1)
                raise NotConstant(ast.unparse(expr))
            base = self.resolve_expr(mod, expr.value)
            if base is not None and base.kind == "class":
                klass: ClassInfo = base.target
                attr = self.class_attr(klass, expr.attr)
                if attr is not None and attr.kind == "value":
                    val = self.const(attr.module or klass.module, attr.target, klass, depth + 1)
                    if self._is_enum(klass):
                        if isinstance(val, int) and not isinstance(val, bool) and any(ast.unparse(b).split(".")[-1] in ("IntEnum", "IntFlag") for k in self.mro(klass) for b in k.node.bases):
                            return IntEnumMember(val, klass.name, expr.attr)
                        if isinstance(val, str) and not klass.module.external and any(ast.unparse(b).split(".")[-1] in ("str", "StrEnum") for k in self.mro(klass) for b in k.node.bases):
                            return StrEnumMember(val, klass.name, expr.attr)
                        return EnumMember(klass.name, expr.attr, val)
                    return val
            if base is not None and base.kind == "module" and isinstance(base.target, Module):
                got = self.env(base.target).get(expr.attr)
                if got is not None and got.kind == "value" and got.module is not None:
                    return self.const(got.module, got.target, None, depth + 1)
            raise NotConstant(ast.unparse(expr))
        raise NotConstant(type(expr).__name__)

    def _instance_rebinds(self, cls: ClassInfo, name: str) -> bool:
        for klass in self.mro(cls):
            # a field of a dataclass / NamedTuple: the class-level value is only the default of an instance attribute
            is_record = any(ast.unparse(d).split("(")[0].split(".")[-1] == "dataclass" for d in getattr(klass.node, "decorator_list", [])) or any(ast.unparse(b).split(".")[-1] == "NamedTuple" for b in klass.node.bases)
            if is_record and any(isinstance(st, ast.AnnAssign) and isinstance(st.target, ast.Name) and st.target.id == name for st in klass.node.body):
                return True
            for meth in klass.methods.values():
                for n in ast.walk(meth.node):
                    if isinstance(n, ast.Attribute) and n.attr == name and isinstance(n.ctx, (ast.Store, ast.Del)):
                        return True
        return False

    def _is_enum(self, cls: ClassInfo) -> bool:
        for base in cls.node.bases:
            txt = ast.unparse(base)
            if txt.split(".")[-1] in ("Enum", "IntEnum"):
                return True
        return False

    def class_const(self, cls: ClassInfo, name: str) -> Any:
        """Constant value of class attribute *name* looked up through the MRO."""
        for klass in self.mro(cls):
            if name in klass.attrs:
                return self.const(klass.module, klass.attrs[name], klass)
        raise NotConstant(f"{cls.name}.{name}")

    # ------------------------------------------------------------- plug-ins
    def plugin_namespace(self, factory: FuncInfo) -> Optional[str]:
        """
        If *factory* is a plug-in factory (it builds ``Loader(namespace, ...)``)
        return the namespace string it loads from, read from its source.
        """
        consts: Dict[str, str] = {}
        for node in own_nodes(factory.node):
            if isinstance(node, ast.Assign) and len(node.targets) == 1 and isinstance(node.targets[0], ast.Name):
                if isinstance(node.value, ast.Constant) and isinstance(node.value.value, str):
                    consts[node.targets[0].id] = node.value.value
        for node in own_nodes(factory.node):
            if isinstance(node, ast.Call):
                got = self.resolve_expr(factory.module, node.func)
                if got is not None and got.kind == "class" and got.target.name == "Loader" and node.args:
                    arg = node.args[0]
                    if isinstance(arg, ast.Constant) and isinstance(arg.value, str):
                        return arg.value
                    if isinstance(arg, ast.Name) and arg.id in consts:
                        return consts[arg.id]
        return None

    def plugin_modules(self, namespace: str) -> List[Module]:
        prefix = namespace + "."
        return [m for name, m in sorted(self.u.modules.items()) if name.startswith(prefix) and "." not in name[len(prefix):]]

    def plugin_identifier(self, mod: Module) -> Any:
        got = self.env(mod).get("IDENTIFIER")
        if got is None or got.kind != "value":
            return None
        try:
            return self.const(mod, got.target)
        except NotConstant:
            return None

    def factory_returns_module(self, factory: FuncInfo) -> bool:
        """True when the factory hands out the plug-in module itself (auth, priv)."""
        for node in own_nodes(factory.node):
            if isinstance(node, ast.Return) and node.value is not None:
                if isinstance(node.value, ast.Call) and isinstance(node.value.func, ast.Attribute) and node.value.func.attr == "create":
                    return False
        return True

    def plugin_instance_classes(self, factory: FuncInfo, identifier: Any = None) -> List[ClassInfo]:
        """Classes instantiated by the ``create`` of each plug-in the factory may load."""
        ns = self.plugin_namespace(factory)
        if ns is None:
            return []
        out: List[ClassInfo] = []
        for mod in self.plugin_modules(ns):
            if identifier is not None and self.plugin_identifier(mod) != identifier:
                continue
            create = self.u.functions.get(f"{mod.name}:create")
            if create is None:
                continue
            for node in own_nodes(create.node):
                if isinstance(node, ast.Return) and isinstance(node.value, ast.Call):
                    klass = self.resolve_class(mod, node.value.func)
                    if klass is not None:
                        out.append(klass)
        return out

    # ------------------------------------------------------------ receivers
    def self_attr_types(self, cls: ClassInfo, attr: str) -> List[ClassInfo]:
        """Possible classes of ``self.<attr>`` from annotations and assignments."""
        out: List[ClassInfo] = []
        guard = (cls.key, attr)
        if guard in self._busy:
            return out
        self._busy.add(guard)
        try:
            return self._self_attr_types(cls, attr)
        finally:
            self._busy.discard(guard)

    def _self_attr_types(self, cls: ClassInfo, attr: str) -> List[ClassInfo]:
        out: List[ClassInfo] = []
        for klass in self.mro(cls):
            if attr in klass.ann:
                got = self.resolve_class(klass.module, klass.ann[attr])
                if got is not None and got not in out:
                    out.append(got)
            for fn in klass.methods.values():
                for node in own_nodes(fn.node):
                    if isinstance(node, ast.Assign):
                        for tgt in node.targets:
                            if (
                                isinstance(tgt, ast.Attribute)
                                and isinstance(tgt.value, ast.Name)
                                and tgt.value.id == "self"
                                and tgt.attr == attr
                            ):
                                for got in self.expr_classes(fn, node.value):
                                    if got not in out:
                                        out.append(got)
        return out

    def expr_classes(self, fn: FuncInfo, expr: ast.expr, depth: int = 0) -> List[ClassInfo]:
        """Classes an expression may be an instance of (empty = unknown)."""
        if depth > 6:
            return []
        guard = (fn.key, id(expr))
        if guard in self._busy_expr:
            return []  # self-referential definition (x = x.method()): unknown
        self._busy_expr.add(guard)
        try:
            return self._expr_classes(fn, expr, depth)
        finally:
            self._busy_expr.discard(guard)

    def ann_classes(self, mod: Module, ann: Optional[ast.AST]) -> List[ClassInfo]:
        """Classes named by an annotation: the class itself, or the members of Optional[..] / Union[..] / X | Y."""
        if ann is None:
            return []
        if isinstance(ann, ast.Constant) and isinstance(ann.value, str):
            try:
                ann = ast.parse(ann.value, mode="eval").body
            except SyntaxError:
                return []
        got = self.resolve_class(mod, ann)  # type: ignore[arg-type]
        if got is not None:
            return [got]
        out: List[ClassInfo] = []
        if isinstance(ann, ast.Subscript) and ast.unparse(ann.value).split(".")[-1] in ("Optional", "Union"):
            members = ann.slice.elts if isinstance(ann.slice, ast.Tuple) else [ann.slice]
            for m in members:
                for k in self.ann_classes(mod, m):
                    if k not in out:
                        out.append(k)
        elif isinstance(ann, ast.BinOp) and isinstance(ann.op, ast.BitOr):
            for m in (ann.left, ann.right):
                for k in self.ann_classes(mod, m):
                    if k not in out:
                        out.append(k)
        return out

    def _expr_classes(self, fn: FuncInfo, expr: ast.expr, depth: int = 0) -> List[ClassInfo]:
        mod = fn.module
        if isinstance(expr, ast.Await):
            return self.expr_classes(fn, expr.value, depth + 1)
        if isinstance(expr, ast.Name):
            if expr.id == "self" and self._self_class(fn) is not None:
                return [self._self_class(fn)]  # type: ignore[list-item]
            ann = self._param_annotation(fn, expr.id)
            if ann is not None:
                got = self.resolve_class(mod, ann)
                return [got] if got is not None else []
            # single local assignment
            for node in own_nodes(fn.node):
                if isinstance(node, ast.Assign) and len(node.targets) == 1:
                    tgt = node.targets[0]
                    if isinstance(tgt, ast.Name) and tgt.id == expr.id:
                        got_v = self.expr_classes(fn, node.value, depth + 1)
                        ann = getattr(node, "_annotation", None)
                        if not got_v and ann is not None:
                            got_a = self.resolve_class(mod, ann)
                            if got_a is not None:
                                return [got_a]
                        return got_v
                if isinstance(node, ast.AnnAssign) and isinstance(node.target, ast.Name) and node.target.id == expr.id:
                    got = self.resolve_class(mod, node.annotation)
                    if got is not None:
                        return [got]
                # a, b = helper(...): the element the helper returns at that position
                if isinstance(node, ast.Assign) and len(node.targets) == 1 and isinstance(node.targets[0], ast.Tuple) and isinstance(node.value, (ast.Call, ast.Await)):
                    names = [e.id if isinstance(e, ast.Name) else None for e in node.targets[0].elts]
                    if expr.id in names:
                        idx = names.index(expr.id)
                        call = node.value.value if isinstance(node.value, ast.Await) else node.value
                        found: List[ClassInfo] = []
                        if isinstance(call, ast.Call):
                            for callee in self.callees(fn, call):
                                if not isinstance(callee, FuncInfo) or callee.module.external:
                                    continue
                                for ret in own_nodes(callee.node):
                                    if isinstance(ret, ast.Return) and isinstance(ret.value, ast.Tuple) and len(ret.value.elts) == len(names):
                                        for k in self.expr_classes(callee, ret.value.elts[idx], depth + 1):
                                            if k not in found:
                                                found.append(k)
                                if not found:
                                    ann_r = getattr(callee.node, "returns", None)
                                    if isinstance(ann_r, ast.Subscript) and isinstance(ann_r.slice, ast.Tuple) and len(ann_r.slice.elts) == len(names):
                                        got = self.resolve_class(callee.module, ann_r.slice.elts[idx])
                                        if got is not None:
                                            found.append(got)
                        if found:
                            return found
            if fn.parent is not None:
                return self.expr_classes(fn.parent, expr, depth + 1)
            return []
        if isinstance(expr, ast.Attribute):
            if isinstance(expr.value, ast.Name) and expr.value.id == "self":
                klass = self._self_class(fn)
                if klass is not None:
                    found_t = self.self_attr_types(klass, expr.attr)
                    if not found_t:
                        for k in self.mro(klass):
                            if expr.attr in k.methods:  # a property: what it is annotated to return
                                found_t = self.ann_classes(k.module, getattr(k.methods[expr.attr].node, "returns", None))
                                break
                    return found_t
            owners = self.expr_classes(fn, expr.value, depth + 1)
            out: List[ClassInfo] = []
            for owner in owners:
                for klass in self.mro(owner):
                    if expr.attr in klass.ann:
                        for got in self.ann_classes(klass.module, klass.ann[expr.attr]):
                            if got not in out:
                                out.append(got)
                        break
                    if expr.attr in klass.methods:
                        prop = klass.methods[expr.attr]
                        ret = getattr(prop.node, "returns", None)
                        for got in self.ann_classes(klass.module, ret):
                            if got not in out:
                                out.append(got)
                        break
            return out
        if isinstance(expr, ast.Call) and isinstance(expr.func, ast.Name) and expr.func.id == "cast" and len(expr.args) == 2:
            got = self.resolve_class(mod, expr.args[0])
            return [got] if got is not None else []
        if isinstance(expr, ast.Call):
            callees = self.callees(fn, expr)
            out = []
            for callee in callees:
                if isinstance(callee, ClassInfo):
                    if callee not in out:
                        out.append(callee)
                elif isinstance(callee, FuncInfo):
                    ns = self.plugin_namespace(callee)
                    if ns is not None and not self.factory_returns_module(callee):
                        ident = None
                        if expr.args:
                            try:
                                ident = self.const(mod, expr.args[0])
                            except NotConstant:
                                ident = self._local_const(fn, expr.args[0])
                        for klass in self.plugin_instance_classes(callee, ident):
                            if klass not in out:
                                out.append(klass)
                        continue
                    ret = getattr(callee.node, "returns", None)
                    for got in self.ann_classes(callee.module, ret):
                        if got not in out:
                            out.append(got)
            return out
        return []

    def _local_const(self, fn: FuncInfo, expr: ast.expr) -> Any:
        if isinstance(expr, ast.Name):
            vals = []
            for node in own_nodes(fn.node):
                if isinstance(node, ast.Assign) and len(node.targets) == 1 and isinstance(node.targets[0], ast.Name) and node.targets[0].id == expr.id:
                    vals.append(node.value)
            if len(vals) == 1:
                try:
                    return self.const(fn.module, vals[0])
                except NotConstant:
                    return None
        return None

    def _self_class(self, fn: FuncInfo) -> Optional[ClassInfo]:
        cur: Optional[FuncInfo] = fn
        while cur is not None:
            if cur.cls is not None:
                return cur.cls
            cur = cur.parent
        return None

    def _param_annotation(self, fn: FuncInfo, name: str) -> Optional[ast.expr]:
        args = fn.node.args  # type: ignore[attr-defined]
        for arg in args.posonlyargs + args.args + args.kwonlyargs:
            if arg.arg == name:
                return arg.annotation
        return None

    # -------------------------------------------------------------- callees
    def callees(self, fn: FuncInfo, call: ast.Call) -> List[Union[FuncInfo, ClassInfo, str]]:
        """
        Definitions a call may reach.  Strings name external / unresolved
        callees (``ext:<dotted>`` or ``?<attr>``).
        """
        func = call.func
        mod = fn.module
        if isinstance(func, ast.Name):
            # nested function of this or an enclosing function
            cur: Optional[FuncInfo] = fn
            while cur is not None:
                if func.id in cur.nested:
                    return [cur.nested[func.id]]
                cur = cur.parent
            got = self.resolve_name(mod, func.id)
            if got is None:
                return [f"?{func.id}"]
            return self._binding_callees(got)
        if isinstance(func, ast.Attribute):
            got = self.resolve_expr(mod, func)
            if got is not None and got.kind in ("func", "class", "external"):
                return self._binding_callees(got)
            if isinstance(func.value, ast.Call) and isinstance(func.value.func, ast.Name) and func.value.func.id == "super":
                klass = self._self_class(fn)
                if klass is not None:
                    for base in self.mro(klass)[1:]:
                        if func.attr in base.methods:
                            return [base.methods[func.attr]]
                return [f"?super.{func.attr}"]
            owners = self.expr_classes(fn, func.value)
            out: List[Union[FuncInfo, ClassInfo, str]] = []
            for owner in owners:
                # the receiver may be any subclass overriding the method
                meth = self.method(owner, func.attr)
                if meth is not None and meth not in out:
                    out.append(meth)
                for sub in self.subclasses(owner):
                    if func.attr in sub.methods and sub.methods[func.attr] not in out:
                        out.append(sub.methods[func.attr])
            if out:
                return out
            return [f"?{func.attr}"]
        return ["?"]

    def _binding_callees(self, got: Binding) -> List[Union[FuncInfo, ClassInfo, str]]:
        if got.kind == "func":
            return [got.target]
        if got.kind == "class":
            return [got.target]
        if got.kind == "external":
            return [f"ext:{got.target}"]
        if got.kind == "value" and got.module is not None:
            # alias of something callable
            sub = self.resolve_expr(got.module, got.target) if isinstance(got.target, (ast.Name, ast.Attribute)) else None
            if sub is not None:
                return self._binding_callees(sub)
        return ["?value"]

    def callee_names(self, fn: FuncInfo, call: ast.Call) -> List[str]:
        out = []
        for c in self.callees(fn, call):
            if isinstance(c, FuncInfo):
                out.append(c.key)
            elif isinstance(c, ClassInfo):
                out.append(c.key)
            else:
                out.append(c)
        return out

    def call_resolves_to(self, fn: FuncInfo, call: ast.Call, *keys: str) -> bool:
        names = self.callee_names(fn, call)
        wanted = {self.u.canonical(k) for k in keys} | set(keys)
        return any(n in wanted for n in names)
