"""
E1 - the analysed universe.

Every ``*.py`` below ``<repo>/src/puresnmp`` and ``<repo>/src/puresnmp_plugins``
is parsed from the *working tree* on every run.  ``x690`` (a resolved
dependency, not part of the repository) is located through
``importlib.util.find_spec`` and parsed from source as well; nothing from the
repository or from ``x690`` is ever imported or executed.
"""
from __future__ import annotations

import ast
import hashlib
import importlib.util
import os
from dataclasses import dataclass, field
from typing import Dict, Iterator, List, Optional, Tuple


class AnalysisError(Exception):
    """An anchor vanished or a construct is outside the recognised idioms."""


@dataclass
class Module:
    name: str
    path: str
    source: str
    tree: ast.Module
    external: bool = False  # True for x690

    @property
    def rel(self) -> str:
        return self.path


@dataclass
class ClassInfo:
    module: Module
    name: str
    node: ast.ClassDef
    methods: Dict[str, "FuncInfo"] = field(default_factory=dict)
    attrs: Dict[str, ast.expr] = field(default_factory=dict)  # class-level assignments
    ann: Dict[str, ast.expr] = field(default_factory=dict)  # class-level annotations

    @property
    def key(self) -> str:
        return f"{self.module.name}:{self.name}"

    def __hash__(self) -> int:
        return hash(self.key)

    def __eq__(self, other: object) -> bool:
        return isinstance(other, ClassInfo) and other.key == self.key


@dataclass
class FuncInfo:
    module: Module
    qualname: str
    node: ast.AST  # FunctionDef | AsyncFunctionDef
    cls: Optional[ClassInfo] = None
    parent: Optional["FuncInfo"] = None
    nested: Dict[str, "FuncInfo"] = field(default_factory=dict)

    @property
    def key(self) -> str:
        return f"{self.module.name}:{self.qualname}"

    @property
    def name(self) -> str:
        return self.node.name  # type: ignore[attr-defined]

    @property
    def is_async(self) -> bool:
        return isinstance(self.node, ast.AsyncFunctionDef)

    @property
    def params(self) -> List[str]:
        a = self.node.args  # type: ignore[attr-defined]
        names = [x.arg for x in a.posonlyargs + a.args]
        if a.vararg:
            names.append(a.vararg.arg)
        names += [x.arg for x in a.kwonlyargs]
        if a.kwarg:
            names.append(a.kwarg.arg)
        return names

    def site(self, node: Optional[ast.AST] = None) -> str:
        line = getattr(node, "lineno", None) or self.node.lineno  # type: ignore[attr-defined]
        return f"{self.module.path}:{line} ({self.qualname})"

    def __hash__(self) -> int:
        return hash(self.key)

    def __eq__(self, other: object) -> bool:
        return isinstance(other, FuncInfo) and other.key == self.key


class _Normalise(ast.NodeTransformer):
    """
    Spelling variants that carry no meaning for the rules are brought to one form before anything looks at the tree:
    inside function bodies ``x: T = v`` becomes ``x = v`` (the annotation is kept on the node as ``_annotation``),
    so that a maintainer who turns type comments into annotations does not change what the rules see.
    Class-level annotated assignments (dataclass fields) are left alone.
    """

    def __init__(self) -> None:
        self.in_function = 0

    def visit_FunctionDef(self, node):  # noqa: N802
        self.in_function += 1
        self.generic_visit(node)
        self.in_function -= 1
        self._explicit_iteration(node)
        self._guarded_forever_loops(node)
        return node

    visit_AsyncFunctionDef = visit_FunctionDef

    @staticmethod
    def _guarded_forever_loops(fn) -> None:
        """
        ``while True:`` whose first statement is the exit test is the loop with that test as its condition:

            while True:                         while not C:
                if C: break | return [v]            REST
                REST                            [return v]

        (for ``return`` only when REST holds no ``break``, which would otherwise fall to the code after the loop).
        """

        def rewrite(block):
            out = []
            for st in block:
                for fld in ("body", "orelse", "finalbody"):
                    sub = getattr(st, fld, None)
                    if isinstance(sub, list) and sub and isinstance(sub[0], ast.stmt) and not isinstance(st, (ast.FunctionDef, ast.AsyncFunctionDef, ast.ClassDef)):
                        setattr(st, fld, rewrite(sub))
                for h in getattr(st, "handlers", []) or []:
                    h.body = rewrite(h.body)
                extra = None
                if isinstance(st, ast.While) and isinstance(st.test, ast.Constant) and st.test.value is True and not st.orelse and len(st.body) >= 2:
                    first = st.body[0]
                    if isinstance(first, ast.If) and not first.orelse and len(first.body) == 1 and isinstance(first.body[0], (ast.Break, ast.Return)):
                        rest = st.body[1:]
                        leaves = first.body[0]

                        def own_breaks(stmts):
                            for s_ in stmts:
                                if isinstance(s_, ast.Break):
                                    return True
                                if isinstance(s_, (ast.For, ast.AsyncFor, ast.While, ast.FunctionDef, ast.AsyncFunctionDef, ast.ClassDef)):
                                    if own_breaks(getattr(s_, "orelse", []) or []):
                                        return True
                                    continue  # a break inside belongs to that loop
                                for fld in ("body", "orelse", "finalbody"):
                                    if own_breaks(getattr(s_, fld, []) or []):
                                        return True
                                for h in getattr(s_, "handlers", []) or []:
                                    if own_breaks(h.body):
                                        return True
                            return False

                        if isinstance(leaves, ast.Break) or not own_breaks(rest):
                            cond = first.test
                            new_test = cond.operand if isinstance(cond, ast.UnaryOp) and isinstance(cond.op, ast.Not) else ast.UnaryOp(op=ast.Not(), operand=cond)
                            st.test = ast.copy_location(new_test, cond)
                            ast.fix_missing_locations(st.test)
                            st.body = rest
                            if isinstance(leaves, ast.Return):
                                extra = leaves
                out.append(st)
                if extra is not None:
                    out.append(extra)
            return out

        fn.body = rewrite(fn.body)

    @staticmethod
    def _explicit_iteration(fn) -> None:
        """
        The hand-written iteration protocol is the loop statement it spells out:

            it = X.__aiter__()                       it = iter(X)
            while True:                              while True:
                try:                                     try:
                    v = await it.__anext__()                 v = next(it)
                except StopAsyncIteration:               except StopIteration:
                    break | return                           break | return
                BODY                                     BODY

        becomes ``async for v in X: BODY`` / ``for v in X: BODY`` (followed by ``return`` when the handler returned),
        provided the iterator variable is used nowhere else.
        """

        def rewrite(block):
            out = []
            i = 0
            while i < len(block):
                st = block[i]
                for fld in ("body", "orelse", "finalbody"):
                    sub = getattr(st, fld, None)
                    if isinstance(sub, list) and sub and isinstance(sub[0], ast.stmt) and not isinstance(st, (ast.FunctionDef, ast.AsyncFunctionDef, ast.ClassDef)):
                        setattr(st, fld, rewrite(sub))
                for h in getattr(st, "handlers", []) or []:
                    h.body = rewrite(h.body)
                nxt = block[i + 1] if i + 1 < len(block) else None
                made = None
                consumed = 2
                flag = None
                restore = None
                nxt2 = block[i + 2] if i + 2 < len(block) else None
                if (
                    isinstance(st, ast.Assign)
                    and isinstance(nxt, ast.Assign)
                    and len(nxt.targets) == 1
                    and isinstance(nxt.targets[0], ast.Name)
                    and isinstance(nxt.value, ast.Constant)
                    and nxt.value.value is False
                    and isinstance(nxt2, ast.While)
                    and isinstance(nxt2.test, ast.UnaryOp)
                    and isinstance(nxt2.test.op, ast.Not)
                    and isinstance(nxt2.test.operand, ast.Name)
                    and nxt2.test.operand.id == nxt.targets[0].id
                    and len(nxt2.body) == 1
                    and isinstance(nxt2.body[0], ast.Try)
                ):
                    # the flag-driven spelling:  done = False / while not done: try: v = await it.__anext__()
                    #                             except StopAsyncIteration: done = True / else: BODY
                    flag = nxt.targets[0].id
                    h0 = nxt2.body[0].handlers[0] if len(nxt2.body[0].handlers) == 1 else None
                    sets_flag = h0 is not None and len(h0.body) == 1 and isinstance(h0.body[0], ast.Assign) and len(h0.body[0].targets) == 1 and isinstance(h0.body[0].targets[0], ast.Name) and h0.body[0].targets[0].id == flag and isinstance(h0.body[0].value, ast.Constant) and h0.body[0].value.value is True
                    flag_uses = sum(1 for n in ast.walk(fn) if isinstance(n, ast.Name) and n.id == flag)
                    no_jumps = not any(isinstance(n, (ast.Break, ast.Continue)) for n in ast.walk(nxt2))
                    if sets_flag and flag_uses == 3 and no_jumps and nxt2.body[0].orelse:
                        # the same loop in the while-True spelling (the handler leaves the loop)
                        restore = (h0, h0.body)
                        h0.body = [ast.copy_location(ast.Break(), h0.body[0])]
                        nxt = ast.copy_location(ast.While(test=ast.copy_location(ast.Constant(True), nxt2.test), body=nxt2.body, orelse=[]), nxt2)
                        consumed = 3
                    else:
                        flag = None
                if isinstance(st, ast.Assign) and len(st.targets) == 1 and isinstance(st.targets[0], ast.Name) and isinstance(nxt, ast.While) and isinstance(nxt.test, ast.Constant) and nxt.test.value is True and not nxt.orelse and nxt.body and isinstance(nxt.body[0], ast.Try):
                    it = st.targets[0].id
                    val = st.value
                    is_async = isinstance(val, ast.Call) and isinstance(val.func, ast.Attribute) and val.func.attr == "__aiter__" and not val.args
                    is_sync = isinstance(val, ast.Call) and isinstance(val.func, ast.Name) and val.func.id == "iter" and len(val.args) == 1
                    tr = nxt.body[0]
                    if (is_async or is_sync) and len(tr.body) == 1 and isinstance(tr.body[0], ast.Assign) and len(tr.handlers) == 1 and not tr.finalbody:
                        step = tr.body[0].value
                        if is_async:
                            ok_step = isinstance(step, ast.Await) and isinstance(step.value, ast.Call) and isinstance(step.value.func, ast.Attribute) and step.value.func.attr == "__anext__" and isinstance(step.value.func.value, ast.Name) and step.value.func.value.id == it
                            stop_name = "StopAsyncIteration"
                        else:
                            ok_step = isinstance(step, ast.Call) and isinstance(step.func, ast.Name) and step.func.id == "next" and len(step.args) == 1 and isinstance(step.args[0], ast.Name) and step.args[0].id == it
                            stop_name = "StopIteration"
                        h = tr.handlers[0]
                        ok_h = h.type is not None and ast.unparse(h.type).split(".")[-1] == stop_name and len(h.body) == 1 and isinstance(h.body[0], (ast.Break, ast.Return)) and (not isinstance(h.body[0], ast.Return) or not any(isinstance(b_, ast.Break) for s_ in list(tr.orelse) + nxt.body[1:] for b_ in ast.walk(s_)))
                        uses = sum(1 for n in ast.walk(fn) if isinstance(n, ast.Name) and n.id == it)
                        if ok_step and ok_h and uses == 2:
                            source = val.func.value if is_async else val.args[0]
                            loop_cls = ast.AsyncFor if is_async else ast.For
                            body = (list(tr.orelse) + nxt.body[1:]) or [ast.Pass()]  # try/else: runs after a successful step, outside the handler
                            made = [loop_cls(target=tr.body[0].targets[0], iter=source, body=body, orelse=[], lineno=nxt.lineno, col_offset=nxt.col_offset)]
                            if isinstance(h.body[0], ast.Return):
                                made.append(ast.Return(value=h.body[0].value, lineno=nxt.lineno, col_offset=nxt.col_offset))  # the handler's return runs when the iterator is exhausted (no break leaves the loop otherwise)
                if made is not None:
                    for m in made:
                        ast.copy_location(m, nxt)
                        ast.fix_missing_locations(m)
                    out.extend(made)
                    i += consumed
                    continue
                if restore is not None:
                    restore[0].body = restore[1]  # not the protocol after all: the flag loop stays as written
                out.append(st)
                i += 1
            return out

        fn.body = rewrite(fn.body)

    def visit_ClassDef(self, node):  # noqa: N802
        saved, self.in_function = self.in_function, 0
        self.generic_visit(node)
        self.in_function = saved
        return node

    def visit_If(self, node):  # noqa: N802
        """`if (n := len(x)) != (m := len(y)):` -> `n = len(x); m = len(y); if n != m:` (unconditionally evaluated walruses only)."""
        self.generic_visit(node)
        hoisted = []

        def unconditional(expr, top=True):
            # walrus targets that are evaluated whenever the test is evaluated, in evaluation order
            if isinstance(expr, ast.NamedExpr):
                unconditional(expr.value, False)
                hoisted.append(expr)
                return
            if isinstance(expr, ast.BoolOp):
                unconditional(expr.values[0], False)
                return
            if isinstance(expr, (ast.IfExp, ast.Lambda, ast.ListComp, ast.SetComp, ast.DictComp, ast.GeneratorExp)):
                if isinstance(expr, ast.IfExp):
                    unconditional(expr.test, False)
                return
            for child in ast.iter_child_nodes(expr):
                if isinstance(child, ast.expr):
                    unconditional(child, False)

        unconditional(node.test)
        if not hoisted or not self.in_function:
            return node
        ids = {id(h) for h in hoisted}

        class Repl(ast.NodeTransformer):
            def visit_NamedExpr(self, n):  # noqa: N802
                self.generic_visit(n)
                if id(n) in ids:
                    return ast.copy_location(ast.Name(n.target.id, ast.Load()), n)
                return n

        pre = []
        for h in hoisted:
            inner = Repl().visit(h.value) if not isinstance(h.value, ast.NamedExpr) else ast.copy_location(ast.Name(h.value.target.id, ast.Load()), h.value)
            st = ast.Assign([ast.Name(h.target.id, ast.Store())], inner, lineno=node.lineno, col_offset=node.col_offset)
            st.end_lineno, st.end_col_offset, st.type_comment = node.lineno, node.col_offset, None
            ast.fix_missing_locations(st)
            pre.append(st)
        node.test = Repl().visit(node.test)
        return pre + [node]

    def visit_AnnAssign(self, node):  # noqa: N802
        self.generic_visit(node)
        if self.in_function and node.value is not None:
            new = ast.Assign([node.target], node.value, lineno=node.lineno, col_offset=node.col_offset)
            new.end_lineno = getattr(node, "end_lineno", node.lineno)
            new.end_col_offset = getattr(node, "end_col_offset", 0)
            new.type_comment = None
            new._annotation = node.annotation  # type: ignore[attr-defined]
            return new
        return node


def normalise(tree: ast.AST) -> None:
    _Normalise().visit(tree)


def set_parents(tree: ast.AST) -> None:
    for parent in ast.walk(tree):
        for child in ast.iter_child_nodes(parent):
            child._parent = parent  # type: ignore[attr-defined]


def parent_of(node: ast.AST) -> Optional[ast.AST]:
    return getattr(node, "_parent", None)


def ancestors(node: ast.AST) -> Iterator[ast.AST]:
    cur = parent_of(node)
    while cur is not None:
        yield cur
        cur = parent_of(cur)


class Universe:
    """All parsed modules with their classes and functions."""

    PACKAGES = ("puresnmp", "puresnmp_plugins")

    def __init__(self, repo: str = "/repo") -> None:
        self.repo = repo
        self.modules: Dict[str, Module] = {}
        self.classes: Dict[str, ClassInfo] = {}
        self.functions: Dict[str, FuncInfo] = {}
        self.x690_digest = ""
        self.repo_digest = ""
        self._load()

    # ------------------------------------------------------------------
    def _load(self) -> None:
        src = os.path.join(self.repo, "src")
        if not os.path.isdir(src):
            raise AnalysisError(f"{src} does not exist")
        hasher = hashlib.sha256()
        for pkg in self.PACKAGES:
            base = os.path.join(src, pkg)
            if not os.path.isdir(base):
                raise AnalysisError(f"package directory {base} is missing")
            for dirpath, dirnames, filenames in sorted(os.walk(base)):
                dirnames[:] = sorted(d for d in dirnames if d != "__pycache__")
                for fname in sorted(filenames):
                    if not fname.endswith(".py"):
                        continue
                    path = os.path.join(dirpath, fname)
                    rel = os.path.relpath(path, src)
                    modname = rel[:-3].replace(os.sep, ".")
                    if modname.endswith(".__init__"):
                        modname = modname[: -len(".__init__")]
                    self._add(modname, path, hasher)
        self.repo_digest = hasher.hexdigest()
        # x690: resolved dependency, analysed from source, never imported
        spec = importlib.util.find_spec("x690")
        xh = hashlib.sha256()
        override = os.path.join(self.repo, "_x690_override")  # checker validation only: a patched copy next to src/
        if os.path.isdir(override) or (spec is not None and spec.submodule_search_locations):
            base = override if os.path.isdir(override) else list(spec.submodule_search_locations)[0]
            for fname in ("__init__.py", "types.py", "util.py", "exc.py"):
                path = os.path.join(base, fname)
                if os.path.exists(path):
                    modname = "x690" if fname == "__init__.py" else "x690." + fname[:-3]
                    self._add(modname, path, xh, external=True)
            self.x690_digest = xh.hexdigest()

    def _add(self, modname: str, path: str, hasher, external: bool = False) -> None:
        with open(path, "r", encoding="utf8") as fptr:
            source = fptr.read()
        hasher.update(path.encode())
        hasher.update(source.encode())
        try:
            tree = ast.parse(source, filename=path, type_comments=True)
        except SyntaxError as exc:
            raise AnalysisError(f"cannot parse {path}: {exc}") from exc
        normalise(tree)
        set_parents(tree)
        mod = Module(modname, path, source, tree, external)
        self.modules[modname] = mod
        self._index(mod, tree.body, None, None, "")

    def _index(
        self,
        mod: Module,
        body: List[ast.stmt],
        cls: Optional[ClassInfo],
        parent: Optional[FuncInfo],
        prefix: str,
    ) -> None:
        for stmt in body:
            if isinstance(stmt, ast.ClassDef):
                info = ClassInfo(mod, stmt.name, stmt)
                if not prefix:
                    self.classes[info.key] = info
                for sub in stmt.body:
                    if isinstance(sub, ast.Assign):
                        for tgt in sub.targets:
                            if isinstance(tgt, ast.Name):
                                info.attrs[tgt.id] = sub.value
                    elif isinstance(sub, ast.AnnAssign) and isinstance(sub.target, ast.Name):
                        info.ann[sub.target.id] = sub.annotation
                        if sub.value is not None:
                            info.attrs[sub.target.id] = sub.value
                self._index(mod, stmt.body, info, parent, prefix + stmt.name + ".")
            elif isinstance(stmt, (ast.FunctionDef, ast.AsyncFunctionDef)):
                fn = FuncInfo(mod, prefix + stmt.name, stmt, cls if parent is None or cls else None, parent)
                # a function nested in a function does not belong to the class
                if parent is not None:
                    fn.cls = None
                    parent.nested[stmt.name] = fn
                elif cls is not None:
                    cls.methods.setdefault(stmt.name, fn)
                self.functions[fn.key] = fn
                self._index_nested(mod, stmt, fn)
            elif isinstance(stmt, (ast.If, ast.Try)):
                # conditional definitions at module level (try/except imports)
                for sub in ast.iter_child_nodes(stmt):
                    if isinstance(sub, list):
                        continue
                blocks: List[List[ast.stmt]] = []
                if isinstance(stmt, ast.If):
                    blocks = [stmt.body, stmt.orelse]
                else:
                    blocks = [stmt.body, stmt.orelse, stmt.finalbody] + [h.body for h in stmt.handlers]
                for blk in blocks:
                    self._index(mod, blk, cls, parent, prefix)

    def _index_nested(self, mod: Module, fnode: ast.AST, parent: FuncInfo) -> None:
        """Find function definitions nested (at any statement depth) in *fnode*."""

        def visit(stmts: List[ast.stmt]) -> None:
            for stmt in stmts:
                if isinstance(stmt, (ast.FunctionDef, ast.AsyncFunctionDef)):
                    fn = FuncInfo(mod, parent.qualname + "." + stmt.name, stmt, None, parent)
                    parent.nested[stmt.name] = fn
                    self.functions[fn.key] = fn
                    self._index_nested(mod, stmt, fn)
                elif isinstance(stmt, ast.ClassDef):
                    continue
                else:
                    for fld in ("body", "orelse", "finalbody"):
                        sub = getattr(stmt, fld, None)
                        if isinstance(sub, list):
                            visit(sub)
                    for h in getattr(stmt, "handlers", []) or []:
                        visit(h.body)

        visit(fnode.body)  # type: ignore[attr-defined]

    # ------------------------------------------------------------------
    def module(self, name: str) -> Module:
        try:
            return self.modules[name]
        except KeyError:
            raise AnalysisError(f"module {name} not found in the analysed universe")

    def canonical(self, key: str) -> str:
        """The key under which a function / class documented as *key* lives today (it may have moved to another module)."""
        if key in self.functions or key in self.classes:
            return key
        if ":" not in key:
            return key
        modname, qual = key.split(":", 1)
        external = modname.startswith("x690")
        cands = [k for k, f in self.functions.items() if k.split(":", 1)[1] == qual and f.module.external == external]
        cands += [k for k, c in self.classes.items() if k.split(":", 1)[1] == qual and c.module.external == external]
        if len(cands) == 1:
            return cands[0]
        return key

    def func(self, key: str) -> FuncInfo:
        key = self.canonical(key)
        try:
            return self.functions[key]
        except KeyError:
            raise AnalysisError(f"function {key} not found (anchor vanished)")

    def maybe_func(self, key: str) -> Optional[FuncInfo]:
        return self.functions.get(self.canonical(key))

    def cls(self, key: str) -> ClassInfo:
        key = self.canonical(key)
        try:
            return self.classes[key]
        except KeyError:
            raise AnalysisError(f"class {key} not found (anchor vanished)")

    def repo_modules(self) -> List[Module]:
        return [m for m in self.modules.values() if not m.external]

    def stats(self) -> Dict[str, int]:
        repo_mods = self.repo_modules()
        return {
            "modules": len(repo_mods),
            "x690_modules": len(self.modules) - len(repo_mods),
            "classes": len(self.classes),
            "functions": len(self.functions),
            "call_sites": sum(
                1
                for m in self.modules.values()
                for n in ast.walk(m.tree)
                if isinstance(n, ast.Call)
            ),
        }

    def enclosing_function(self, mod: Module, node: ast.AST) -> Optional[FuncInfo]:
        for anc in ancestors(node):
            if isinstance(anc, (ast.FunctionDef, ast.AsyncFunctionDef)):
                for fn in self.functions.values():
                    if fn.node is anc:
                        return fn
        return None


def own_nodes(fnode: ast.AST) -> Iterator[ast.AST]:
    """Walk *fnode*'s body without descending into nested defs / lambdas' own bodies."""
    stack = list(ast.iter_child_nodes(fnode))
    while stack:
        node = stack.pop()
        yield node
        if isinstance(node, (ast.FunctionDef, ast.AsyncFunctionDef, ast.ClassDef, ast.Lambda)):
            continue
        stack.extend(ast.iter_child_nodes(node))


def docstring_free_body(fnode: ast.AST) -> List[ast.stmt]:
    body = list(fnode.body)  # type: ignore[attr-defined]
    if body and isinstance(body[0], ast.Expr) and isinstance(getattr(body[0], "value", None), ast.Constant) and isinstance(body[0].value.value, str):
        return body[1:]
    return body
