"""Per-property manifest entries (consumed by /verif/tools_gen_manifest.py)."""

NOTES = (
    "Static analysis only. Every check parses /repo's working tree (and the installed x690 source) on every run, "
    "imports and executes nothing from it, and decides structural necessary conditions of the property (DESIGN.md). "
    "Known findings: /verif/known_findings.json. Checker validation corpus: sa/selftest (not part of any verdict)."
)

CHECKS = {
    "C07": {
        "category": "proof",
        "text": "All five structural clauses that make up the mechanism (one clock read per request, unavoidable exact id validation in every function that talks to the network, community/version refusal, discovery id check) are decided on every path of the functions involved; acceptance for every clock schedule follows because the id placed in the PDU and the id validated are one value.",
        "note": "Trusted: CPython ast, the analyser, callee resolution (over-approximated by name where a receiver type is unknown), RFC version constants. Assumes the decoded response's request_id is the id on the wire (C06) and that asyncio/x690 behave as documented. Not decided: nothing of substance for this property.",
        "technique": "value numbering + CFG must-pass-through + branch simulation over orderings (static)",
    },
}

_PENDING = "check not built yet in this revision of /verif (DESIGN.md section 5 describes the planned static rules)"
NOT_APPLICABLE = {f"C{n:02d}": _PENDING for n in range(1, 21) if f"C{n:02d}" not in CHECKS}
