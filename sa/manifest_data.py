"""Per-property manifest entries (consumed by /verif/tools_gen_manifest.py)."""

NOTES = (
    "Static analysis only. Every check parses /repo's working tree (and the installed x690 source) on every run, "
    "imports and executes nothing from it, and decides structural necessary conditions of the property (DESIGN.md). "
    "Known findings: /verif/known_findings.json. Checker validation corpus: sa/selftest (not part of any verdict)."
)

CHECKS = {
    "C01": {
        "text": "Eight structural necessary conditions of walk exactness are decided on the walk loop, the regrouping helpers, the filter generator and both fetchers (all located by role): containment and seen-set guards on every path to the only yield, delivery of every batch, renewal of the loop variable, stride/offset/key agreement of the positional regrouping, provable ascending order of every request given to a truncating fetcher, continue-from-last / stop-on-leaving-root, marker cut-off and order preservation.",
        "note": "Trusted: ast, the analyser, x690 ObjectIdentifier containment/order semantics. Assumes a conformant agent and pairwise disjoint roots. Not decided: set equality of the yielded instances with an arbitrary agent database as a whole.",
        "technique": "guard facts on all CFG paths + reaching definitions + must-pass-through + symbolic stride/offset agreement + abstract evaluation of small pure functions over enumerated finite / boundary domains with symbolic values (engine/minieval.py; nothing is imported or run) (static)",
    },
    "C02": {
        "text": "The bulk walk shares the GETNEXT walk's loop (delegation decided); in addition a container-kind analysis shows that every fetcher returns a faithful prefix of the response bindings (no OID-keyed container that collapses duplicates), the GETBULK size bound is decided against the RFC 3416 formula by simulating the operation's CFG on an integer grid, and request counters / response split / bulk size agree. Added later: the composition fetcher -> regroup -> unfinished is evaluated on GETBULK responses shortened below a whole number of rows (RFC 3416 4.2.3); the current tree drops the roots whose column came back empty - recorded as known finding D17.",
        "note": "Trusted: ast, the analyser, RFC 3416 4.2.3 bound. Relies on C01's rules for the shared loop. Not decided: agreement of both walks on every database and agent truncation policy as a whole.",
        "technique": "container-kind (multiplicity) dataflow + CFG simulation on an integer grid against the RFC formula + abstract evaluation of small pure functions over enumerated finite / boundary domains with symbolic values (engine/minieval.py; fetcher / operation contracts in rules/fetcheval.py) (static)",
    },
    "C03": {
        "text": "Every function that can be the walk's fetcher is shown to compare each returned OID with its predecessor position by position, strictly (three orderings), before returning; every fetch in the loop is covered by a handler that ends the walk normally in lenient mode and re-raises otherwise; the loop variable is renewed on every path. Termination and no-re-request follow from these premises (argument recorded in the evidence). The continuation step itself is evaluated (a root is continued only while its last answer lies inside it by arcs, from that answer; shared with C01-R6), so a walk never continues a finished root from an OID another root already continued from.",
        "note": "Trusted: ast, the analyser, x690 OID ordering, finiteness of the OID universe the agent reveals. Not decided: the numeric request bound.",
        "technique": "ordering evaluation of guards + index-arithmetic evaluation of pairing + handler coverage simulation + abstract evaluation of small pure functions over enumerated finite / boundary domains with symbolic values (engine/minieval.py; nothing is imported or run) (static)",
    },
    "C04": {
        "text": "Request construction (PDU class, one binding per OID in caller order, NULL / typed SET value after refusal), count checks decided on the fewer/equal/more orderings by CFG simulation, faithful positional extraction, established length before constant subscripts, and typed missing-object detection are decided for get/getnext/set and their multi variants. One genuine defect is recorded as known finding (public multigetnext truncation). Types of the package created without arguments (how x690 creates every decoded value) must keep the lazy-decoding sentinel (evaluated constructor, shared with C17-R7); bulkget must leave the caller's OID lists as they were (evaluated, in-place operators modelled).",
        "note": "Trusted: ast, the analyser. GETBULK bound is C02-R2, ids C07, error-status C08. Not decided: equality of returned values with the agent database.",
        "technique": "CFG simulation over count orderings + container-kind dataflow + callee length summaries + kind typing of isinstance operands + abstract evaluation of small pure functions over enumerated finite / boundary domains with symbolic values (engine/minieval.py; fetcher / operation contracts in rules/fetcheval.py) (static)",
    },
    "C05": {
        "text": "The shape (kinds, order, arity, provenance of every leaf) of every encoder reachable from the sender seam - PDU body, GETBULK framing, community wrapper, SNMPv3 message / header / flags / scoped PDU / USM parameters - is extracted from the source and compared with tables transcribed from RFC 1157/1901/3416/3412/3414; the flag octet is evaluated for all 8 combinations. The digest key is the one localised for this engine (shared with C10-R5); the pythonic wrapper hands the caller's OIDs on one-to-one (shared with C04-R9).",
        "note": "Trusted: ast, the analyser, the RFC tables. Not decided: x690's primitive encodings (integers, OIDs with large sub-identifiers, lengths) over their full ranges - numeric, delegated to x690.",
        "technique": "BER shape extraction with provenance + RFC table comparison + constant folding + abstract evaluation of small pure functions over enumerated finite / boundary domains with symbolic values (engine/minieval.py; nothing is imported or run) (static)",
    },
    "C06": {
        "text": "Registration table of all SNMP types (class / tag / nature / signedness through the MRO, registry key collisions), unconditional import chain that triggers registration, and index/mask -> field maps of every decoder compared with the sibling encoder and the RFC tables (shape-level round trip). The SNMPv3 encoders must emit every field as stored in the layout the decoders read (shared with C05-R4), so decode followed by encode reproduces the message.",
        "note": "Trusted: ast, the analyser, RFC tables. Not decided: value-level decoding over full ranges and all definite length forms (arithmetic inside x690).",
        "technique": "class-table evaluation + decoder index-map extraction + sibling encoder/decoder agreement + abstract evaluation of small pure functions over enumerated finite / boundary domains with symbolic values (engine/minieval.py; nothing is imported or run) (static)",
    },
    "C07": {
        "category": "proof",
        "text": "All five structural clauses that make up the mechanism (one clock read per request, unavoidable exact id validation in every function that talks to the network, community/version refusal, discovery id check) are decided on every path of the functions involved; acceptance for every clock schedule follows because the id placed in the PDU and the id validated are one value.",
        "note": "Trusted: CPython ast, the analyser, callee resolution (over-approximated by name where a receiver type is unknown), RFC version constants. Assumes the decoded response's request_id is the id on the wire (C06) and that asyncio/x690 behave as documented. Not decided: nothing of substance for this property.",
        "technique": "value numbering + CFG must-pass-through + branch simulation over orderings (static)",
    },
    "C08": {
        "text": "Decides on all paths of PDU.decode_raw (simulated for negative, defined and undefined status values, every error-index region and list length) that a non-zero error-status raises ErrorResponse.construct(status, oid) and never returns; the status table, the index range check and the index mapping are decided exactly; handlers between decode and API are enumerated.",
        "note": "Trusted: ast, the analyser, the RFC 3416 status table. Not decided: nothing of substance (the x690 integer decoding of the three header fields is assumed, see C06).",
        "technique": "CFG path simulation under concrete field scenarios + class-table evaluation + guard grid for tainted subscripts + abstract evaluation of small pure functions over enumerated finite / boundary domains with symbolic values (engine/minieval.py; nothing is imported or run) (static)",
    },
    "C09": {
        "text": "Path-sensitive must-authenticate analysis: under the assumption atom 'credentials carry an auth key', every function on the way from the v3 decode entry to the auth plug-in raises on every path on which the digest check did not return truthy, including paths that never reach it (cleared flag); exactness of the digest comparison, placeholder/truncation constants and argument provenance are decided. Nothing in process_incoming_message may evaluate the lazily decoded PDU on a path that has not passed the verifier call.",
        "note": "Trusted: ast, the analyser, resolution of the auth plug-in factory, RFC 3414 constants. Not decided: cryptographic strength of HMAC-96; per-bit corruption coverage follows from the decided clauses plus HMAC and is not re-proved.",
        "technique": "inter-procedural must-pass-through with three-valued path simulation under assumption atoms (static)",
    },
    "C10": {
        "text": "Flag computation evaluated over the PDU class table against RFC 3411's confirmed class, provenance of every USM parameter from discovery / timing cache / credentials, encrypt-then-authenticate ordering and digest splice, auth plug-in table, RFC 3414 A.2 key-derivation constants (repetition factor evaluated for every password length 1..300), and canonical re-serialisation for the incoming digest: x690's length encoder is executed over its CFG at every length-form boundary. One genuine defect (length 127) is recorded as known finding. The engine time fed to the USM is discovered + locally elapsed and discovery data come from the reply's security parameters (shared with C12-R3 / R7); the HMAC obligations of C09-R3 (localised key, message bytes, plug-in's digest method, 12 octets) and the encoder layout (C06-R8) are adopted.",
        "note": "Trusted: ast, the analyser, RFC 3411/3412/3414 tables. Not decided: hash arithmetic; every total message length numerically beyond the length-form boundaries.",
        "technique": "class-table evaluation + argument provenance + integer-state CFG execution of the length encoder + constant folding (static)",
    },
    "C11": {
        "text": "With privacy credentials every path of the encryption step returns OctetString(ciphertext) with the plug-in's salt, the plaintext is read exactly once (as the data argument), failures raise; encrypt/decrypt arguments are bound by Protocol position to the localised key, engine id, boots, time, (message-borne) salt and data; the privacy key is the privacy password localised with the authentication hash.",
        "note": "Trusted: ast, the analyser, the TPriv Protocol, RFC 3414. Not decided: properties of concrete ciphers; incoming flag / payload-type disagreement (ends in an exception, argued in DESIGN.md).",
        "technique": "path simulation under credential atoms + argument-by-position provenance (static)",
    },
    "C12": {
        "text": "Dominance of discovery over every read of the discovery cache, provenance of security and default context engine id, dependence of the engine time sent on a local clock read relative to the discovery moment (path-sensitive reaching definitions), usmStats report table, discovery id check. The absence of any re-synchronisation path after an agent reboot is a genuine defect recorded as known finding. Added later: the direction of the engine-time estimate (discovered time plus elapsed seconds, evaluated), the usmStats table and its restriction to Report PDUs decided by evaluation, and the provenance of the discovery data (engine id, boots, time read from the reply's security parameters).",
        "note": "Trusted: ast, the analyser, RFC 3414. Not decided: drift arithmetic between local and agent clock.",
        "technique": "dominance over the CFG + path-sensitive reaching definitions + who-may-write the discovery cache (static)",
    },
    "C13": {
        "text": "Release-on-all-exits of the per-attempt transport for every completion kind of the future (who-may-complete is closed), the retry loop executed over its CFG with a concrete counter for retries 1..4 and every reply/timeout pattern, and value-number identity of datagram, timeout and reply bytes.",
        "note": "Trusted: ast, the analyser, asyncio's documented contract (close/abort release the socket; connection_lost follows a closed transport). Not decided: real elapsed time, kernel behaviour, cancellation.",
        "technique": "typestate (acquire/release) over CFG + integer-state CFG execution + value numbering (static)",
    },
    "C14": {
        "text": "Effect analysis over every function of the package: each store, item store, mutating call and global/nonlocal write is classified by owner (local object, caller's object, client / MPM / security model / module / closure); every shared store must be one of 19 frozen, individually justified, operation-independent instances; lazy construction is test-and-store without an await; the timing cache is written and read without an await in between; one endpoint, protocol object and future per exchange. A positive fixture must be flagged on every run. A memoising decorator on a coroutine function / generator, or on a factory that hands out an object with state (a plug-in instance), is a violation.",
        "note": "Trusted: ast, the analyser, asyncio's cooperative scheduling. Not decided: the asyncio scheduler itself; equality of the concurrent result with the solo result as a value (follows from non-interference).",
        "technique": "ownership / effect analysis with a frozen allow-list of shared locations + await-freedom between check and act (static)",
    },
    "C15": {
        "text": "An abstract interpreter over result kinds (raw kinds taken from the raw client's return annotations) decides for every public wrapper method that nothing returned or yielded contains an x690 value, ObjectIdentifier or VarBind - dictionary keys included; conversions are shown to be element-wise, unfiltered and order preserving; every SNMP value type wraps a builtin.",
        "note": "Trusted: ast, the analyser, the raw client's return annotations (cross-checked against its code by C01-C04/C16). BulkResult is accepted as documented container. Not decided: equality of values (follows from element-wise pythonize of the same raw result).",
        "technique": "abstract interpretation over a kind lattice (provenance of result leaves) + abstract evaluation of small pure functions over enumerated finite / boundary domains with symbolic values (engine/minieval.py; fetcher / operation contracts in rules/fetcheval.py) (static)",
    },
    "C16": {
        "text": "Offset agreement of the two table variants (len(oid) vs len(oid)+1, evaluated symbolically), a symbolic slice algebra showing column = arc[base] and row index = all remaining arcs (complete multi-component index, stored under '0'), get-or-create row accumulation, and complete in-order consumption of the single-root walk. A usmStats report arriving instead of a table row raises (shared with C12-R4); it cannot end the fetch like an OID outside the table.",
        "note": "Trusted: ast, the analyser. Assumes the walks deliver exactly the subtree (C01/C02). Not decided: equality with an arbitrary agent table as a whole (follows from the decided clauses plus C01/C02).",
        "technique": "linear normaliser + symbolic slice algebra + syntactic get-or-create idiom check + abstract evaluation of small pure functions over enumerated finite / boundary domains with symbolic values (engine/minieval.py; nothing is imported or run) (static)",
    },
    "C17": {
        "text": "Counter32/Counter64 constructors executed over their CFG with a concrete integer at and around every region boundary, mask/threshold constants folded; numeric-kind inference forbids truncating an inexact float in the tick conversion and fixes the scale at 100 in both directions; IPv4 width and byte order; unsigned decode resolved through the MRO. Every x690 subclass of the package with an all-default constructor is evaluated without arguments: the base constructor must receive the lazy-decoding sentinel (a plain default would replace every value received from an agent).",
        "note": "Trusted: ast, the analyser, RFC 2578 table. Boundary evaluation is exact for the piecewise mask/compare expressions used (regions are delimited by the folded constants). Not decided: x690's integer codec over full ranges; encode/decode round trip of each value.",
        "technique": "integer-state CFG execution at region boundaries + numeric-kind inference + constant folding + abstract evaluation of small pure functions over enumerated finite / boundary domains with symbolic values (engine/minieval.py; nothing is imported or run) (static)",
    },
    "C18": {
        "category": "proof",
        "text": "Save/restore pairing (W subset of restored, each from a local saved before the try, finally covers the yield), atomic configure (validation dominates all stores; no call after a store), settings read at send time, and family switch from the new credentials are all decided; exact restoration at any nesting depth follows by induction on depth. The retries value in force is honoured exactly by the UDP sender (shared with C13-R2).",
        "note": "Trusted: ast, the analyser, contextlib.contextmanager semantics, frozen dataclass immutability (checked). Not decided: nothing of substance.",
        "technique": "effect analysis over the call graph + dominance (must-pass-through) + syntactic provenance of arguments (static)",
    },
    "C19": {
        "text": "Kind evaluation of the trap decode closure against the SNMP message schema (every subscript / unpack / attribute must be valid for its kind; MPM selected by the version integer), dominance of the source assignment and of the decode over the single callback scheduling, an unconditional forwarding receiver that never closes its transport, and the community check on every path of the community MPM decode. Added later: the lazily decoded PDU is evaluated and its class checked (Trap / InformRequest) on every path before the callback is scheduled (genuine defect D19, repaired).",
        "note": "Trusted: ast, the analyser, RFC message schema. Not decided: UDP delivery, asyncio's handling of a raising callback/datagram handler, notification contents beyond binding positions.",
        "technique": "schema-kind evaluation + dominance (must-pass-through) + who-may-close (static)",
    },
    "C20": {
        "text": "Every while loop of the resolved program (x690 included) is classified by a progress idiom; the TLV walker's cursor advance is derived by a relative lower-bound analysis of x690's get_value_slice / decode_length on every path; taint from decoded values to range()/repetition/allocation sinks (zero expected, positive fixture); decode paths write no shared state; no eager recursion on the decode path. One genuine defect (indefinite-length branch of x690) is recorded as known finding. Added later: decoded USM security parameters are refused unless every member has its ASN.1 type (evaluated on wrongly typed / short / long sequences; genuine defect D18, repaired); the socket of an exchange is closed for every reply (adopted from C13); no response keeps a walk asking for the same OIDs for ever (adopted from C03). Locks are held through `with` or acquire() + try / finally release(), so no datagram content can leave one locked.",
        "note": "Trusted: ast, the analyser, CPython facts (len >= 0, unsigned from_bytes >= 0, find >= -1). Not decided: time and memory as a concrete multiple of the datagram size.",
        "technique": "relative lower-bound abstract interpretation + loop progress-idiom classification + taint + effect analysis + abstract evaluation of small pure functions over enumerated finite / boundary domains with symbolic values (engine/minieval.py; fetcher / operation contracts in rules/fetcheval.py) (static)",
    },
}

_PENDING = "check not built yet in this revision of /verif (DESIGN.md section 5 describes the planned static rules)"
NOT_APPLICABLE = {f"C{n:02d}": _PENDING for n in range(1, 21) if f"C{n:02d}" not in CHECKS}
