"""
Oracle tables transcribed from the RFCs - data, not code from the repository.

RFC 1157 / 1901 / 3416 (message and PDU layouts, PDU tags, error-status),
RFC 2578 (application types, exception markers), RFC 3411 (confirmed class),
RFC 3412 (SNMPv3Message, HeaderData, msgFlags), RFC 3414 (USM parameters,
usmStats OIDs, HMAC-96, key localisation).
"""

# security-model plug-in IDENTIFIER (RFC 3411 securityModel: 1 = SNMPv1, 2 = SNMPv2c)
#   -> "version" INTEGER carried by the community message (RFC 1157: 0, RFC 1901: 1)
COMMUNITY_VERSION_BY_SECMODEL = {1: 0, 2: 1}

# message-processing model IDENTIFIER (RFC 3411 msgProcessingModel) -> version field
VERSION_BY_MPM = {0: 0, 1: 1, 3: 3}

# RFC 3416 section 3: PDU tags, context class, constructed
PDU_TAGS = {
    "GetRequest": 0,
    "GetNextRequest": 1,
    "GetResponse": 2,  # Response-PDU
    "SetRequest": 3,
    "BulkGetRequest": 5,  # GetBulkRequest-PDU
    "InformRequest": 6,
    "Trap": 7,  # SNMPv2-Trap-PDU
    "Report": 8,
}

# RFC 3411 section 2.8: confirmed class PDUs
CONFIRMED_CLASS = {"GetRequest", "GetNextRequest", "BulkGetRequest", "SetRequest", "InformRequest"}
# PDU classes that must never be flagged reportable by a command generator
UNCONFIRMED_CLASS = {"GetResponse", "Trap", "Report"}

# RFC 3416 section 3: error-status
ERROR_STATUS = {
    1: "tooBig",
    2: "noSuchName",
    3: "badValue",
    4: "readOnly",
    5: "genErr",
    6: "noAccess",
    7: "wrongType",
    8: "wrongLength",
    9: "wrongEncoding",
    10: "wrongValue",
    11: "noCreation",
    12: "inconsistentValue",
    13: "resourceUnavailable",
    14: "commitFailed",
    15: "undoFailed",
    16: "authorizationError",
    17: "notWritable",
    18: "inconsistentName",
}
# documented exception class per status in puresnmp's public API (docs/exc)
ERROR_CLASS_BY_STATUS = {
    1: "TooBig",
    2: "NoSuchOID",
    3: "BadValue",
    4: "ReadOnly",
    5: "GenErr",
    6: "NoAccess",
    7: "WrongType",
    8: "WrongLength",
    9: "WrongEncoding",
    10: "WrongValue",
    11: "NoCreation",
    12: "InconsistentValue",
    13: "ResourceUnavailable",
    14: "CommitFailed",
    15: "UndoFailed",
    16: "AuthorizationError",
    17: "NotWritable",
    18: "InconsistentName",
}

# RFC 2578 section 7.1 application types: tag -> (kind, unsigned?, bits)
APPLICATION_TYPES = {
    0: ("IpAddress", "octets4", None),
    1: ("Counter32", "unsigned", 32),
    2: ("Gauge32", "unsigned", 32),
    3: ("TimeTicks", "unsigned", 32),
    4: ("Opaque", "octets", None),
    6: ("Counter64", "unsigned", 64),
}
# RFC 3416: exception markers, context class, primitive
EXCEPTION_MARKERS = {"NoSuchObject": 0, "NoSuchInstance": 1, "EndOfMibView": 2}

# RFC 3412 section 6: msgFlags bits
MSGFLAG_AUTH = 0x01
MSGFLAG_PRIV = 0x02
MSGFLAG_REPORTABLE = 0x04

# RFC 3412 HeaderData ::= SEQUENCE { msgID, msgMaxSize, msgFlags, msgSecurityModel }
HEADER_FIELDS = ["message_id", "message_max_size", "flags", "security_model"]
# RFC 3412 ScopedPDU ::= SEQUENCE { contextEngineID, contextName, data }
SCOPED_PDU_FIELDS = ["context_engine_id", "context_name", "data"]
# RFC 3414 UsmSecurityParameters
USM_FIELDS = [
    ("authoritative_engine_id", "OctetString"),
    ("authoritative_engine_boots", "Integer"),
    ("authoritative_engine_time", "Integer"),
    ("user_name", "OctetString"),
    ("auth_params", "OctetString"),
    ("priv_params", "OctetString"),
]
USM_SECURITY_MODEL = 3
SNMPV3_VERSION = 3

# RFC 3414 section 1.4 / usmStats
USM_STATS = {
    "1.3.6.1.6.3.15.1.1.1.0": "usmStatsUnsupportedSecLevels",
    "1.3.6.1.6.3.15.1.1.2.0": "usmStatsNotInTimeWindows",
    "1.3.6.1.6.3.15.1.1.3.0": "usmStatsUnknownUserNames",
    "1.3.6.1.6.3.15.1.1.4.0": "usmStatsUnknownEngineIDs",
    "1.3.6.1.6.3.15.1.1.5.0": "usmStatsWrongDigests",
    "1.3.6.1.6.3.15.1.1.6.0": "usmStatsDecryptionErrors",
}

# RFC 3414 sections 6 and 7: HMAC-MD5-96 / HMAC-SHA-96
AUTH_PROTOCOLS = {
    "md5": {"hash": "md5", "digest_len": 16, "hmac": "md5", "mac_len": 12},
    "sha1": {"hash": "sha1", "digest_len": 20, "hmac": "sha1", "mac_len": 12},
}
# RFC 3414 A.2: password expanded to 1 MiB
KEY_EXPANSION_LEN = 1048576
DIGEST_PLACEHOLDER_LEN = 12
TIME_WINDOW = 150
