"""
E7 - BER shape extraction for the encoders and decoders of the repository.

An encoder is reduced to a list of *items*: (x690 kind, provenance) pairs read
off the ``Sequence([...])`` / ``b"".join([bytes(c) for c in [...]])`` it builds;
a decoder to a map  field <- index  read off the subscripts of the decoded
sequence that reach each constructor argument.  Casts are ignored.
"""
from __future__ import annotations

import ast
from typing import Any, Dict, List, Optional, Tuple

from ..engine.context import Ctx, bind_call_args, dataclass_fields
from ..engine.exprs import Defs, norm, strip_casts
from ..engine.universe import AnalysisError, ClassInfo, FuncInfo, own_nodes

Item = Tuple[str, str]  # (kind, provenance text)


def x690_kind(ctx: Ctx, fn: FuncInfo, call: ast.Call) -> Optional[str]:
    cls = ctx.r.resolve_class(fn.module, call.func)
    if cls is not None and cls.module.name == "x690.types":
        return cls.name
    return None


def describe_item(ctx: Ctx, fn: FuncInfo, expr: ast.AST, owner: Optional[ClassInfo] = None) -> Item:
    """(kind, provenance) of one element handed to a Sequence / join."""
    defs = ctx.defs(fn)
    expr = strip_casts(expr)
    if isinstance(expr, ast.Name):
        val = defs.single(expr.id)
        if val is not None:
            return describe_item(ctx, fn, val, owner)
        # parameter: use its annotation
        ann = ctx.r._param_annotation(fn, expr.id)  # pylint: disable=protected-access
        cls = ctx.r.resolve_class(fn.module, ann) if ann is not None else None
        return (cls.name if cls else "param", expr.id)
    if isinstance(expr, ast.Call):
        kind = x690_kind(ctx, fn, expr)
        if kind in ("Integer", "OctetString", "ObjectIdentifier"):
            arg = expr.args[0] if expr.args else None
            return (kind, prov(ctx, fn, arg) if arg is not None else "<empty>")
        if kind == "Null":
            return ("Null", "")
        if kind == "Sequence" and expr.args:
            inner = sequence_items(ctx, fn, expr, owner)
            return ("Sequence", "[" + ", ".join(f"{k}<-{p}" for k, p in inner) + "]")
        # method returning a Sequence: self.header.as_snmp_type()
        if isinstance(expr.func, ast.Attribute):
            for callee in ctx.r.callees(fn, expr):
                if isinstance(callee, FuncInfo) and callee.cls is not None:
                    return (f"{callee.cls.name}.{callee.name}()", prov(ctx, fn, expr.func.value))
        return ("call", norm(expr)[:60])
    if isinstance(expr, ast.Attribute):
        # typed dataclass field of self
        chain = norm(expr)
        if owner is not None and isinstance(expr.value, ast.Name) and expr.value.id == "self" and expr.attr in owner.ann:
            cls = ctx.r.resolve_class(owner.module, owner.ann[expr.attr])
            return (cls.name if cls else norm(owner.ann[expr.attr]), f"self.{expr.attr}")
        return ("attr", chain)
    return ("expr", norm(expr)[:60])


def prov(ctx: Ctx, fn: FuncInfo, expr: Optional[ast.AST]) -> str:
    """Where a value comes from: locals and guard helpers inlined, named integer constants folded."""
    if expr is None:
        return ""
    exp = ctx.xexpand(fn, strip_casts(expr), depth=2)
    if isinstance(exp, (ast.Name, ast.Attribute)):
        try:
            val = ctx.r.const(fn.module, exp, fn.cls)
            if isinstance(val, int) and not isinstance(val, bool):
                return str(val)
        except Exception:  # pylint: disable=broad-except
            pass
    return norm(exp)


def sequence_items(ctx: Ctx, fn: FuncInfo, call: ast.Call, owner: Optional[ClassInfo] = None) -> List[Item]:
    """Items of ``Sequence([...])`` (list literal, possibly through a local)."""
    defs = ctx.defs(fn)
    arg = strip_casts(call.args[0]) if call.args else None
    if isinstance(arg, ast.Name):
        arg = defs.single(arg.id) or arg
    if isinstance(arg, ast.Call):
        inl = ctx.xexpand(fn, arg, depth=1, stop=[n.id for n in ast.walk(arg) if isinstance(n, ast.Name)])
        if isinstance(inl, (ast.ListComp, ast.List, ast.Tuple)):
            arg = inl
    if isinstance(arg, ast.BinOp) and isinstance(arg.op, ast.Add):
        # [a, b] + [c]: concatenation of list displays (possibly through locals)
        parts = []
        for side in (arg.left, arg.right):
            side = strip_casts(side)
            if isinstance(side, ast.Name):
                side = defs.single(side.id) or side
            if not isinstance(side, (ast.List, ast.Tuple)):
                parts = None
                break
            parts += list(side.elts)
        if parts is not None:
            return [describe_item(ctx, fn, e, owner) for e in parts]
    if isinstance(arg, (ast.List, ast.Tuple)):
        return [describe_item(ctx, fn, e, owner) for e in arg.elts]
    if isinstance(arg, ast.ListComp) and len(arg.generators) == 1 and not arg.generators[0].ifs:
        gen = arg.generators[0]
        elt = arg.elt
        inner = "?"
        if isinstance(elt, ast.Call) and x690_kind(ctx, fn, elt) == "Sequence" and elt.args and isinstance(elt.args[0], (ast.List, ast.Tuple)):
            inner = "Sequence[" + ", ".join(norm(e) for e in elt.args[0].elts) + "]"
        else:
            inner = norm(elt)
        return [("SequenceOf", f"{inner} for {norm(gen.target)} in {prov(ctx, fn, gen.iter)}")]
    return [("unknown", norm(arg) if arg is not None else "")]


def returned_sequence(ctx: Ctx, fn: FuncInfo, owner: Optional[ClassInfo] = None) -> Optional[List[Item]]:
    """Items of the Sequence a function returns (directly or through bytes(...))."""
    defs = ctx.defs(fn)
    rets = [n for n in own_nodes(fn.node) if isinstance(n, ast.Return) and n.value is not None]
    if len(rets) != 1:
        return None
    val = defs.expand(rets[0].value, depth=2)
    val = strip_casts(val)
    if isinstance(val, ast.Call) and isinstance(val.func, ast.Name) and val.func.id == "bytes" and val.args:
        val = strip_casts(val.args[0])
    if isinstance(val, ast.Call) and x690_kind(ctx, fn, val) == "Sequence":
        # re-resolve against the original function (expansion keeps names)
        return sequence_items(ctx, fn, val, owner)
    return None


def joined_items(ctx: Ctx, fn: FuncInfo, expr: ast.AST, owner: Optional[ClassInfo] = None) -> Optional[List[Item]]:
    """Items of  b"".join([bytes(chunk) for chunk in <list>])  (also through a local or an extracted helper)."""
    defs = ctx.defs(fn)
    expr = strip_casts(expr)
    if isinstance(expr, ast.Name):
        expr = defs.single(expr.id) or expr
    if isinstance(expr, ast.Call) and not (isinstance(expr.func, ast.Attribute) and expr.func.attr == "join"):
        # helper call: inline it (arguments stay as written so that list locals are still resolvable)
        inl = ctx.xexpand(fn, expr, depth=1, stop=[n.id for n in ast.walk(expr) if isinstance(n, ast.Name)])
        if isinstance(inl, ast.Call) and isinstance(inl.func, ast.Attribute) and inl.func.attr == "join":
            expr = inl
    if not (isinstance(expr, ast.Call) and isinstance(expr.func, ast.Attribute) and expr.func.attr == "join" and isinstance(expr.func.value, ast.Constant) and expr.func.value.value == b"" and len(expr.args) == 1):
        return None
    comp = expr.args[0]
    if not (isinstance(comp, (ast.ListComp, ast.GeneratorExp)) and len(comp.generators) == 1 and not comp.generators[0].ifs):
        return None
    gen = comp.generators[0]
    if norm(comp.elt) != f"bytes({norm(gen.target)})":
        return None
    src = gen.iter
    if isinstance(src, ast.Name):
        src = defs.single(src.id) or src
    if isinstance(src, (ast.List, ast.Tuple)):
        return [describe_item(ctx, fn, e, owner) for e in src.elts]
    return None


def index_map(ctx: Ctx, fn: FuncInfo, ctor: ast.Call, fields: List[str], seq_names: List[str]) -> Dict[str, str]:
    """
    For a constructor call: field -> access path on the decoded sequence, e.g.
    {'message_id': 'header[0]', 'flags': 'V3Flags.decode(header[2])'} with the
    sequence variables themselves expanded (header -> seq[1]).
    """
    defs = ctx.defs(fn)
    bound = bind_call_args(ctor, fields, skip_self=False)
    out: Dict[str, str] = {}
    for fld in fields:
        arg = bound.get(fld)
        if arg is None:
            continue
        exp = defs.expand(arg)
        out[fld] = norm(strip_all_casts(exp))
    return out


def strip_all_casts(expr: ast.AST) -> ast.AST:
    class T(ast.NodeTransformer):
        def visit_Call(self, node: ast.Call) -> ast.AST:  # noqa: N802
            self.generic_visit(node)
            if isinstance(node.func, ast.Name) and node.func.id == "cast" and len(node.args) == 2:
                return node.args[1]
            return node

    from ..engine.exprs import clone

    return T().visit(clone(expr))
