"""
C01 - walk exactness: every instance below each root exactly once, nothing else.

Structural necessary conditions decided on the walk loop, the regrouping
helpers, the filter generator and the fetchers (all found by role):

R1  containment guard: the only yield of the filter generator is reached under
    any(v.oid in r for r in ROOTS); ROOTS is bound at every call site to the
    walk's own root list (never the per-round continuation list).
R2  exactly once: the yield is reached only under v.oid not in SEEN and
    SEEN.add(v.oid) runs for every yielded value; SEEN is one object, created
    once outside the continuation loop.
R3  every batch is delivered and the loop continues while anything is
    unfinished: each fetch result flows through regrouping into a loop that
    yields every filtered value; the continuation is a `while` over the
    unfinished list which is recomputed from the newest batch on every path to
    the back edge; the next request is built from it.
R4  positional regrouping is self-consistent: stride == len(R) for the same R
    whose element i keys slice i; the remap to user roots tests containment of
    the effective root in the user root and refuses multiple containers.
R5  sortedness before a truncating fetch: every OID list handed to a fetcher that
    leaves its output loop at endOfMibView is provably ascending.
R6  continue from the last, stop on leaving the root.
R7  endOfMibView markers never become instances.
R8  order within a root is kept between fetch and yield.
"""
from __future__ import annotations

import ast
from typing import Any, Dict, List, Optional, Set, Tuple

from ..engine.context import Ctx, bind_call_args, dataclass_fields
from ..engine.exprs import atom, facts_on_all_paths, implied, norm, strip_casts
from ..engine.patterns import cfg_node_of, enclosing_tries_of, stmt_of
from ..engine.report import Report
from ..engine.universe import AnalysisError, ClassInfo, FuncInfo, ancestors, own_nodes
from .walkmodel import WalkModel, assigned_value, reaching_defs

ORDER_PRESERVING = ("sorted", "list", "tuple", "iter")


def run(ctx: Ctx, rep: Report) -> None:
    rep.rule("C01-R1", "values are yielded only under any(v.oid in root for root in <the walk's root list>)", floor=2)
    rep.rule("C01-R2", "values are yielded only once: guarded by a seen-set shared by all rounds and updated for every yielded value", floor=2)
    rep.rule("C01-R3", "every fetched batch is regrouped, filtered and yielded; the loop continues while a root is unfinished", floor=5)
    rep.rule("C01-R4", "positional regrouping: stride, offsets and keys agree; remap to user roots by containment", floor=4)
    rep.rule("C01-R5", "OID lists given to a truncating fetcher are ascending", floor=1)
    rep.rule("C01-R6", "a root continues from its last received OID and only while that OID is inside the root", floor=1)
    rep.rule("C01-R7", "endOfMibView markers are never delivered as instances", floor=2)
    rep.rule("C01-R8", "order within a root is preserved between fetch and yield", floor=1)
    rep.rule("C01-R9", "an exception a fetcher raises itself ends the walk the same way at every fetch site (first request and continuation requests)", floor=2)
    rep.rule("C01-R12", "the pythonic walk methods hand the caller's roots and options to the raw walk one-to-one (shared with C15-R4)", floor=2)
    rep.rule("C01-R11", "the fetchers' progress guard refuses only non-advancing OIDs: it pairs requested[i] with retrieved[i] and passes requested < retrieved (a conformant agent is never refused; shared with C03-R2/R3)", floor=2)
    rep.rule("C01-R10", "the GETBULK-based walk is the same loop: delegation, faithful fetcher results, suffix cut at the marker (shared with C02-R0/R1/R4)", floor=3)
    rep.assumptions += [
        "the agent is standards conformant (GETNEXT/GETBULK return lexicographic successors; endOfMibView at the end of the view)",
        "requested roots are pairwise disjoint (the property's quantifier)",
        "ObjectIdentifier.__contains__ / __lt__ of x690 implement subtree containment and lexicographic order",
    ]
    wm = WalkModel(ctx)
    rep.analysed.update({"walk": wm.walk.key, "fetchers": [f.key for f in wm.fetchers()], "filter": wm.dedup.key, "group": wm.group.key, "unfinished": wm.unfinished.key})
    check_filter(ctx, rep, wm)
    check_loop(ctx, rep, wm)
    check_group(ctx, rep, wm)
    check_sorted(ctx, rep, wm, "C01-R5")
    check_unfinished(ctx, rep, wm)
    check_markers(ctx, rep, wm)
    check_order(ctx, rep, wm)
    check_end_signals(ctx, rep, wm)
    from . import c02

    sub = Report(rep.prop, rep.tier)
    c02.check_bulk_fetch(ctx, sub, wm)
    c02.check_bulk_builder(ctx, sub, wm, "C02-R2", "C02-R3")
    rep.adopt(sub, "C01-R10")
    rep.adopt_rules(ctx.sub_run("c03", rep), "C01-R11", ["C03-R2", "C03-R3"])
    rep.adopt_rules(ctx.sub_run("c15", rep), "C01-R12", ["C15-R4"], containing="walk")
    rep.adopt_rules(ctx.sub_run("c12", rep), "C01-R12", ["C12-R4"], containing="only in Report")
    # a walk that lasts longer than the 150 s window is not cut short by a client clock that stands still or runs backwards
    rep.adopt_rules(ctx.sub_run("c12", rep), "C01-R12", ["C12-R3"], containing="engine time")


def fetcher_raises(ctx: Ctx, fn: FuncInfo, seam: Optional[FuncInfo], depth: int = 0, seen=None) -> List[Tuple[FuncInfo, ast.Raise, ClassInfo]]:
    """Explicit ``raise <Class>`` statements of a fetcher and of the client helpers it calls (the network seam excluded)."""
    seen = seen if seen is not None else set()
    if fn.key in seen or depth > 3:
        return []
    seen.add(fn.key)
    out: List[Tuple[FuncInfo, ast.Raise, ClassInfo]] = []
    for n in own_nodes(fn.node):
        if isinstance(n, ast.Raise) and n.exc is not None:
            for cls in ctx.exc_classes(fn, n.exc) or []:
                out.append((fn, n, cls))
        if isinstance(n, ast.Call):
            for callee in ctx.r.callees(fn, n):
                if isinstance(callee, FuncInfo) and not callee.module.external and callee is not seam and callee.cls is not None and fn_owner(fn) is callee.cls:
                    out += fetcher_raises(ctx, callee, seam, depth + 1, seen)
    return out


def fn_owner(fn: FuncInfo) -> Optional[ClassInfo]:
    cur: Optional[FuncInfo] = fn
    while cur is not None:
        if cur.cls is not None:
            return cur.cls
        cur = cur.parent
    return None


def check_end_signals(ctx: Ctx, rep: Report, wm: WalkModel, rule: str = "C01-R9") -> None:
    """
    The walk calls its fetcher at several sites.  A handler that ends the walk quietly (break / return, no re-raise)
    for an exception class at one site documents that this class is an end-of-data signal; if a fetcher raises that
    class itself, every other fetch site needs the same quiet ending - otherwise the walk of an exhausted (empty,
    end-of-view) subtree raises at one site and ends normally at the other.
    """
    w = wm.walk
    sites: List[Tuple[ast.Call, List[Tuple[ast.ExceptHandler, bool]]]] = []
    for call in wm.fetch_calls:
        handlers: List[Tuple[ast.ExceptHandler, bool]] = []
        for tr, part in enclosing_tries_of(call, w):
            if part != "body":
                continue
            for h in tr.handlers:
                quiet = not all_paths_reraise(h)
                handlers.append((h, quiet))
        sites.append((call, handlers))
    try:
        seam = ctx.send_method()
    except AnalysisError:
        seam = None
    raised: List[Tuple[FuncInfo, ast.Raise, ClassInfo]] = []
    for f in wm.fetchers():
        raised += fetcher_raises(ctx, f, seam)
    rep.analysed["fetcher_raise_statements"] = len(raised)

    def quiet_at(handlers, cls: ClassInfo) -> Optional[bool]:
        """True: caught quietly on some path; False: caught and always re-raised / not caught."""
        for h, quiet in handlers:
            if h.type is None:
                return quiet
            types = h.type.elts if isinstance(h.type, ast.Tuple) else [h.type]
            for t in types:
                hc = ctx.r.resolve_class(w.module, t)
                if (hc is not None and ctx.r.is_subclass(cls, hc)) or norm(t).split(".")[-1] in ("Exception", "BaseException"):
                    return quiet
        return False

    if len(sites) < 2:
        rep.ok(rule, w.site(), "the walk has a single fetch site", "")
    for fn, node, cls in raised:
        verdicts = [quiet_at(handlers, cls) for _, handlers in sites]
        uniform = len(set(verdicts)) <= 1
        rep.check(
            uniform,
            rule,
            fn.site(node),
            f"{fn.qualname} raises {cls.name}: every fetch site of the walk treats it alike (quiet end everywhere, or propagation everywhere)",
            "; ".join(f"line {c.lineno}: {'ends the walk quietly' if v else 'propagates'}" for (c, _), v in zip(sites, verdicts)),
            key=f"{fn.key}|end-signal|{cls.name}",
        )


def all_paths_reraise(handler: ast.ExceptHandler) -> bool:
    """Every path through the handler body ends in a raise (syntactic: last statement raises, or if/else both do)."""

    def ends_in_raise(stmts: List[ast.stmt]) -> bool:
        if not stmts:
            return False
        last = stmts[-1]
        if isinstance(last, ast.Raise):
            return all(not _leaves_early(s) for s in stmts[:-1])
        if isinstance(last, ast.If):
            return ends_in_raise(last.body) and ends_in_raise(last.orelse) and all(not _leaves_early(s) for s in stmts[:-1])
        return False

    return ends_in_raise(handler.body)


def _leaves_early(stmt: ast.stmt) -> bool:
    return any(isinstance(n, (ast.Return, ast.Break, ast.Continue)) for n in ast.walk(stmt))


# ---------------------------------------------------------------- R1 / R2
def check_filter(ctx: Ctx, rep: Report, wm: WalkModel, r1: str = "C01-R1", r2: str = "C01-R2") -> None:
    from .walkeval import eval_filter

    if eval_filter(ctx, rep, wm.dedup, r1, r2, "C01-R8" if r1 == "C01-R1" else r2):
        wm.filter_evaluated = True  # type: ignore[attr-defined]
        check_filter_call_sites(ctx, rep, wm, r1, r2)
        return
    check_filter_structurally(ctx, rep, wm, r1, r2)


def check_filter_structurally(ctx: Ctx, rep: Report, wm: WalkModel, r1: str = "C01-R1", r2: str = "C01-R2") -> None:
    g = wm.dedup
    defs = ctx.defs(g)
    cfg = ctx.cfg(g)
    yields = [n for n in own_nodes(g.node) if isinstance(n, ast.Yield)]
    site = g.site()
    if len(yields) != 1 or not isinstance(yields[0].value, ast.Name):
        rep.undecided(r1, site, "the filter generator has exactly one `yield <name>`", f"{len(yields)} yields")
        return
    y = yields[0]
    var = y.value.id
    ynode = cfg_node_of(cfg, y)
    conds = cfg.conditions_to(ynode)
    facts = facts_on_all_paths(conds, defs.expand)
    # containment atom
    roots_param = None
    contain_ok = False
    for text, pol in facts:
        if not pol:
            continue
        try:
            expr = ast.parse(text, mode="eval").body
        except SyntaxError:
            continue
        if isinstance(expr, ast.Call) and isinstance(expr.func, ast.Name) and expr.func.id == "any" and len(expr.args) == 1:
            comp = expr.args[0]
            if isinstance(comp, (ast.ListComp, ast.GeneratorExp)) and len(comp.generators) == 1 and not comp.generators[0].ifs:
                gen = comp.generators[0]
                elt = comp.elt
                if (
                    isinstance(elt, ast.Compare)
                    and len(elt.ops) == 1
                    and isinstance(elt.ops[0], ast.In)
                    and norm(elt.left) == f"{var}.oid"
                    and isinstance(gen.target, ast.Name)
                    and norm(elt.comparators[0]) == gen.target.id
                    and isinstance(gen.iter, ast.Name)
                    and gen.iter.id in g.params
                ):
                    contain_ok = True
                    roots_param = gen.iter.id
    rep.check(
        contain_ok,
        r1,
        g.site(y),
        f"`yield {var}` is reached only when any({var}.oid in root for root in <roots parameter>) holds",
        f"facts on all paths to the yield: {sorted(facts)}",
        key=f"{g.key}|containment-guard",
    )
    seen_param = None
    for text, pol in facts:
        if pol:
            continue
        try:
            expr = ast.parse(text, mode="eval").body
        except SyntaxError:
            continue
        if isinstance(expr, ast.Compare) and isinstance(expr.ops[0], ast.In) and norm(expr.left) == f"{var}.oid" and isinstance(expr.comparators[0], ast.Name) and expr.comparators[0].id in g.params:
            seen_param = expr.comparators[0].id
    rep.check(seen_param is not None, r2, g.site(y), f"`yield {var}` is reached only when {var}.oid is not in the seen-set parameter", f"facts: {sorted(facts)}", key=f"{g.key}|seen-guard")
    added = False
    if seen_param is not None:
        def is_add(n: ast.AST) -> bool:
            """<seen>.add(<var>.oid), also through a local alias of the bound method / of the OID."""
            if not (isinstance(n, ast.Call) and len(n.args) == 1 and not n.keywords):
                return False
            func = n.func
            if isinstance(func, ast.Name):
                func = defs.single(func.id) or func
            if not (isinstance(func, ast.Attribute) and func.attr == "add" and norm(func.value) == seen_param):
                return False
            return norm(defs.expand(n.args[0], stop=[var])) == f"{var}.oid"

        adds = [n for n in own_nodes(g.node) if is_add(n)]
        for a in adds:
            anode = cfg_node_of(cfg, a)
            ast_stmt = stmt_of(a)
            ystmt = stmt_of(y)
            # same block, adjacent to the yield (before or right after), so it runs for every yielded value
            par = getattr(ast_stmt, "_parent", None)
            if par is not None and getattr(ystmt, "_parent", None) is par:
                added = True
    rep.check(added, r2, g.site(y), "the OID of every yielded value is added to the seen-set in the same block as the yield", key=f"{g.key}|seen-add")
    # a rejected element is skipped on its own: the loops of the filter are never left early
    early = [n for n in own_nodes(g.node) if isinstance(n, (ast.Break, ast.Return))]
    rep.check(
        not early,
        r1,
        g.site(early[0]) if early else g.site(),
        "rejecting one binding (outside the roots / seen before) skips only that binding; the bindings after it in the batch are still examined",
        f"`{type(early[0]).__name__.lower()}` at line {early[0].lineno} leaves the loop: later bindings of the batch are dropped although the walk continues after them" if early else "",
        key=f"{g.key}|filter-leaves-loop",
    )
    check_filter_call_sites(ctx, rep, wm, r1, r2, roots_param, seen_param)


def check_filter_call_sites(ctx: Ctx, rep: Report, wm: WalkModel, r1: str, r2: str, roots_param: Optional[str] = None, seen_param: Optional[str] = None) -> None:
    """How the walk uses its filter: the walk's own roots, one seen-set for all rounds that only grows."""
    g = wm.dedup
    if roots_param is None and g.params:
        roots_param = g.params[0]  # roles by position: (roots, regrouped batch, seen-set) - the order the evaluation used
    if seen_param is None and len(g.params) > 2:
        seen_param = g.params[2]
    wdefs = ctx.defs(wm.walk)
    seen_names = set()
    for call in wm.dedup_calls:
        bound = bind_call_args(call, g.params, skip_self=False)
        rarg = bound.get(roots_param) if roots_param else None
        ok = False
        detail = f"roots argument: {norm(rarg) if rarg is not None else None}"
        if isinstance(rarg, ast.Name):
            if rarg.id == wm.roots_param:
                vals = wdefs.all_values(rarg.id)
                ok = all(is_order_preserving_of(v, wm.roots_param) for v in vals)
                detail += f"; redefinitions: {[norm(v) for v in vals]}"
            else:
                vals = wdefs.all_values(rarg.id)
                ok = bool(vals) and all(is_order_preserving_of(v, wm.roots_param) for v in vals)
                detail += f"; definitions: {[norm(v) for v in vals]}"
        rep.check(ok, r1, wm.walk.site(call), "the filter is given the walk's own root list (not the continuation list of the current round)", detail, key=f"{wm.walk.key}|filter-roots-arg")
        sarg = bound.get(seen_param) if seen_param else None
        seen_names.add(sarg.id if isinstance(sarg, ast.Name) else f"<{norm(sarg) if sarg is not None else None}>")
    # the seen-set only ever grows while the walk runs: forgetting OIDs re-admits the overrun of an earlier column
    shrink = []
    scope_fns = [wm.walk, g] + [c for n in own_nodes(wm.walk.node) if isinstance(n, ast.Call) for c in ctx.r.callees(wm.walk, n) if isinstance(c, FuncInfo) and not c.module.external and c.module.name.startswith("puresnmp")]
    seen_local = next(iter(seen_names)) if len(seen_names) == 1 else None
    for sf in {f.key: f for f in scope_fns}.values():
        # names under which the seen-set is known in this function
        names_here = set()
        if sf is wm.walk and seen_local:
            names_here.add(seen_local)
        if sf is g and seen_param:
            names_here.add(seen_param)
        for n in own_nodes(wm.walk.node):
            if isinstance(n, ast.Call) and sf in [c for c in ctx.r.callees(wm.walk, n) if isinstance(c, FuncInfo)] and seen_local:
                for pname, arg in bind_call_args(n, sf.params, skip_self=sf.cls is not None).items():
                    if isinstance(arg, ast.Name) and arg.id == seen_local:
                        names_here.add(pname)
        for _ in range(3):  # plain copies are the same set (the parameter slot of a spliced helper, a local alias)
            for n in own_nodes(sf.node):
                if isinstance(n, ast.Assign) and len(n.targets) == 1 and isinstance(n.targets[0], ast.Name) and isinstance(n.value, ast.Name) and n.value.id in names_here:
                    names_here.add(n.targets[0].id)
        for n in own_nodes(sf.node):
            if isinstance(n, ast.Call) and isinstance(n.func, ast.Attribute) and isinstance(n.func.value, ast.Name) and n.func.value.id in names_here and n.func.attr in ("discard", "remove", "clear", "pop", "difference_update", "intersection_update", "symmetric_difference_update"):
                shrink.append(f"{sf.qualname}:{n.lineno} {norm(n)[:50]}")
            if isinstance(n, ast.AugAssign) and isinstance(n.target, ast.Name) and n.target.id in names_here and isinstance(n.op, (ast.Sub, ast.BitAnd, ast.BitXor)):
                shrink.append(f"{sf.qualname}:{n.lineno} {norm(n)[:50]}")
    rep.check(not shrink, r2, wm.walk.site(), "the seen-set only grows during a walk (nothing delivered is ever forgotten)", "; ".join(shrink[:3]), key=f"{wm.walk.key}|seen-set-shrinks")
    one = len(seen_names) == 1
    created_once = False
    if one:
        name = next(iter(seen_names))
        stmt = wdefs.single_stmt(name)
        val = wdefs.single(name)
        if stmt is not None and isinstance(val, ast.Call) and norm(val.func) == "set" and not val.args:
            created_once = not any(isinstance(a, (ast.While, ast.For, ast.AsyncFor)) for a in ancestors(stmt))
    rep.check(one and created_once, r2, wm.walk.site(), "all rounds share one seen-set, created empty once and outside the continuation loop", f"seen-set arguments: {sorted(seen_names)}", key=f"{wm.walk.key}|seen-set-per-round")


def is_order_preserving_of(expr: ast.AST, param: str) -> bool:
    expr = strip_casts(expr)
    if isinstance(expr, ast.Name):
        return expr.id == param
    if isinstance(expr, ast.Call) and isinstance(expr.func, ast.Name) and expr.func.id in ORDER_PRESERVING and len(expr.args) == 1 and not expr.keywords:
        return is_order_preserving_of(expr.args[0], param)
    if isinstance(expr, (ast.List, ast.Tuple)) and len(expr.elts) == 1 and isinstance(expr.elts[0], ast.Starred):
        return is_order_preserving_of(expr.elts[0].value, param)  # [*xs]
    if isinstance(expr, ast.IfExp):
        return is_order_preserving_of(expr.body, param) and is_order_preserving_of(expr.orelse, param)
    return False


def continuation_by_evaluation(ctx: Ctx, wm: WalkModel, w: FuncInfo, exp: ast.AST, uname: str):
    """
    The expression that builds the next request, evaluated on what the repository's own "unfinished roots" function
    returns for a regrouped batch of three roots (one continues after one binding, one after two, one is finished):
    expected are the last OIDs of the two unfinished roots, in root order.  None when not evaluable.
    """
    from ..engine.minieval import MiniEval, OidVal, Raised, Unevaluable
    from .walkeval import mk_varbind

    roots = [OidVal((1, 3, 10)), OidVal((1, 3, 20)), OidVal((1, 3, 30))]
    grouped = {
        roots[1]: [mk_varbind(ctx, (1, 3, 20, 7), "b"), mk_varbind(ctx, (1, 3, 20, 8), "c")],
        roots[0]: [mk_varbind(ctx, (1, 3, 10, 5), "a")],
        roots[2]: [mk_varbind(ctx, (1, 3, 31, 1), "d")],
    }
    ev = MiniEval(ctx, max_steps=40000)
    try:
        unfinished = ev.call_function(wm.unfinished, [grouped], {})
        got = ev.eval(w, exp, {uname: unfinished}, 0)
    except Unevaluable:
        return None
    except Raised as exc:
        return False, f"raises {exc.value!r}"
    want = [OidVal((1, 3, 10, 5)), OidVal((1, 3, 20, 8))]
    try:
        got_l = list(got)
    except TypeError:
        return False, f"request list = {got!r}"
    return got_l == want, f"request list = {got_l!r}, expected {want!r}"


def none_branches(cfg, name: str):
    """(branch nodes taken when *name* is None, branch nodes taken when it is not) over the `name is [not] None` tests."""
    is_none, not_none = [], []
    for n in cfg.nodes:
        if n.kind != "test" or not isinstance(n.ast, ast.Compare) or len(n.ast.ops) != 1:
            continue
        cmp_ = n.ast
        if not (isinstance(cmp_.left, ast.Name) and cmp_.left.id == name and isinstance(cmp_.comparators[0], ast.Constant) and cmp_.comparators[0].value is None):
            continue
        if not isinstance(cmp_.ops[0], (ast.Is, ast.IsNot, ast.Eq, ast.NotEq)):
            continue
        positive = isinstance(cmp_.ops[0], (ast.Is, ast.Eq))
        for nid, lab in cfg.succ[n.id]:
            if lab is True:
                (is_none if positive else not_none).append(cfg.nodes[nid])
            elif lab is False:
                (not_none if positive else is_none).append(cfg.nodes[nid])
    return is_none, not_none


# ---------------------------------------------------------------- R3
def check_loop(ctx: Ctx, rep: Report, wm: WalkModel, r3: str = "C01-R3", r6: str = "C01-R6") -> None:
    w = wm.walk
    cfg = ctx.cfg(w)
    defs = ctx.defs(w)
    yield_loops = []
    for n in own_nodes(w.node):
        if isinstance(n, ast.For) and n.iter in wm.dedup_calls:
            body = [s for s in n.body]
            ok_body = len(body) == 1 and isinstance(body[0], ast.Expr) and isinstance(body[0].value, ast.Yield) and norm(body[0].value.value) == norm(n.target)
            yield_loops.append((n, ok_body))
    for loop, ok_body in yield_loops:
        rep.check(ok_body, r3, w.site(loop), "every value the filter lets through is yielded to the caller (loop body is exactly `yield <item>`)", key=f"{w.key}|filter-loop-body")
    loop_nodes = [cfg.node_of(l) for l, _ in yield_loops]
    loop_nodes = [n for n in loop_nodes if n is not None]
    whiles = [n for n in own_nodes(w.node) if isinstance(n, ast.While)]
    wtest = None
    if len(whiles) == 1:
        for n in cfg.nodes:
            if n.kind == "test" and getattr(n, "_stmt", None) is whiles[0]:
                wtest = n
    # each fetch result reaches a yield loop on every normal path
    group_result_names = set()
    for fc in wm.fetch_calls:
        fnode = cfg_node_of(cfg, fc)
        st = stmt_of(fc)
        res = st.targets[0].id if isinstance(st, ast.Assign) and isinstance(st.targets[0], ast.Name) else None
        targets = [cfg.exit] + ([wtest] if wtest is not None else [])
        # a fetcher returns a list (C01-R1): the `<result> is None` branch is not a path of a successful fetch (a local
        # helper reports a refused fetch that way)
        infeasible = none_branches(cfg, res)[0] if res is not None else []
        ok = fnode is not None and res is not None and cfg.must_pass(fnode, targets, loop_nodes + infeasible)
        wit = None
        if not ok and fnode is not None:
            path = cfg.witness_path(fnode, targets, avoid=loop_nodes + infeasible)
            wit = [repr(n) for n in path] if path else None
        rep.check(ok, r3, w.site(fc), "after a successful fetch every path to the next round / the end passes the loop that yields the filtered batch", key=f"{w.key}|batch-dropped", witness=wit)
    # provenance chain: filter(grouped) <- group(fetch result)
    fetch_results = set()
    for fc in wm.fetch_calls:
        st = stmt_of(fc)
        if isinstance(st, ast.Assign) and isinstance(st.targets[0], ast.Name):
            fetch_results.add(st.targets[0].id)
    for call in wm.dedup_calls:
        garg = [a for a in call.args if isinstance(a, ast.Name) and all(isinstance(v, ast.Call) and v in wm.group_calls for v in defs.all_values(a.id)) and defs.all_values(a.id)]
        ok = len(garg) == 1
        if ok:
            node = cfg_node_of(cfg, call)
            rd = reaching_defs(cfg, garg[0].id, node)
            ok = bool(rd) and all(assigned_value(d) in wm.group_calls for d in rd)
            # and the group call that reaches here regrouped the newest fetch result
            for d in rd:
                gc = assigned_value(d)
                if isinstance(gc, ast.Call):
                    first = gc.args[0]
                    frd = reaching_defs(cfg, first.id, d) if isinstance(first, ast.Name) else []
                    if isinstance(first, ast.Name):
                        # `<result> = None` (the refused-fetch marker of a local helper) never reaches the regrouping
                        # when every path from it runs into the not-None side of a `<result> is None` test
                        not_none = none_branches(cfg, first.id)[1]
                        frd = [x for x in frd if not (isinstance(assigned_value(x), ast.Constant) and assigned_value(x).value is None and d.id not in cfg.reachable(x, avoid=not_none))]
                    if not frd or not all(isinstance(assigned_value(x), ast.Await) and assigned_value(x).value in wm.fetch_calls for x in frd):
                        ok = False
        rep.check(ok, r3, w.site(call), "what is filtered and yielded is the regrouping of the batch just fetched", key=f"{w.key}|stale-batch")
    # continuation loop
    if len(whiles) != 1 or wtest is None:
        rep.violated(r3, w.site(), "the continuation is a `while` loop over the unfinished roots", f"{len(whiles)} while loops found", key=f"{w.key}|no-continuation-loop")
        return
    wl = whiles[0]
    cond = wl.test
    uname = cond.id if isinstance(cond, ast.Name) else None
    ok = uname is not None and bool(defs.all_values(uname)) and all(v in wm.unfinished_calls for v in defs.all_values(uname))
    rep.check(ok, r3, w.site(wl), "the loop condition is the list of unfinished roots computed from a regrouped batch", f"while {norm(cond)}", key=f"{w.key}|loop-condition")
    if uname is None:
        return
    # renewed on every path to the back edge
    inner_defs = [cfg_node_of(cfg, v) for v in defs.all_values(uname) if any(a is wl for a in ancestors(v))]
    inner_defs = [n for n in inner_defs if n is not None]
    body_entry = [cfg.nodes[nid] for nid, lab in cfg.succ[wtest.id] if lab is True]
    ok = bool(inner_defs) and bool(body_entry) and cfg.must_pass(body_entry[0], [wtest], inner_defs)
    rep.check(ok, r3, w.site(wl), "the unfinished list is recomputed from the newest batch on every path back to the loop test", key=f"{w.key}|stale-loop-variable")
    # each inner unfinished() call is computed from the newest group result
    for uc in wm.unfinished_calls:
        arg = uc.args[0] if uc.args else None
        node = cfg_node_of(cfg, uc)
        okc = isinstance(arg, ast.Name) and node is not None
        if okc:
            rd = reaching_defs(cfg, arg.id, node)
            okc = bool(rd) and all(assigned_value(d) in wm.group_calls for d in rd)
        rep.check(okc, r3, w.site(uc), "unfinished roots are computed from the regrouping of the batch just fetched", key=f"{w.key}|unfinished-from-stale")
    # the request inside the loop is built from the unfinished list
    inner_fetch = [fc for fc in wm.fetch_calls if any(a is wl for a in ancestors(fc))]
    for fc in inner_fetch:
        arg = fc.args[0] if fc.args else None
        exp = defs.expand(arg) if arg is not None else None
        ok = False
        decided = continuation_by_evaluation(ctx, wm, w, exp, uname) if exp is not None else None
        if decided is not None:
            rep.check(decided[0], r6, w.site(fc), "the next request asks, for every unfinished root and in the same order, for the OID last received for it (evaluated on the unfinished list of a three-root batch)", decided[1], key=f"{w.key}|continuation-request")
            continue
        if isinstance(exp, (ast.ListComp,)) and len(exp.generators) == 1 and not exp.generators[0].ifs:
            gen = exp.generators[0]
            row_cls = ctx.u.cls("puresnmp.util:WalkRow") if "puresnmp.util:WalkRow" in ctx.u.classes else None
            fields = dataclass_fields(row_cls) if row_cls else ["value", "unfinished"]
            if isinstance(gen.iter, ast.Name) and gen.iter.id == uname and isinstance(gen.target, ast.Name):
                t = gen.target.id
                # item = (root, WalkRow): the continuation OID is the row's value's oid
                ok = norm(exp.elt) == f"{t}[1].{fields[0]}.oid"
            elif isinstance(gen.iter, ast.Name) and gen.iter.id == uname and isinstance(gen.target, (ast.Tuple, ast.List)) and len(gen.target.elts) == 2 and isinstance(gen.target.elts[1], ast.Name):
                # the same with the item unpacked: for _, row in unfinished
                ok = norm(exp.elt) == f"{gen.target.elts[1].id}.{fields[0]}.oid"
        rep.check(ok, r6, w.site(fc), "the next request asks, for every unfinished root and in the same order, for the OID last received for it", f"request list = {norm(exp) if exp is not None else None}", key=f"{w.key}|continuation-request")


# ---------------------------------------------------------------- R4
def check_group(ctx: Ctx, rep: Report, wm: WalkModel) -> None:
    from .walkeval import eval_group

    if eval_group(ctx, rep, wm.group, "C01-R4"):
        check_group_call_sites(ctx, rep, wm)
        return
    check_group_structurally(ctx, rep, wm)


def check_group_structurally(ctx: Ctx, rep: Report, wm: WalkModel) -> None:
    g = wm.group
    defs = ctx.defs(g)
    site = g.site()
    vb_param, eff_param = g.params[0], g.params[1]
    user_param = g.params[2] if len(g.params) > 2 else None
    ok = None
    detail = ""
    found = False
    comps: List[ast.DictComp] = [n for n in own_nodes(g.node) if isinstance(n, ast.DictComp)]
    for name, vals in defs.assigns.items():
        for val, _ in vals:
            synth = defs.fill_loop(name, val)
            if isinstance(synth, ast.DictComp):
                comps.append(synth)
    for comp in comps:
        if len(comp.generators) != 1 or comp.generators[0].ifs:
            continue
        gen = comp.generators[0]
        val = comp.value
        if not (isinstance(val, ast.Subscript) and isinstance(val.slice, ast.Slice)):
            continue
        sl = val.slice
        stride = norm(defs.expand(sl.step)) if sl.step is not None else None
        lower = norm(sl.lower) if sl.lower is not None else None
        if isinstance(gen.iter, ast.Call) and isinstance(gen.iter.func, ast.Name) and gen.iter.func.id == "range" and len(gen.iter.args) == 1 and isinstance(gen.target, ast.Name):
            i = gen.target.id
            bound = norm(defs.expand(gen.iter.args[0]))
            found = True
            ok = bound == f"len({eff_param})" and stride == f"len({eff_param})" and lower == i and sl.upper is None and norm(val.value) == vb_param and norm(comp.key) == f"{eff_param}[{i}]"
            detail = f"{{{norm(comp.key)}: {norm(val)} for {i} in range({bound})}} with stride {stride}"
        elif isinstance(gen.iter, ast.Call) and isinstance(gen.iter.func, ast.Name) and gen.iter.func.id == "enumerate" and isinstance(gen.target, ast.Tuple) and len(gen.target.elts) == 2 and gen.iter.args:
            i, root = norm(gen.target.elts[0]), norm(gen.target.elts[1])
            found = True
            ok = norm(gen.iter.args[0]) == eff_param and stride == f"len({eff_param})" and lower == i and sl.upper is None and norm(val.value) == vb_param and norm(comp.key) == root
            detail = norm(comp)[:120]
    if not found:
        ok = None
        detail = "positional regrouping loop not recognised"
    zips = [n for n in own_nodes(g.node) if isinstance(n, ast.Call) and isinstance(n.func, ast.Name) and n.func.id == "zip" and any(isinstance(a, ast.Starred) for a in n.args)]
    if zips:
        rep.violated("C01-R4", g.site(zips[0]), "regrouping keeps every binding of a partial last row", f"`{norm(zips[0])[:60]}` transposes rows with zip(): zip stops at the shortest row, so the bindings of a partial last row (legal GETBULK truncation, endOfMibView cut-off) are dropped for the columns after the cut", key=f"{g.key}|zip-transposition")
        ok = False if ok is None else ok
    rep.check(ok, "C01-R4", site, "slice i of the interleaved bindings is bindings[i::n] with n = len(requested) and is keyed by requested[i], for i in range(n)", detail, key=f"{g.key}|stride-offset-key")
    if user_param is None:
        rep.undecided("C01-R4", site, "regrouping maps continuation OIDs back to user roots", "no user-roots parameter")
        return
    # remap
    comps = []
    for n in own_nodes(g.node):
        if isinstance(n, ast.ListComp) and len(n.generators) == 1:
            gen = n.generators[0]
            if isinstance(gen.iter, ast.Name) and gen.iter.id == user_param and len(gen.ifs) == 1 and isinstance(gen.target, ast.Name):
                comps.append((n, gen))
    okc = False
    key_var = None
    cname = None
    for comp, gen in comps:
        test = gen.ifs[0]
        if isinstance(test, ast.Compare) and isinstance(test.ops[0], ast.In) and norm(test.comparators[0]) == gen.target.id and isinstance(test.left, ast.Name) and norm(comp.elt) == gen.target.id:
            key_var = test.left.id
            okc = True
            st = stmt_of(comp)
            if isinstance(st, ast.Assign) and isinstance(st.targets[0], ast.Name):
                cname = st.targets[0].id
    # key_var must be the key of the positional result
    loops = [n for n in own_nodes(g.node) if isinstance(n, ast.For) and isinstance(n.iter, ast.Call) and isinstance(n.iter.func, ast.Attribute) and n.iter.func.attr == "items"]
    key_is_key = any(isinstance(l.target, ast.Tuple) and norm(l.target.elts[0]) == key_var for l in loops)
    rep.check(okc and key_is_key, "C01-R4", site, "a continuation OID is attributed to the user root that contains it (`effective in user_root`, in that operand order)", f"comprehensions over the user roots: {[norm(c) for c, _ in comps]}", key=f"{g.key}|remap-containment")
    refuse = False
    store_ok = False
    if cname:
        for n in own_nodes(g.node):
            if isinstance(n, ast.If) and norm(n.test) in (f"len({cname}) > 1", f"len({cname}) >= 2", f"len({cname}) != 1 and {cname}") and any(isinstance(s, ast.Raise) for s in n.body):
                refuse = True
            if isinstance(n, ast.Assign) and isinstance(n.targets[0], ast.Subscript) and norm(n.targets[0].slice) == f"{cname}[0]":
                val_var = None
                for l in loops:
                    if isinstance(l.target, ast.Tuple) and len(l.target.elts) == 2:
                        val_var = norm(l.target.elts[1])
                store_ok = val_var is not None and norm(n.value) == val_var
    rep.check(refuse, "C01-R4", site, "an OID contained in more than one user root is refused (raises)", key=f"{g.key}|multi-container")
    rep.check(store_ok, "C01-R4", site, "the slice is stored unchanged under the single containing user root", key=f"{g.key}|remap-store")
    check_group_call_sites(ctx, rep, wm)


def check_group_call_sites(ctx: Ctx, rep: Report, wm: WalkModel) -> None:
    """Call sites in the walk: every batch is regrouped by exactly the OID list it was requested with."""
    g = wm.group
    vb_param, eff_param = g.params[0], g.params[1]
    user_param = g.params[2] if len(g.params) > 2 else None
    w = wm.walk
    wcfg = ctx.cfg(w)
    for gc in wm.group_calls:
        b = bind_call_args(gc, g.params, skip_self=False)
        eff = b.get(eff_param)
        first = b.get(vb_param)
        node = cfg_node_of(wcfg, gc)
        ok = False
        detail = ""
        if isinstance(first, ast.Name) and isinstance(eff, ast.Name) and node is not None:
            frd = reaching_defs(wcfg, first.id, node)
            fetches = [assigned_value(d).value for d in frd if isinstance(assigned_value(d), ast.Await)]
            ok = bool(fetches) and all(isinstance(f, ast.Call) and f.args and norm(f.args[0]) == eff.id for f in fetches)
            # and the list was not redefined between the fetch and the regrouping
            for d in frd:
                if reaching_defs(wcfg, eff.id, d) != reaching_defs(wcfg, eff.id, node):
                    ok = False
            detail = f"regroups by {eff.id}; fetched with {[norm(f.args[0]) for f in fetches if isinstance(f, ast.Call) and f.args]}"
        rep.check(ok, "C01-R4", w.site(gc), "the batch is regrouped by exactly the OID list it was requested with", detail, key=f"{w.key}|regroup-list-mismatch")
        inner = any(isinstance(a, ast.While) for a in ancestors(gc))
        if inner:
            ur = b.get(user_param)
            okr = isinstance(ur, ast.Name) and (ur.id == wm.roots_param)
            rep.check(okr, "C01-R4", w.site(gc), "continuation rounds map their results back to the walk's root list", f"user_roots = {norm(ur) if ur is not None else None}", key=f"{w.key}|remap-roots-arg")


# ---------------------------------------------------------------- R5
def sorted_summary(ctx: Ctx, fn: FuncInfo) -> bool:
    """The function returns a list derived, order preserving, from sorted(...)."""
    from .walkeval import returns_sorted_by_evaluation

    evaluated = returns_sorted_by_evaluation(ctx, fn) if fn.params and len(fn.params) == 1 else None
    if evaluated is not None:
        return evaluated
    defs = ctx.defs(fn)
    rets = [n for n in own_nodes(fn.node) if isinstance(n, ast.Return) and n.value is not None]
    if not rets:
        return False
    for r in rets:
        exp = defs.expand(r.value)
        if not derives_sorted(exp):
            return False
    return True


def derives_sorted(exp: ast.AST) -> bool:
    exp = strip_casts(exp)
    if isinstance(exp, ast.Call) and isinstance(exp.func, ast.Name) and exp.func.id == "sorted" and not any(kw.arg in ("reverse", "key") for kw in exp.keywords):
        return True
    if isinstance(exp, ast.Call) and isinstance(exp.func, ast.Name) and exp.func.id in ("list", "tuple") and len(exp.args) == 1:
        return derives_sorted(exp.args[0])
    if isinstance(exp, (ast.ListComp, ast.GeneratorExp)) and len(exp.generators) == 1 and isinstance(exp.generators[0].target, ast.Name):
        gen = exp.generators[0]
        # filtering keeps the order; the element must be the item itself
        if norm(exp.elt) == gen.target.id:
            return derives_sorted(gen.iter)
    return False


def check_sorted(ctx: Ctx, rep: Report, wm: WalkModel, rule: str) -> None:
    w = wm.walk
    cfg = ctx.cfg(w)
    defs = ctx.defs(w)
    trunc = {f.key: wm.truncation(f) for f in wm.fetchers()}
    truncating = [k for k, v in trunc.items() if any(kind in ("break", "return") for _, _, kind in v)]
    rep.analysed["truncating_fetchers"] = truncating
    if not truncating:
        rep.info("no fetcher truncates its result at endOfMibView: request order is irrelevant")
    for fc in wm.fetch_calls:
        arg = fc.args[0] if fc.args else None
        node = cfg_node_of(cfg, fc)
        site = w.site(fc)
        text = "the OID list of this request is ascending (a fetcher stops reading at the first endOfMibView, which is only sound for ascending requests)"
        if not truncating:
            rep.ok(rule, site, text, "no truncating fetcher")
            continue
        if not isinstance(arg, ast.Name) or node is None:
            rep.undecided(rule, site, text, "argument is not a simple name")
            continue
        rd = reaching_defs(cfg, arg.id, node)
        ok = bool(rd)
        why = []
        for d in rd:
            if d.id == cfg.entry.id:
                ok = False
                why.append("the caller's list reaches the request unsorted")
                continue
            val = assigned_value(d)
            if val is None:
                ok = False
                why.append(f"definition at line {d.lineno} not recognised")
                continue
            val = strip_casts(val)
            if derives_sorted(val):
                why.append(f"line {d.lineno}: {norm(val)[:40]}")
                continue
            # order preserving comprehension over the result of a sorted-returning function
            good = False
            if isinstance(val, ast.ListComp) and len(val.generators) == 1 and not val.generators[0].ifs and isinstance(val.generators[0].iter, ast.Name):
                src = val.generators[0].iter.id
                srd = reaching_defs(cfg, src, d)
                good = bool(srd)
                for sd in srd:
                    sval = assigned_value(sd)
                    callees = [c for c in ctx.r.callees(w, sval) if isinstance(c, FuncInfo)] if isinstance(sval, ast.Call) else []
                    if not callees or not all(sorted_summary(ctx, c) for c in callees):
                        good = False
                if good:
                    why.append(f"line {d.lineno}: order preserving over {src}, which is returned sorted by root")
            if not good:
                ok = False
                why.append(f"line {d.lineno}: {norm(val)[:50]} is not known to be ascending")
        rep.check(ok, rule, site, text, "; ".join(why), key=f"{w.key}|unsorted-request|{'first' if not any(isinstance(a, ast.While) for a in ancestors(fc)) else 'continuation'}")


# ---------------------------------------------------------------- R6
def check_unfinished(ctx: Ctx, rep: Report, wm: WalkModel) -> None:
    from .walkeval import eval_unfinished

    if eval_unfinished(ctx, rep, wm.unfinished, "C01-R5", "C01-R6"):
        return
    check_unfinished_structurally(ctx, rep, wm)


def check_unfinished_structurally(ctx: Ctx, rep: Report, wm: WalkModel) -> None:
    u = wm.unfinished
    defs = ctx.defs(u)
    site = u.site()
    param = u.params[0]
    row_cls = ctx.u.classes.get("puresnmp.util:WalkRow")
    fields = dataclass_fields(row_cls) if row_cls else ["value", "unfinished"]
    comps = [n for n in own_nodes(u.node) if isinstance(n, ast.DictComp)]
    for name, vals in defs.assigns.items():
        for val, _ in vals:
            synth = defs.fill_loop(name, val)
            if isinstance(synth, ast.DictComp):
                comps.append(synth)
    ok_last = ok_flag = ok_nonempty = False
    detail = ""
    for comp in comps:
        if len(comp.generators) != 1:
            continue
        gen = comp.generators[0]
        if not (isinstance(gen.iter, ast.Call) and isinstance(gen.iter.func, ast.Attribute) and gen.iter.func.attr == "items" and norm(gen.iter.func.value) == param and isinstance(gen.target, ast.Tuple) and len(gen.target.elts) == 2):
            continue
        k, v = norm(gen.target.elts[0]), norm(gen.target.elts[1])
        val = comp.value
        if isinstance(val, ast.Call) and ctx.r.resolve_class(u.module, val.func) == row_cls:
            b = bind_call_args(val, fields, skip_self=False)
            last, flag = b.get(fields[0]), b.get(fields[1])
            last_forms = (f"{v}[-1]", f"{v}[len({v}) - 1]", f"max({v})", f"sorted({v})[-1]")
            ok_last = last is not None and norm(last) in last_forms
            if isinstance(flag, ast.Compare) and len(flag.ops) == 1 and isinstance(flag.ops[0], ast.In):
                ok_flag = norm(flag.left) in [f"{lf}.oid" for lf in last_forms] and norm(flag.comparators[0]) == k
            ok_nonempty = any(norm(i) in (v, f"len({v}) > 0", f"len({v})", f"not not {v}") for i in gen.ifs)
            detail = norm(comp)
    rep.check(ok_last, "C01-R6", site, "a root continues from the last binding received for it", detail, key=f"{u.key}|not-last")
    rep.check(ok_flag, "C01-R6", site, "a root is unfinished exactly when that last OID is still inside the root (`last.oid in root`)", detail, key=f"{u.key}|unfinished-flag")
    rep.check(ok_nonempty, "C01-R6", site, "roots without any binding in the batch are finished", detail, key=f"{u.key}|empty-root")
    rets = [n for n in own_nodes(u.node) if isinstance(n, ast.Return) and n.value is not None]
    ok_filter = False
    for r in rets:
        exp = defs.expand(r.value)
        if isinstance(exp, ast.ListComp) and len(exp.generators) == 1:
            gen = exp.generators[0]
            t = norm(gen.target)
            ok_filter = len(gen.ifs) == 1 and norm(gen.ifs[0]) == f"{t}[1].{fields[1]}" and norm(exp.elt) == t
    rep.check(ok_filter, "C01-R6", site, "only unfinished roots are returned for continuation", f"{[norm(defs.expand(r.value))[:90] for r in rets]}", key=f"{u.key}|continues-finished")


# ---------------------------------------------------------------- R7
def check_markers(ctx: Ctx, rep: Report, wm: WalkModel) -> None:
    from .fetcheval import emit

    decided = emit(ctx, rep, "C01-R7", ["multigetnext", "bulk_fetcher"])
    for f in wm.fetchers():
        if ("multigetnext" in decided and f.name == "multigetnext") or ("bulk_fetcher" in decided and f.key == wm.bulk_fetcher.key):
            rep.ok("C01-R7", f.site(), f"{f.qualname}: endOfMibView bindings are never part of the result (the result is the prefix before the first marker)", "decided by the evaluated contract")
            continue
        cuts = wm.truncation(f)
        site = f.site()
        if not cuts:
            rep.violated("C01-R7", site, f"{f.qualname}: endOfMibView bindings are cut from the result", "no isinstance(.., EndOfMibView) guard in the fetcher or the operation it delegates to", key=f"{f.key}|marker-not-filtered")
            continue
        for owner, st, kind in cuts:
            # the guard must precede the store of the binding in the same loop
            loop = next((a for a in ancestors(st) if isinstance(a, (ast.For, ast.AsyncFor))), None)
            guard_if = next((a for a in ancestors(st) if isinstance(a, ast.If)), None)
            ok = False
            if loop is not None and guard_if is not None:
                body = loop.body
                idx = next((i for i, s in enumerate(body) if s is guard_if), None)
                stores = [i for i, s in enumerate(body) if any(isinstance(c, ast.Call) and isinstance(c.func, ast.Attribute) and c.func.attr == "append" for c in ast.walk(s)) or (isinstance(s, ast.Assign) and isinstance(s.targets[0], ast.Subscript))]
                ok = idx is not None and bool(stores) and all(i > idx for i in stores)
            rep.check(ok, "C01-R7", owner.site(st), f"{f.qualname}: the endOfMibView test precedes the store of the binding in the result loop", key=f"{owner.key}|marker-guard-order")
            rep.check(kind in ("break", "return"), "C01-R7", owner.site(st), f"{f.qualname}: at an endOfMibView binding the result loop is left (suffix cut): skipping single bindings would shift every later binding into another root's column", f"cut kind: {kind}", key=f"{owner.key}|marker-continue")


# ---------------------------------------------------------------- R8
def check_order(ctx: Ctx, rep: Report, wm: WalkModel) -> None:
    g = wm.dedup
    if getattr(wm, "filter_evaluated", False):
        from .fetcheval import fetcher_eval

        fe = fetcher_eval(ctx)
        if fe.results.get("multigetnext") is not None and fe.results.get("bulk_fetcher") is not None:  # type: ignore[attr-defined]
            rep.ok("C01-R8", g.site(), "filter, regrouping and fetchers keep the order of the response", "decided by their evaluated contracts (results are compared position by position)")
            return
    loops = [n for n in own_nodes(g.node) if isinstance(n, ast.For)]
    inner = [l for l in loops if any(isinstance(a, ast.For) for a in ancestors(l))]
    ok = False
    detail = ""
    for l in inner:
        outer = next(a for a in ancestors(l) if isinstance(a, ast.For))
        ok = isinstance(l.iter, ast.Name) and norm(l.iter) == norm(outer.target)
        detail = f"for {norm(l.target)} in {norm(l.iter)}"
    if not inner:
        ok = None
        detail = "nested loop (roots, then bindings of a root) not recognised"
    rep.check(ok, "C01-R8", g.site(), "the bindings of one root are visited in the order received (no sorted / reversed / set on a root's own list)", detail, key=f"{g.key}|reordered-within-root")
    # regrouping and fetchers must not reorder either
    bad = []
    for fn in [wm.group] + wm.fetchers():
        for n in own_nodes(fn.node):
            if isinstance(n, ast.Call) and isinstance(n.func, ast.Name) and n.func.id in ("reversed", "set", "frozenset"):
                bad.append(f"{fn.qualname}: {norm(n)[:40]}")
            if isinstance(n, ast.Call) and isinstance(n.func, ast.Name) and n.func.id == "sorted" and fn in wm.fetchers():
                bad.append(f"{fn.qualname}: {norm(n)[:40]}")
            if isinstance(n, ast.Slice) and n.step is not None and isinstance(n.step, ast.UnaryOp):
                bad.append(f"{fn.qualname}: negative stride")
    rep.check(not bad, "C01-R8", wm.group.site(), "regrouping and fetchers keep the order of the response", "; ".join(bad), key="walk|reordering-helper")
