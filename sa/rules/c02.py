"""
C02 - the bulk walk returns exactly what the GETNEXT walk returns.

The bulk walk runs through the same loop as the GETNEXT walk (C01 R1-R8 apply
to it: the bulk fetcher is one more element of the fetcher set; R0 checks the
delegation).  In addition:

R1  multiplicity-preserving flow: regrouping is positional (bindings[i::n]), so
    the list every fetcher returns must derive from the response's binding list
    with container kind *faithful* (order and multiplicity preserved; a prefix
    cut is allowed).  A flow through a container keyed by OID collapses the
    duplicates an agent legitimately sends when one subtree runs into the next.
R2  size bound: the GETBULK operation refuses exactly the responses with more
    than N + M*R bindings (RFC 3416 4.2.3), decided by simulating its CFG on an
    integer grid against the RFC formula.
R3  request / slice agreement: non-repeaters sent == number of scalar OIDs ==
    split offset of the response; max-repetitions sent == the caller's value; the
    bulk fetcher sends no scalars, its OID list as repeaters and its bulk size.
R4  truncation kind: the endOfMibView cut-off is a suffix cut (break), never a
    filtering `continue` that would shift the columns.
"""
from __future__ import annotations

import ast
from typing import Any, Dict, List, Optional, Tuple

from ..engine.context import Ctx, bind_call_args
from ..engine.exprs import Unevaluable, int_eval, norm, strip_casts
from ..engine.patterns import cfg_node_of, raised_class, simulate, stmt_of, value_number
from ..engine.report import Report
from ..engine.universe import AnalysisError, ClassInfo, FuncInfo, ancestors, own_nodes
from .common import concrete_env
from .walkmodel import WalkModel

FAITHFUL, FILTERED, KEYED, REORDERED, UNKNOWN = "faithful", "filtered", "keyed", "reordered", "unknown"
RANK = {FAITHFUL: 0, FILTERED: 1, REORDERED: 2, KEYED: 3, UNKNOWN: 4}


def worse(a: Tuple[str, str], b: Tuple[str, str]) -> Tuple[str, str]:
    return a if RANK[a[0]] >= RANK[b[0]] else b


class Containers:
    def __init__(self, ctx: Ctx, client: ClassInfo) -> None:
        self.ctx = ctx
        self.client = client
        self.cuts: List[str] = []  # prefix cuts (break / return inside a building loop) met during the last evaluation

    def kind(self, fn: FuncInfo, expr: ast.AST, depth: int = 0) -> Tuple[str, str]:
        """(kind, explanation) of a sequence expression relative to the response's binding list."""
        if depth > 8:
            return (UNKNOWN, "depth")
        expr = strip_casts(expr)
        defs = self.ctx.defs(fn)
        if isinstance(expr, ast.Attribute) and expr.attr == "varbinds":
            return (FAITHFUL, f"{norm(expr)} (the response's binding list)")
        if isinstance(expr, ast.Name):
            name = expr.id
            vals = defs.all_values(name)
            unpack = defs.unpack.get(name, [])
            if unpack and not vals:
                res = (FAITHFUL, "")
                for value, idx, _ in unpack:
                    res = worse(res, self.tuple_element(fn, value, idx, depth + 1))
                return res
            if not vals:
                return (UNKNOWN, f"{name} has no recognised definition")
            res: Tuple[str, str] = (FAITHFUL, "")
            inits = [v for v in vals if self.is_empty_list(v)]
            others = [v for v in vals if not self.is_empty_list(v)]
            if inits:
                res = worse(res, self.appended(fn, name, depth + 1))
            for v in others:
                res = worse(res, self.kind(fn, v, depth + 1))
            return res
        if isinstance(expr, ast.Subscript) and isinstance(expr.slice, ast.Slice):
            if expr.slice.step is not None and not (isinstance(expr.slice.step, ast.Constant) and isinstance(expr.slice.step.value, int) and expr.slice.step.value > 0):
                return (REORDERED, f"{norm(expr)} (stride)")
            return self.kind(fn, expr.value, depth + 1)
        if isinstance(expr, ast.ListComp) and len(expr.generators) == 1:
            gen = expr.generators[0]
            src = self.kind(fn, gen.iter, depth + 1)
            if gen.ifs:
                return worse(src, (FILTERED, f"{norm(expr)[:60]} filters"))
            return src
        if isinstance(expr, ast.Call):
            f = expr.func
            if isinstance(f, ast.Name):
                if f.id in ("list", "tuple") and len(expr.args) == 1:
                    return self.kind(fn, expr.args[0], depth + 1)
                if f.id in ("sorted", "reversed", "set", "frozenset"):
                    return (REORDERED, f"{norm(expr)[:50]}")
                if f.id in ("dict", "OrderedDict"):
                    return (KEYED, f"{norm(expr)[:50]} is a mapping: duplicate OIDs collapse")
            if isinstance(f, ast.Attribute) and f.attr in ("items", "values", "keys"):
                inner = self.mapping_source(fn, f.value, depth + 1)
                return (KEYED, f"{norm(expr)[:60]} iterates a mapping keyed by OID ({inner}): duplicate OIDs collapse")
        if isinstance(expr, ast.Await):
            return (UNKNOWN, f"{norm(expr)[:60]}")
        if isinstance(expr, (ast.Dict, ast.DictComp)):
            return (KEYED, "dictionary")
        return (UNKNOWN, f"{norm(expr)[:60]}")

    def is_empty_list(self, v: ast.AST) -> bool:
        return (isinstance(v, ast.List) and not v.elts) or (isinstance(v, ast.Call) and isinstance(v.func, ast.Name) and v.func.id == "list" and not v.args)

    def mapping_source(self, fn: FuncInfo, expr: ast.AST, depth: int) -> str:
        return norm(expr)

    def appended(self, fn: FuncInfo, name: str, depth: int) -> Tuple[str, str]:
        """A list built by ``name.append(...)`` inside one loop over a source sequence."""
        res: Tuple[str, str] = (FAITHFUL, "")
        found = False
        for n in own_nodes(fn.node):
            if isinstance(n, ast.Call) and isinstance(n.func, ast.Attribute) and n.func.attr in ("append", "extend", "insert") and norm(n.func.value) == name:
                found = True
                if n.func.attr == "insert":
                    return (REORDERED, f"{name}.insert")
                loop = next((a for a in ancestors(n) if isinstance(a, (ast.For, ast.AsyncFor))), None)
                if loop is None:
                    return (UNKNOWN, f"{name}.append outside a loop")
                res = worse(res, self.kind(fn, loop.iter, depth + 1))
                st = stmt_of(n)
                # the append must be unconditional in the loop body, after at most a prefix cut (break)
                if getattr(st, "_parent", None) is not loop:
                    res = worse(res, (FILTERED, f"{name}.append is conditional"))
                for sub in loop.body:
                    for x in ast.walk(sub):
                        if isinstance(x, (ast.Break, ast.Return)):
                            self.cuts.append(f"{fn.qualname}: the loop that builds {name} is left early at line {x.lineno}")
                        if isinstance(x, ast.Continue):
                            res = worse(res, (FILTERED, f"`continue` in the loop that builds {name} drops elements in the middle"))
                # element must be the loop item or a field-wise rebuild of it
                tnames = {t.id for t in ast.walk(loop.target) if isinstance(t, ast.Name)}
                arg = n.args[0] if n.args else None
                anames = {t.id for t in ast.walk(arg) if isinstance(t, ast.Name)} if arg is not None else set()
                if not (anames & tnames):
                    res = worse(res, (UNKNOWN, f"appended element {norm(arg) if arg is not None else None} is not the loop item"))
        if not found:
            return (FAITHFUL, f"{name} stays empty")
        # the list may only grow: removing collected bindings again (row-boundary cuts etc.) loses values the
        # walk relies on (every column before the marker must keep what it received)
        for n in own_nodes(fn.node):
            if isinstance(n, ast.Delete):
                for tgt in n.targets:
                    if isinstance(tgt, ast.Subscript) and norm(tgt.value) == name:
                        res = worse(res, (FILTERED, f"`{norm(n)}` removes bindings that were already collected"))
            if isinstance(n, ast.Call) and isinstance(n.func, ast.Attribute) and norm(n.func.value) == name and n.func.attr in ("pop", "remove", "clear"):
                res = worse(res, (FILTERED, f"`{norm(n)[:40]}` removes bindings that were already collected"))
            if isinstance(n, ast.Assign) and any(isinstance(t, ast.Subscript) and norm(t.value) == name and isinstance(t.slice, ast.Slice) for t in n.targets):
                res = worse(res, (FILTERED, f"`{norm(n)[:40]}` overwrites collected bindings"))
        return res

    def tuple_element(self, fn: FuncInfo, value: ast.AST, idx: int, depth: int) -> Tuple[str, str]:
        """Kind of element *idx* of the tuple returned by an awaited Client method."""
        val = value.value if isinstance(value, ast.Await) else value
        if isinstance(val, ast.Call):
            for callee in self.ctx.r.callees(fn, val):
                if isinstance(callee, FuncInfo) and not callee.module.external:
                    res: Tuple[str, str] = (FAITHFUL, "")
                    rets = [n for n in own_nodes(callee.node) if isinstance(n, ast.Return) and n.value is not None]
                    if not rets:
                        return (UNKNOWN, f"{callee.qualname} returns nothing")
                    for r in rets:
                        if isinstance(r.value, ast.Tuple) and idx < len(r.value.elts):
                            res = worse(res, self.kind(callee, r.value.elts[idx], depth + 1))
                        else:
                            return (UNKNOWN, f"{callee.qualname} does not return a tuple literal")
                    return res
        return (UNKNOWN, f"{norm(value)[:50]}")

    def returned(self, fn: FuncInfo) -> Tuple[str, str]:
        rets = [n for n in own_nodes(fn.node) if isinstance(n, ast.Return) and n.value is not None]
        if not rets:
            return (UNKNOWN, "no return")
        res: Tuple[str, str] = (FAITHFUL, "")
        for r in rets:
            res = worse(res, self.result_kind(fn, r.value))
        return res

    def result_kind(self, fn: FuncInfo, expr: ast.AST) -> Tuple[str, str]:
        expr = strip_casts(expr)
        # a result assembled from the public mapping API:  [..for k, v in <bulk result>.listing.items()]
        return self.kind(fn, expr)


def run(ctx: Ctx, rep: Report) -> None:
    rep.rule("C02-R0", "the bulk walk delegates to the shared walk loop with its own fetcher and yields every item", floor=1)
    rep.rule("C02-R1", "every fetcher returns a faithful (order and multiplicity preserving) prefix of the response's bindings", floor=1)
    rep.rule("C02-R2", "GETBULK responses are refused iff they hold more than N + M*R bindings (RFC 3416)", floor=1)
    rep.rule("C02-R3", "non-repeaters / max-repetitions sent agree with the OID lists, the response split and the caller's bulk size", floor=3)
    rep.rule("C02-R4", "the endOfMibView cut-off is a suffix cut", floor=1)
    rep.rule("C02-R7", "a GETBULK response shortened by the agent (fewer bindings than a whole number of rows, RFC 3416 4.2.3) loses no root", floor=1)
    rep.rule("C02-R6", "the pythonic walk methods hand the caller's roots, bulk size and options to the raw walks one-to-one (shared with C15-R4)", floor=2)
    rep.rule("C02-R5", "the walk loop shared with the GETNEXT walk satisfies C01 R1-R8 (filter, delivery, regrouping, sortedness, continuation, markers, order)", floor=25)
    rep.assumptions += [
        "C01's rules hold for the shared loop (checked by the C01 command; the bulk fetcher is included in its fetcher set)",
        "conformant agents may repeat an OID inside one GETBULK response when adjacent subtrees run into each other",
    ]
    wm = WalkModel(ctx)
    rep.analysed.update({"walk": wm.walk.key, "bulk_fetcher": wm.bulk_fetcher.key})
    check_bulk_fetch(ctx, rep, wm)
    check_bulk_builder(ctx, rep, wm, "C02-R2", "C02-R3")

    # ---------------------------------------------------------------- R5: the shared loop (C01 R1-R8 with the bulk fetcher in the fetcher set)
    from . import c01

    sub = Report(rep.prop, rep.tier)
    c01.check_filter(ctx, sub, wm)
    c01.check_loop(ctx, sub, wm)
    c01.check_group(ctx, sub, wm)
    c01.check_sorted(ctx, sub, wm, "C01-R5")
    c01.check_unfinished(ctx, sub, wm)
    c01.check_markers(ctx, sub, wm)
    c01.check_order(ctx, sub, wm)
    c01.check_end_signals(ctx, sub, wm)
    rep.adopt(sub, "C02-R5")
    rep.adopt_rules(ctx.sub_run("c03", rep), "C02-R5", ["C03-R2", "C03-R3"])
    rep.adopt_rules(ctx.sub_run("c15", rep), "C02-R6", ["C15-R4"], containing="walk")
    check_short_rows(ctx, rep, wm)


def check_short_rows(ctx: Ctx, rep: Report, wm: WalkModel) -> None:
    """
    RFC 3416 4.2.3 lets an agent shorten a GETBULK response "by removing variable bindings from the end", down to a
    response that does not even hold one full row.  No endOfMibView was seen for the roots whose column came back
    empty, so they are not finished: the walk must ask for them again (or refuse the response loudly).  Evaluated as
    the composition fetcher -> regroup -> unfinished on responses of 1 binding for 2 roots and of 3 bindings for 2
    roots at bulk size 2.
    """
    from ..engine.minieval import FuncRef, Instance, OidVal, Unevaluable
    from .fetcheval import fetcher_eval
    from .walkeval import run as eval_run

    fe = fetcher_eval(ctx)
    factory = wm.bulk_factory
    oids = [OidVal((1, 3, 10)), OidVal((1, 3, 20))]
    shapes = {
        "1 binding for 2 requested roots (no full row)": [fe.binding((1, 3, 10, 1), fe.val("a"))],
        "3 bindings for 2 requested roots (one full row and a half)": [fe.binding((1, 3, 10, 1), fe.val("a")), fe.binding((1, 3, 20, 1), fe.val("b")), fe.binding((1, 3, 10, 2), fe.val("c"))],
    }
    site = wm.walk.site()
    for label, resp in shapes.items():
        text = f"GETBULK response shortened by the agent - {label}, no endOfMibView: every root without an endOfMibView is asked for again (or the response is refused)"
        requests: list = []
        ev = fe.evaluator(resp, requests)
        try:
            kind, fetcher = fe.call(ev, factory, [fe.me(), 2])
            if kind == "return" and isinstance(fetcher, Instance) and ctx.r.method(fetcher.cls, "__call__") is not None:
                fetcher = FuncRef(ctx.r.method(fetcher.cls, "__call__"), bound_self=fetcher)
            if kind != "return" or not isinstance(fetcher, FuncRef):
                rep.undecided("C02-R7", site, text, f"bulk fetcher factory not evaluable: {kind} {fetcher!r}"[:160])
                continue
            kind, val = fe.call(ev, fetcher, [list(oids)])
        except Unevaluable as exc:
            rep.undecided("C02-R7", site, text, f"not evaluable: {exc}")
            continue
        if kind == "uneval":
            rep.undecided("C02-R7", site, text, f"not evaluable: {val}")
            continue
        if kind == "raise":
            rep.ok("C02-R7", site, text, f"refused: {val!r}"[:120])
            continue
        k1, grouped = eval_run(ctx, wm.group, [val, list(oids)], {})
        k2, unfinished = eval_run(ctx, wm.unfinished, [grouped], {}) if k1 == "return" else (k1, grouped)
        if "uneval" in (k1, k2):
            rep.undecided("C02-R7", site, text, f"regrouping not evaluable: {grouped if k1 == 'uneval' else unfinished}")
            continue
        if k2 != "return":
            rep.ok("C02-R7", site, text, f"refused: {unfinished!r}"[:120])
            continue
        try:
            continued = [tuple(item)[0] if not isinstance(item, Instance) else item.attrs.get("__items__", [None])[0] for item in unfinished]
        except TypeError:
            continued = []
        lost = [str(o) for o in oids if o not in continued]
        rep.check(not lost, "C02-R7", site, text, f"fetcher hands out {len(val) if isinstance(val, list) else val!r} binding(s); roots continued: {[str(c) for c in continued]}; dropped without an endOfMibView: {lost}", key=f"{wm.walk.key}|short-row-drops-root|{len(resp)}-of-{len(oids)}")


def check_bulk_fetch(ctx: Ctx, rep: Report, wm: WalkModel, r0: str = "C02-R0", r1: str = "C02-R1", r4: str = "C02-R4") -> None:
    """Delegation of the bulk walk to the shared loop (r0), faithfulness of every fetcher's result (r1), suffix cut at the marker (r4)."""
    client = wm.client
    # ---------------------------------------------------------------- R0
    bulkwalk = None
    for meth in client.methods.values():
        for n in own_nodes(meth.node):
            if isinstance(n, ast.Call) and wm.walk in [c for c in ctx.r.callees(meth, n) if isinstance(c, FuncInfo)]:
                b = bind_call_args(n, wm.walk.params, defs=ctx.defs(meth))
                if isinstance(b.get(wm.fetch_param), ast.Call):
                    bulkwalk = (meth, n, b)
    if bulkwalk is None:
        raise AnalysisError("no method hands a bulk fetcher to the walk loop")
    meth, call, b = bulkwalk
    from .c01 import is_order_preserving_of

    mdefs = ctx.defs(meth)
    roots_arg = b.get(wm.roots_param)
    # the caller's roots, possibly through list()/tuple()/sorted() copies (the walk sorts them itself); the
    # parameter may only be re-bound to such a copy of itself
    rebinds = mdefs.all_values(meth.params[1])

    def alternatives(expr: ast.AST, depth: int = 0) -> List[ast.AST]:
        """Values an argument may have at the call: locals followed through all their definitions, conditional
        expressions split; a None alternative is dropped when `if <name> is None: raise` refuses it before the call."""
        expr = strip_casts(expr)
        if depth > 4:
            return [expr]
        if isinstance(expr, ast.IfExp):
            return alternatives(expr.body, depth + 1) + alternatives(expr.orelse, depth + 1)
        if isinstance(expr, ast.Name) and expr.id != meth.params[1]:
            vals = mdefs.all_values(expr.id)
            if not vals:
                return [expr]
            out: List[ast.AST] = []
            for v in vals:
                out += alternatives(v, depth + 1)
            guarded = any(
                isinstance(n, ast.If) and norm(n.test) in (f"{expr.id} is None", f"not {expr.id}") and n.body and isinstance(n.body[-1], ast.Raise) and n.lineno < call.lineno
                for n in own_nodes(meth.node)
            )
            if guarded:
                out = [v for v in out if not (isinstance(v, ast.Constant) and v.value is None)]
            return out
        return [expr]

    alts = alternatives(roots_arg) if roots_arg is not None else []
    roots_ok = bool(alts) and all(is_order_preserving_of(a, meth.params[1]) for a in alts) and all(is_order_preserving_of(v, meth.params[1]) for v in rebinds)
    fac_call = b[wm.fetch_param]
    fac_arg_ok = len(fac_call.args) == 1 and norm(ctx.xexpand(meth, fac_call.args[0], depth=2)) == "bulk_size" and "bulk_size" in meth.params
    rep.check(roots_ok and fac_arg_ok, r0, meth.site(call), f"{meth.name}: walks the caller's roots with a fetcher built from the caller's bulk size", f"{norm(call)[:90]}", key=f"{meth.key}|delegation")
    loops = [n for n in own_nodes(meth.node) if isinstance(n, ast.AsyncFor)]
    ok = False
    if len(loops) == 1:
        loop = loops[0]
        src = loop.iter
        if isinstance(src, ast.Name):
            src = ctx.defs(meth).single(src.id) or src
        body = loop.body
        unpacked = None
        if len(body) == 2 and isinstance(body[0], ast.Assign) and len(body[0].targets) == 1 and isinstance(body[0].targets[0], ast.Tuple) and norm(body[0].value) == norm(loop.target):
            unpacked, body = body[0].targets[0], body[1:]  # for item in walk: oid, value = item; yield ...
        if src is call and len(body) == 1 and isinstance(body[0], ast.Expr) and isinstance(body[0].value, ast.Yield):
            y = body[0].value.value
            tgt_ = unpacked if unpacked is not None else loop.target
            tn = [norm(t) for t in (tgt_.elts if isinstance(tgt_, ast.Tuple) else [tgt_])]
            ok = norm(y) in (tn[0], f"VarBind({', '.join(tn)})") if y is not None else False
    rep.check(ok, r0, meth.site(), f"{meth.name}: yields every item of the shared walk unchanged (field-wise rebuild allowed)", key=f"{meth.key}|yields-all")

    # ---------------------------------------------------------------- R1
    cont = Containers(ctx, client)
    positional = True  # C01-R4 instance exists (checked there)
    from .fetcheval import emit

    decided = emit(ctx, rep, r1, ["multigetnext", "bulk_fetcher"])
    for f in wm.fetchers():
        if ("multigetnext" in decided and f.name == "multigetnext") or ("bulk_fetcher" in decided and f.key == wm.bulk_fetcher.key):
            continue  # decided by evaluation of its contract
        kind, why = cont.returned(f)
        rep.check(
            kind == FAITHFUL,
            r1,
            f.site(),
            f"{f.qualname}: the returned list derives faithfully from the response's binding list",
            f"container kind: {kind}" + (f" - {why}" if why else ""),
            key=f"{f.key}|container-{kind}",
        )

    # ---------------------------------------------------------------- R4
    if "bulk_fetcher" in decided:
        rep.ok(r4, wm.bulk_fetcher.site(), "at an endOfMibView binding the result is cut (suffix cut); bindings are never skipped individually", "decided by the evaluated contract of the bulk fetcher (prefix up to the first endOfMibView)")
        return
    cuts = wm.truncation(wm.bulk_fetcher)
    kinds = sorted({k for _, _, k in cuts})
    rep.check(bool(cuts) and all(k in ("break", "return") for k in kinds), r4, wm.bulk_fetcher.site(), "at an endOfMibView binding the result loop is left (suffix cut); bindings are never skipped individually", f"cut kinds: {kinds}", key=f"{wm.bulk_fetcher.key}|marker-continue")


def check_bulk_builder(ctx: Ctx, rep: Report, wm: WalkModel, r2: str, r3: str) -> None:
    """GETBULK operation: size bound (r2) and request / response-split agreement (r3)."""
    client = wm.client
    bulk_cls = ctx.u.cls("puresnmp.pdu:BulkGetRequest")
    from .fetcheval import emit

    decided = emit(ctx, rep, r3, ["bulkget", "bulk_fetcher"])
    if {"bulkget", "bulk_fetcher"} <= decided:
        rep.ok(r2, ctx.r.method(client, "bulkget").site(), "GETBULK responses are refused iff they hold more than N + M*R bindings (RFC 3416)", "decided by the evaluated contracts of bulkget and the bulk fetcher (every response size around the bound)")
        _bulk_pdu_on_the_wire(ctx, rep, bulk_cls, r3)
        return
    builder = None
    for m in client.methods.values():
        for n in own_nodes(m.node):
            if isinstance(n, ast.Call) and bulk_cls in ctx.r.callees(m, n):
                builder = (m, n)
    if builder is None:
        raise AnalysisError("no Client method builds a BulkGetRequest")
    bm, bcall = builder
    init = bulk_cls.methods["__init__"]
    bb = bind_call_args(bcall, init.params)
    nr_arg, mr_arg = bb.get("non_repeaters"), bb.get("max_repeaters")
    star = next((a.value for a in bcall.args if isinstance(a, ast.Starred)), None)
    defs = ctx.defs(bm)
    cfg = ctx.cfg(bm)
    scalar_p, rep_p, max_p = bm.params[1], bm.params[2], bm.params[3]
    snmp_error = ctx.u.cls("puresnmp.exc:SnmpError")
    if nr_arg is None or mr_arg is None or star is None:
        rep.undecided(r2, bm.site(bcall), "GETBULK request arguments recognised", norm(bcall))
        return

    def atoms_for(s: int, r: int, m: int, c: int):
        def atom(expr: ast.AST) -> Optional[Any]:
            if isinstance(expr, ast.Name):
                if expr.id == max_p:
                    return m
                if expr.id == scalar_p:
                    return None
            if isinstance(expr, ast.Call) and isinstance(expr.func, ast.Name) and expr.func.id == "len" and len(expr.args) == 1:
                a = expr.args[0]
                txt = norm(a)
                if txt == scalar_p:
                    return s
                if txt == rep_p:
                    return r
                if txt.endswith(".varbinds"):
                    return c
            return None

        return atom

    star_exp0 = defs.expand(star)
    concat = concat_kind(star_exp0, scalar_p, rep_p)
    rep.check(
        concat,
        r3,
        bm.site(bcall),
        "the OIDs sent are the scalar OIDs followed by the repeating OIDs, each exactly as often and in the order the caller listed them",
        f"oids = {norm(star_exp0)[:90]}",
        key=f"{bm.key}|oid-list-not-faithful",
    )
    if concat is not True:
        return
    grid_ok = True
    deep = rep.tier == "thorough"
    for s in range(0, 5 if deep else 3):
        for r in range(0, 7 if deep else 4):
            for m in range(0, 8 if deep else 4):
                at0 = atoms_for(s, r, m, 0)
                try:
                    nr = int_eval(defs.expand(nr_arg), at0)
                    mr = int_eval(defs.expand(mr_arg), at0)
                    total = int_eval(ast.Call(ast.Name("len", ast.Load()), [defs.expand(star)], []), at0)
                except Unevaluable as exc:
                    rep.undecided(r2, bm.site(bcall), "request arguments are evaluable", str(exc))
                    return
                n_ = min(nr, total)
                r_ = max(total - n_, 0)
                bound = n_ + mr * r_
                for c in sorted({max(bound - 1, 0), bound, bound + 1, bound + 4}):
                    env = concrete_env(atoms_for(s, r, m, c), defs.expand)
                    outs = simulate(cfg, env)
                    refused = [o for o in outs if o.kind == "raise" and raised_class(ctx, bm, o) is not None and ctx.r.is_subclass(raised_class(ctx, bm, o), snmp_error)]
                    if c > bound:
                        ok = bool(outs) and len(refused) == len(outs)
                        want = "refused with SnmpError"
                    else:
                        ok = bool(outs) and not refused
                        want = "accepted"
                    rep.check(ok, r2, bm.site(), f"scalars={s} repeaters={r} max-repetitions={m}: a response with {c} binding(s) (bound {bound}) is {want}", f"{len(refused)}/{len(outs)} paths raise SnmpError", key=f"{bm.key}|size-bound")
                    grid_ok = grid_ok and ok
                # R3 on the same grid point
                if nr != s or mr != m or total != s + r:
                    rep.violated(r3, bm.site(bcall), "non-repeaters == number of scalar OIDs, max-repetitions == the caller's value, all OIDs are sent", f"scalars={s} repeaters={r} max={m}: sent non_repeaters={nr} max_repetitions={mr} oids={total}", key=f"{bm.key}|request-counters")
                    grid_ok = False
    rep.check(True, r3, bm.site(bcall), "non-repeaters sent == len(scalar OIDs); max-repetitions sent == max_list_size; every OID is sent (grid 3x4x4)", f"non_repeaters={norm(nr_arg)}, max_repeaters={norm(mr_arg)}, oids=*{norm(star)}")
    star_exp = defs.expand(star)
    order_ok = isinstance(star_exp, ast.BinOp) and isinstance(star_exp.op, ast.Add) and scalar_p in norm(star_exp.left) and rep_p in norm(star_exp.right) and rep_p not in norm(star_exp.left)
    rep.check(order_ok, r3, bm.site(bcall), "scalar OIDs are sent before the repeating OIDs", f"oids = {norm(star_exp)}", key=f"{bm.key}|oid-order")
    # split of the response
    splits = []
    for n in own_nodes(bm.node):
        if isinstance(n, ast.Subscript) and isinstance(n.slice, ast.Slice) and norm(n.value).endswith(".varbinds"):
            splits.append(n)
    ok_split = len(splits) == 2
    detail = [norm(x) for x in splits]
    if ok_split:
        for s in range(0, 4):
            at = atoms_for(s, 2, 1, 0)
            vals = []
            for sp in splits:
                lo = int_eval(defs.expand(sp.slice.lower), at) if sp.slice.lower is not None else 0
                hi = int_eval(defs.expand(sp.slice.upper), at) if sp.slice.upper is not None else None
                vals.append((lo, hi))
            vals.sort(key=lambda x: 1 if x[1] is None else 0)
            if not (vals[0] == (0, s) and vals[1] == (s, None)):
                ok_split = False
                detail.append(f"scalars={s}: slices {vals}")
    rep.check(ok_split, r3, bm.site(), "the response is split into [0:non-repeaters] (scalars) and [non-repeaters:] (repetitions)", f"{detail}", key=f"{bm.key}|response-split")
    # the bulk fetcher's own call
    f = wm.bulk_fetcher
    calls = [n for n in own_nodes(f.node) if isinstance(n, ast.Call) and any(isinstance(c, FuncInfo) and c.cls == client for c in ctx.r.callees(f, n))]
    okf = False
    detail = ""
    if len(calls) == 1:
        callee = next(c for c in ctx.r.callees(f, calls[0]) if isinstance(c, FuncInfo))
        fb = bind_call_args(calls[0], callee.params)
        sc, rp, mx = fb.get(callee.params[1]), fb.get(callee.params[2]), fb.get(callee.params[3])
        factory_param = wm.bulk_factory.params[1] if len(wm.bulk_factory.params) > 1 else None
        okf = isinstance(sc, ast.List) and not sc.elts and isinstance(rp, ast.Name) and rp.id == f.params[0] and isinstance(mx, ast.Name) and mx.id == factory_param
        detail = norm(calls[0])
        # if the fetcher calls the public bulkget, its arguments reach the builder unchanged (checked by name binding of bulkget)
    rep.check(okf, r3, f.site(), "the bulk fetcher sends no scalars, its OID list as repeaters and the configured bulk size as max-repetitions", detail, key=f"{f.key}|fetcher-args")

    _bulk_pdu_on_the_wire(ctx, rep, bulk_cls, r3)


def _bulk_pdu_on_the_wire(ctx: Ctx, rep: Report, bulk_cls, r3: str) -> None:
    """The PDU class carries the counters and OIDs to the wire unchanged (whatever their size, duplicates included)."""
    from .c05 import bulk_by_evaluation

    bulk_bytes = bulk_cls.methods.get("__bytes__")
    if bulk_bytes is not None:
        sub = Report(rep.prop, rep.tier)
        if bulk_by_evaluation(ctx, sub, bulk_cls, bulk_bytes):
            rep.adopt(sub, r3)


def concat_kind(expr: ast.AST, scalar_p: str, rep_p: str) -> Optional[bool]:
    """True: list(scalars) + list(repeaters) (or an equivalent faithful concatenation); False: a keyed / reordered / filtered derivation; None: unknown."""
    txt = norm(expr)
    if any(tok in txt for tok in ("dict.fromkeys", "set(", "sorted(", "frozenset(", "reversed(", " if ")):
        return False

    def faithful_of(e: ast.AST, name: str) -> bool:
        e = strip_casts(e)
        if isinstance(e, ast.Name):
            return e.id == name
        if isinstance(e, ast.Call) and isinstance(e.func, ast.Name) and e.func.id in ("list", "tuple") and len(e.args) == 1:
            return faithful_of(e.args[0], name)
        if isinstance(e, ast.BoolOp) and isinstance(e.op, ast.Or) and len(e.values) == 2 and isinstance(e.values[1], (ast.List, ast.Tuple)) and not e.values[1].elts:
            return faithful_of(e.values[0], name)
        return False

    if isinstance(expr, ast.BinOp) and isinstance(expr.op, ast.Add):
        return True if faithful_of(expr.left, scalar_p) and faithful_of(expr.right, rep_p) else (False if faithful_of(expr.left, rep_p) else None)
    if isinstance(expr, (ast.List, ast.Tuple)) and len(expr.elts) == 2 and all(isinstance(e, ast.Starred) for e in expr.elts):
        return True if faithful_of(expr.elts[0].value, scalar_p) and faithful_of(expr.elts[1].value, rep_p) else None
    return None
