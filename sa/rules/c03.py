"""
C03 - walks always terminate and never re-request, whatever the agent answers.

R1  progress guard per fetcher: every function that can be the walk's fetcher
    compares, position by position, each returned OID with the OID it was
    requested from (or the one above it in the same GETBULK column) and raises
    FaultySNMPImplementation when the comparison fails; the check lies on every
    path to the fetcher's return.
R2  strictness: evaluated on the three orderings, the guard raises for
    "equal" and "greater" and passes only for requested < retrieved.
R3  pairing: requested[i] is paired with retrieved[i] (zip of the request list
    with the returned list, or index arithmetic i / i - n over the returned list).
R4  handler coverage: every await of the fetcher in the walk loop lies in a try
    whose FaultySNMPImplementation handler leaves the walk normally in lenient
    mode (no further request) and re-raises otherwise.
R5  the loop variable is renewed from the newest batch on every path to the back
    edge (shared with C01-R3).

Termination argument (premises R1-R5): per root the continuation OID strictly
increases over a finite OID universe, so the number of rounds is bounded by the
number of distinct instances the agent reveals, and an OID already continued
from is never requested again.
"""
from __future__ import annotations

import ast
from typing import Any, Dict, List, Optional, Tuple

from ..engine.context import Ctx
from ..engine.exprs import Unevaluable, eval3, int_eval, norm, strip_not
from ..engine.patterns import cfg_node_of, raised_class, simulate, stmt_of
from ..engine.report import Report
from ..engine.universe import AnalysisError, FuncInfo, ancestors, own_nodes
from .c01 import check_loop
from .walkmodel import WalkModel


def returned_list(ctx: Ctx, fn: FuncInfo) -> Optional[str]:
    rets = [n for n in own_nodes(fn.node) if isinstance(n, ast.Return) and n.value is not None]
    names = {n.value.id for n in rets if isinstance(n.value, ast.Name)}
    if len(rets) >= 1 and len(names) == 1 and all(isinstance(n.value, ast.Name) for n in rets):
        return next(iter(names))
    return None


def request_param(fn: FuncInfo) -> str:
    params = [p for p in fn.params if p != "self"]
    if not params:
        raise AnalysisError(f"{fn.key}: fetcher has no request parameter")
    return params[0]


def run(ctx: Ctx, rep: Report) -> None:
    rep.rule("C03-R1", "every fetcher checks that each returned OID advances beyond the one it was requested from, before returning", floor=1)
    rep.rule("C03-R2", "the progress guard is strict: equal and greater-or-equal orderings raise, only requested < retrieved passes", floor=1)
    rep.rule("C03-R3", "the guard pairs requested[i] with retrieved[i]", floor=1)
    rep.rule("C03-R4", "every fetch of the walk loop is covered: lenient mode ends the walk normally, strict mode re-raises", floor=2)
    rep.rule("C03-R6", "the pythonic walk / table methods forward the error mode and the roots to the raw operations unchanged (shared with C15-R4)", floor=2)
    rep.rule("C03-R5", "the continuation list is renewed on every path to the back edge", floor=2)
    rep.rule("C03-R7", "a root is continued only while its last answer lies inside it (containment by arcs), from that last answer (shared with C01-R6)", floor=1)
    rep.assumptions += [
        "the OID universe the agent reveals is finite",
        "x690 ObjectIdentifier.__lt__ is the lexicographic order on arcs",
    ]
    wm = WalkModel(ctx)
    rep.analysed.update({"walk": wm.walk.key, "fetchers": [f.key for f in wm.fetchers()]})
    rep.extra["termination_argument"] = (
        "R1-R3: every OID a fetcher returns for position i is strictly greater than the OID requested at position i "
        "(and, for GETBULK rows, than the OID above it); R5 + C01-R6: the next request for a root is the last OID "
        "returned for it, hence strictly greater than the previous request for that root; over a finite universe "
        "each root can be continued at most once per distinct instance revealed, and never twice from the same OID; "
        "R4: the only other exits are exceptions, which end the walk."
    )
    from .fetcheval import emit

    decided = emit(ctx, rep, "C03-R1", ["multigetnext", "bulk_fetcher"])
    for f in wm.fetchers():
        if ("multigetnext" in decided and f.name == "multigetnext") or ("bulk_fetcher" in decided and f.key == wm.bulk_fetcher.key):
            for rule, text in (("C03-R2", "the progress guard is strict: an equal or smaller OID raises, only requested < retrieved passes"), ("C03-R3", "the guard pairs requested[i] with retrieved[i] (and every GETBULK row with the row above it)")):
                rep.ok(rule, f.site(), f"{f.qualname}: {text}", "decided by the evaluated contract (every position, equal and smaller OIDs)")
            continue
        check_fetcher(ctx, rep, wm, f)
    check_handlers(ctx, rep, wm)
    check_loop_renewal(ctx, rep, wm)
    rep.adopt_rules(ctx.sub_run("c15", rep), "C03-R6", ["C15-R4"])
    # a root whose last answer left the subtree must not be continued: it would be walked again from an OID another
    # root (or nobody) already continued from
    rep.adopt_rules(ctx.sub_run("c01", rep), "C03-R7", ["C01-R6"])


def check_fetcher(ctx: Ctx, rep: Report, wm: WalkModel, f: FuncInfo) -> None:
    defs = ctx.defs(f)
    cfg = ctx.cfg(f)
    site = f.site()
    req = request_param(f)
    out = returned_list(ctx, f)
    raises = [n for n in own_nodes(f.node) if isinstance(n, ast.Raise) and n.exc is not None and ctx.exc_class(f, n.exc) == wm.faulty]
    guards = []
    for r in raises:
        loop = next((a for a in ancestors(r) if isinstance(a, (ast.For, ast.While))), None)
        test_if = next((a for a in ancestors(r) if isinstance(a, ast.If)), None)
        if loop is not None and test_if is not None and isinstance(loop, ast.For):
            guards.append((r, loop, test_if))
    if not guards:
        rep.violated(
            "C03-R1",
            site,
            f"{f.qualname}: returned OIDs are compared with the requested ones and FaultySNMPImplementation is raised when they do not advance",
            "no such guard in this fetcher: an agent answering with the requested OID, a smaller one or a cycle keeps the walk running forever",
            key=f"{f.key}|no-progress-guard",
        )
        return
    if out is None:
        rep.undecided("C03-R1", site, "the fetcher returns one named list", "return value not a single name")
        return
    for r, loop, test_if in guards:
        # ---- the check lies on every path to the return
        lnode = cfg.node_of(loop)
        ret_nodes = [cfg_node_of(cfg, n) for n in own_nodes(f.node) if isinstance(n, ast.Return)]
        ret_nodes = [n for n in ret_nodes if n is not None]
        dominated = lnode is not None and cfg.must_pass(cfg.entry, ret_nodes, [lnode])
        rep.check(dominated, "C03-R1", f.site(loop), f"{f.qualname}: the progress check runs on every path to the return", key=f"{f.key}|guard-bypassed")
        # ---- roles
        test, _ = strip_not(test_if.test)
        cmp = None
        for n in ast.walk(test_if.test):
            if isinstance(n, ast.Compare) and len(n.ops) == 1 and isinstance(n.ops[0], (ast.Lt, ast.Gt, ast.LtE, ast.GtE)):
                cmp = n
        if cmp is None:
            rep.undecided("C03-R2", f.site(test_if), "progress guard is an ordering comparison", norm(test_if.test))
            continue
        left, right = cmp.left, cmp.comparators[0]
        it = loop.iter
        tgt = loop.target
        retrieved_var = requested_expr_ok = None
        pairing_ok = False
        pairing_detail = ""
        if isinstance(it, ast.Call) and isinstance(it.func, ast.Name) and it.func.id == "zip" and len(it.args) == 2 and isinstance(tgt, ast.Tuple) and len(tgt.elts) == 2:
            a, b = norm(tgt.elts[0]), norm(tgt.elts[1])
            x, y = norm(it.args[0]), norm(it.args[1])
            retrieved_var = b
            requested_name = a
            pairing_ok = x == req and y == out and not defs.all_values(req)
            pairing_detail = f"zip({x}, {y}) with request parameter {req} and returned list {out}"
            if not pairing_ok and y == out:
                # predecessor list: the requested OIDs followed by the OIDs of the result itself -> position i is paired
                # with oids[i] in the first row and with result[i - n].oid below it
                pexp = defs.expand(it.args[0])
                if isinstance(pexp, ast.BinOp) and isinstance(pexp.op, ast.Add):
                    left_ok = norm(pexp.left) in (req, f"list({req})")
                    rhs = pexp.right
                    right_ok = isinstance(rhs, ast.ListComp) and len(rhs.generators) == 1 and not rhs.generators[0].ifs and norm(rhs.generators[0].iter) == out and norm(rhs.elt) == f"{norm(rhs.generators[0].target)}.oid"
                    if left_ok and right_ok:
                        pairing_ok = True
                        pairing_detail = f"zip({req} + [v.oid for v in {out}], {out}): predecessor of position i is the request (first row) or the binding one row above"
                        retrieved_var = b
                        requested_name = a
        elif isinstance(it, ast.Call) and isinstance(it.func, ast.Name) and it.func.id == "enumerate" and len(it.args) == 1 and isinstance(tgt, ast.Tuple) and len(tgt.elts) == 2:
            idx, b = norm(tgt.elts[0]), norm(tgt.elts[1])
            retrieved_var = b
            requested_name = None
            for side in (left, right):
                if isinstance(side, ast.Name) and side.id != b:
                    requested_name = side.id
            pairing_ok, pairing_detail = enumerate_pairing(ctx, f, loop, idx, requested_name, req, out) if norm(it.args[0]) == out else (False, f"enumerates {norm(it.args[0])}, not the returned list {out}")
        else:
            rep.undecided("C03-R3", f.site(loop), "pairing idiom (zip / enumerate) recognised", norm(loop.iter))
            continue
        rep.check(pairing_ok, "C03-R3", f.site(loop), f"{f.qualname}: position i of the request is compared with position i of the result", pairing_detail, key=f"{f.key}|pairing")
        # which side is which
        def role(e: ast.AST) -> Optional[str]:
            t = norm(e)
            if t == f"{retrieved_var}.oid":
                return "retrieved"
            if isinstance(e, ast.Name) and e.id == requested_name:
                return "requested"
            return None

        roles = (role(left), role(right))
        if set(roles) != {"requested", "retrieved"}:
            rep.violated("C03-R2", f.site(test_if), f"{f.qualname}: the guard compares the requested OID with the retrieved OID", f"compares {norm(left)} with {norm(right)}", key=f"{f.key}|guard-operands")
            continue
        # ---- strictness on the three orderings
        for ordering, must_raise in (("requested < retrieved", False), ("requested == retrieved", True), ("requested > retrieved", True)):
            def env(expr: ast.expr, ordering=ordering) -> Optional[bool]:
                if expr is cmp:
                    lt = ordering == "requested < retrieved"
                    eq = ordering == "requested == retrieved"
                    # truth of  left OP right
                    l_is_req = roles[0] == "requested"
                    less = lt if l_is_req else (not lt and not eq)
                    greater = (not lt and not eq) if l_is_req else lt
                    op = cmp.ops[0]
                    if isinstance(op, ast.Lt):
                        return less
                    if isinstance(op, ast.Gt):
                        return greater
                    if isinstance(op, ast.LtE):
                        return less or eq
                    if isinstance(op, ast.GtE):
                        return greater or eq
                return None

            val = eval3(test_if.test, env)
            raises_here = None if val is None else (val if any(s is r or r in list(ast.walk(s)) for s in test_if.body) else not val)
            rep.check(
                None if raises_here is None else raises_here == must_raise,
                "C03-R2",
                f.site(test_if),
                f"{f.qualname}: ordering {ordering} -> {'raises FaultySNMPImplementation' if must_raise else 'accepted'}",
                f"guard `{norm(test_if.test)}` evaluates to {val}",
                key=f"{f.key}|guard-strictness",
            )
    rep.ok("C03-R1", site, f"{f.qualname}: has a progress guard", "")


def enumerate_pairing(ctx: Ctx, f: FuncInfo, loop: ast.For, idx: str, requested: Optional[str], req: str, out: str) -> Tuple[bool, str]:
    """requested = REQ[i] for the first row, OUT[i - n].oid below it, n = len(REQ)."""
    if requested is None:
        return False, "requested side not a local name"
    defs = ctx.defs(f)
    # definitions of `requested` inside the loop with their guarding tests
    cases: List[Tuple[Optional[ast.expr], bool, ast.expr]] = []
    for st in loop.body:
        if isinstance(st, ast.If):
            for branch, pol in ((st.body, True), (st.orelse, False)):
                for sub in branch:
                    if isinstance(sub, ast.Assign) and any(isinstance(t, ast.Name) and t.id == requested for t in sub.targets):
                        cases.append((st.test, pol, sub.value))
        elif isinstance(st, ast.Assign) and any(isinstance(t, ast.Name) and t.id == requested for t in st.targets):
            if isinstance(st.value, ast.IfExp):
                cases.append((st.value.test, True, st.value.body))
                cases.append((st.value.test, False, st.value.orelse))
            else:
                cases.append((None, True, st.value))
    if not cases:
        return False, f"no definition of {requested} inside the loop"
    for n_req in (1, 2, 3):
        for i in range(0, 8):
            def atoms(expr: ast.AST, i=i, n_req=n_req):
                if isinstance(expr, ast.Name) and expr.id == idx:
                    return i
                if isinstance(expr, ast.Call) and isinstance(expr.func, ast.Name) and expr.func.id == "len" and len(expr.args) == 1 and norm(expr.args[0]) == req:
                    return n_req
                return None
            chosen = None
            for test, pol, value in cases:
                if test is None:
                    chosen = value
                    break
                try:
                    if bool(int_eval(defs.expand(test), atoms)) == pol:
                        chosen = value
                        break
                except Unevaluable:
                    return False, f"cannot evaluate {norm(test)}"
            if chosen is None:
                return False, f"no case for i={i}, n={n_req}"
            # chosen must be REQ[i] (first row) or OUT[i-n].oid (later rows)
            expect_first = i < n_req
            v = chosen
            if expect_first:
                ok = isinstance(v, ast.Subscript) and norm(v.value) == req
                want = i
                sub = v
            else:
                ok = isinstance(v, ast.Attribute) and v.attr == "oid" and isinstance(v.value, ast.Subscript) and norm(v.value.value) == out
                want = i - n_req
                sub = v.value if ok else None
            if not ok:
                return False, f"i={i}, n={n_req}: predecessor is {norm(v)}"
            try:
                got = int_eval(defs.expand(sub.slice), atoms)
            except Unevaluable:
                return False, f"cannot evaluate index {norm(sub.slice)}"
            if got != want:
                return False, f"i={i}, n={n_req}: predecessor index {got}, expected {want}"
    return True, f"{requested} = {req}[i] for the first row and {out}[i - len({req})].oid below it"


def check_handlers(ctx: Ctx, rep: Report, wm: WalkModel) -> None:
    from ..engine.cfg import enclosing_tries

    w = wm.walk
    cfg = ctx.cfg(w)
    errors_param = "errors" if "errors" in w.params else None
    fetch_nodes = [cfg_node_of(cfg, fc) for fc in wm.fetch_calls]
    for fc in wm.fetch_calls:
        site = w.site(fc)
        handler = None
        faulty_expr = ast.Name(wm.faulty.name, ast.Load())
        for tr, part in enclosing_tries(fc, w.node):
            if part != "body":
                continue
            for h in tr.handlers:
                if h.type is not None and ctx.r.resolve_class(w.module, h.type) == wm.faulty:
                    handler = h
                    break
                if ctx.exc_matches(w, faulty_expr, h.type):
                    handler = h
                    break
            if handler:
                break
        if handler is None:
            rep.violated("C03-R4", site, "the fetch is covered by a handler for FaultySNMPImplementation", "no enclosing try/except: in lenient mode the walk raises instead of ending normally", key=f"{w.key}|fetch-uncovered|{'first' if not any(isinstance(a, ast.While) for a in ancestors(fc)) else 'continuation'}")
            continue
        hnode = cfg.node_of(handler)

        def env_for(lenient: bool):
            def env(expr: ast.expr) -> Optional[bool]:
                if isinstance(expr, ast.Compare) and len(expr.ops) == 1 and errors_param in (norm(expr.left), norm(expr.comparators[0])):
                    other = expr.comparators[0] if norm(expr.left) == errors_param else expr.left
                    try:
                        val = ctx.r.const(w.module, other)
                    except Exception:  # pylint: disable=broad-except
                        return None
                    is_warn = val == "warn"
                    if isinstance(expr.ops[0], ast.Eq):
                        return lenient if is_warn else (not lenient)
                    if isinstance(expr.ops[0], ast.NotEq):
                        return (not lenient) if is_warn else lenient
                return None

            return env

        wdefs = ctx.defs(w)
        outs = simulate(cfg, env_for(True), start=hnode, expand=wdefs.expand)
        fetch_ids = {n.id for n in fetch_nodes if n is not None}
        ok = bool(outs) and all(o.kind in ("return", "fallthrough") and not any(t.id in fetch_ids for t in o.trail) and not any(isinstance(t.ast, ast.Expr) and isinstance(t.ast.value, ast.Yield) for t in o.trail) for o in outs)
        rep.check(ok, "C03-R4", w.site(handler), "lenient mode: the handler ends the walk normally without another request", f"{outs}", key=f"{w.key}|lenient-continues")
        outs = simulate(cfg, env_for(False), start=hnode, expand=wdefs.expand)
        ok = bool(outs) and all(o.kind == "raise" for o in outs)
        rep.check(ok, "C03-R4", w.site(handler), "strict mode: the handler re-raises FaultySNMPImplementation", f"{outs}", key=f"{w.key}|strict-swallowed")


def check_loop_renewal(ctx: Ctx, rep: Report, wm: WalkModel) -> None:
    # the continuation point of a root is taken from *its* column of the response: a regrouping with the wrong
    # stride hands one root the progress of another and OIDs are requested again (shared with C01-R4)
    from .c01 import check_group

    gsub = Report(rep.prop, rep.tier)
    check_group(ctx, gsub, wm)
    rep.adopt(gsub, "C03-R5")
    sub = Report(rep.prop, rep.tier)
    check_loop(ctx, sub, wm, r3="C03-R5", r6="C03-R5")
    for ob in sub.obligations:
        if "recomputed" in ob.text or "loop condition" in ob.text or "next request" in ob.text or "continuation is a" in ob.text:
            rep.obligations.append(ob)
