"""
C04 - GET / GETNEXT / SET / GETBULK results are exactly the agent's answers, in order.

R1  request construction: each operation builds the PDU class of its kind with
    one binding per requested OID, in the caller's order, bound to Null() - or to
    the caller's typed value for SET after the isinstance refusal; the single
    variants delegate with a one-element request.
R2  count checks: get / get-next / set refuse (SnmpError) exactly the responses
    whose number of bindings differs from the number requested (orderings fewer /
    equal / more on a grid); get-bulk is C02-R2.
R3  positional extraction: results derive faithfully from the response list.
R4  established length before a constant subscript on a result list.
R5  missing-object detection on the *value* of the returned binding, for both
    noSuchObject and noSuchInstance, raising NoSuchOID for the requested OID.
R6  a public operation taking a caller-ordered OID list must not lose positions
    (truncation at endOfMibView is only sound for ascending requests).
"""
from __future__ import annotations

import ast
from typing import Any, Dict, List, Optional, Tuple

from ..engine.context import Ctx, bind_call_args, dataclass_fields
from ..engine.exprs import implied, int_eval, norm, strip_casts, Unevaluable
from ..engine.patterns import cfg_node_of, raised_class, simulate, stmt_of
from ..engine.report import Report
from ..engine.universe import AnalysisError, ClassInfo, FuncInfo, ancestors, own_nodes, parent_of
from .c02 import FAITHFUL, Containers, check_bulk_builder
from .common import concrete_env
from .walkmodel import WalkModel

OPS = {"multiget": "GetRequest", "multigetnext": "GetNextRequest", "multiset": "SetRequest"}
SINGLE = {"get": "multiget", "getnext": "multigetnext", "set": "multiset"}


def run(ctx: Ctx, rep: Report) -> None:
    rep.rule("C04-R1", "requests carry the PDU class of the operation and one binding per requested OID in the caller's order", floor=3)
    rep.rule("C04-R2", "a response with a different number of bindings than requested is refused with SnmpError, all others are accepted", floor=2)
    rep.rule("C04-R3", "results are extracted positionally and faithfully from the response", floor=2)
    rep.rule("C04-R4", "a constant subscript on a result list is preceded by an established length", floor=2)
    rep.rule("C04-R5", "a missing object (noSuchObject / noSuchInstance value) raises NoSuchOID for the requested OID", floor=3)
    rep.rule("C04-R6", "operations taking a caller-ordered OID list keep one result position per requested OID", floor=1)
    rep.rule("C04-R11", "the value handed out is the one the agent sent: types created by the decoder without an argument decode their octets on access (shared with C17-R7)", floor=1)
    rep.rule("C04-R10", "a response with a non-zero error-status never reaches the caller as data: it raises, whatever error-index and bindings it carries (shared with C08-R1/R3/R4)", floor=2)
    rep.rule("C04-R9", "the pythonic operations hand OIDs, values and options to the raw operations one-to-one (shared with C15-R4)", floor=5)
    rep.rule("C04-R8", "get-next hands out every lexicographic successor: the progress guard passes requested < retrieved, position by position (shared with C03-R2/R3)", floor=2)
    rep.rule("C04-R7", "get-bulk: size bound, OID list, counters and response split agree (shared with C02-R2/R3)", floor=6)
    rep.assumptions += ["the response PDU's binding list is what the agent sent (C06)", "request-id handling is C07, error-status handling is C08, GETBULK bound is C02"]
    client = ctx.client()
    send = ctx.send_method()
    pdu_param, id_param = ctx.send_signature(send)  # type: ignore[misc]
    content_cls = ctx.u.cls("puresnmp.pdu:PDUContent")
    vb_cls = ctx.u.cls("puresnmp.varbind:VarBind")
    snmp_error = ctx.u.cls("puresnmp.exc:SnmpError")
    cont = Containers(ctx, client)

    from .fetcheval import emit, fetcher_eval

    decided = emit(ctx, rep, "C04-R3", ["multigetnext", "multiget", "multiset"])
    for name, want_cls in OPS.items():
        if name in decided:
            for rule, text in (("C04-R1", f"{name} sends a {want_cls} with one (OID, NULL) binding per requested OID in the caller's order"), ("C04-R2", f"{name}: a response with a different number of bindings than requested is refused with SnmpError, all others are accepted")):
                rep.ok(rule, client.methods[name].site(), text, "decided by the evaluated contract")
            continue
        meth = client.methods.get(name)
        if meth is None:
            rep.undecided("C04-R1", f"{client.module.path} (Client)", f"operation {name} exists", "method missing")
            continue
        defs = ctx.defs(meth)
        req_param = meth.params[1]
        sends = [n for n in own_nodes(meth.node) if isinstance(n, ast.Call) and send in [c for c in ctx.r.callees(meth, n) if isinstance(c, FuncInfo)]]
        if len(sends) != 1:
            rep.undecided("C04-R1", meth.site(), f"{name}: exactly one exchange", f"{len(sends)} sends")
            continue
        sb = bind_call_args(sends[0], send.params)
        pdu_expr = defs.expand(sb[pdu_param], depth=1) if isinstance(sb[pdu_param], ast.Name) else sb[pdu_param]
        ok_cls = isinstance(pdu_expr, ast.Call) and ctx.r.resolve_class(meth.module, pdu_expr.func) is not None and ctx.r.resolve_class(meth.module, pdu_expr.func).name == want_cls
        rep.check(ok_cls, "C04-R1", meth.site(sends[0]), f"{name} sends a {want_cls}", f"{norm(pdu_expr)[:70]}", key=f"{meth.key}|pdu-class")
        # bindings
        binds = None
        if isinstance(pdu_expr, ast.Call) and pdu_expr.args:
            inner = strip_casts(pdu_expr.args[0])
            if isinstance(inner, ast.Name):
                inner = defs.single(inner.id) or inner
            if isinstance(inner, ast.Call) and ctx.r.resolve_class(meth.module, inner.func) == content_cls:
                cb = bind_call_args(inner, dataclass_fields(content_cls), skip_self=False)
                binds = cb.get("varbinds")
                extra = [k for k in cb if k in ("error_status", "error_index")]
                rep.check(not extra, "C04-R1", meth.site(inner), f"{name}: error-status and error-index are left at their zero defaults", f"{extra}", key=f"{meth.key}|error-fields")
        bexp = defs.expand(binds) if binds is not None else None
        ok_b = False
        detail = norm(bexp) if bexp is not None else "bindings not found"
        if isinstance(bexp, ast.ListComp) and len(bexp.generators) == 1 and not bexp.generators[0].ifs:
            gen = bexp.generators[0]
            elt = bexp.elt
            if isinstance(elt, ast.Call) and ctx.r.resolve_class(meth.module, elt.func) == vb_cls and len(elt.args) == 2:
                if name == "multiset":
                    ok_b = norm(gen.iter) == f"{req_param}.items()" and isinstance(gen.target, ast.Tuple) and [norm(a) for a in elt.args] == [norm(t) for t in gen.target.elts]
                else:
                    ok_b = norm(gen.iter) == req_param and norm(elt.args[0]) == norm(gen.target) and norm(elt.args[1]) == "Null()"
        rep.check(ok_b, "C04-R1", meth.site(), f"{name}: one binding per requested OID, in the caller's order, bound to {'the typed value supplied' if name == 'multiset' else 'NULL'}", detail[:100], key=f"{meth.key}|bindings")
        if name == "multiset":
            # refusal of untyped values before anything is sent
            cfg = ctx.cfg(meth)
            snode = cfg_node_of(cfg, sends[0])
            guards = [n for n in cfg.nodes if n.kind == "test" and "isinstance" in norm(n.ast) and ".values()" in norm(n.ast)]
            okg = False
            for gnode in guards:
                raising = [cfg.nodes[nid] for nid, lab in cfg.succ[gnode.id] if lab is True]
                okg = bool(raising) and snode is not None and cfg.must_pass(cfg.entry, [snode], [gnode]) and any(isinstance(cfg.nodes[t].ast, ast.Raise) for t in cfg.reachable(raising[0]) if cfg.nodes[t].ast is not None) and "any(" in norm(gnode.ast) and "not isinstance" in norm(gnode.ast)
            if not okg:
                # the same refusal inside the loop that builds the bindings: `for .. in mappings.items(): if not isinstance(v, T): raise`
                for loop in [n for n in own_nodes(meth.node) if isinstance(n, ast.For) and norm(n.iter) in (f"{req_param}.items()", f"{req_param}.values()")]:
                    tnames = {n.id for n in ast.walk(loop.target) if isinstance(n, ast.Name)}
                    for st_ in loop.body:
                        if isinstance(st_, ast.If) and not st_.orelse and isinstance(st_.test, ast.UnaryOp) and isinstance(st_.test.op, ast.Not) and isinstance(st_.test.operand, ast.Call) and norm(st_.test.operand.func) == "isinstance" and isinstance(st_.test.operand.args[0], ast.Name) and st_.test.operand.args[0].id in tnames and st_.body and isinstance(st_.body[-1], ast.Raise):
                            lnode = cfg_node_of(cfg, loop)
                            okg = lnode is not None and snode is not None and cfg.must_pass(cfg.entry, [snode], [lnode])
            rep.check(okg, "C04-R1", meth.site(), "multiset refuses values that are not x690 typed before building the request", key=f"{meth.key}|untyped-value")

        # ------------------------------------------------------------ R2
        cfg = ctx.cfg(meth)
        res_names = set()
        st = stmt_of(sends[0])
        if isinstance(st, ast.Assign):
            res_names = {n.id for t in st.targets for n in ast.walk(t) if isinstance(n, ast.Name)}

        request_item_names = {n.id for loop in own_nodes(meth.node) if isinstance(loop, ast.For) and norm(loop.iter) in (f"{req_param}.items()", f"{req_param}.values()") for n in ast.walk(loop.target) if isinstance(n, ast.Name)}

        def atoms_for(req_len: int, count: int):
            def atom(expr: ast.AST) -> Optional[Any]:
                if isinstance(expr, ast.Call) and isinstance(expr.func, ast.Name) and expr.func.id == "len" and len(expr.args) == 1:
                    a = expr.args[0]
                    if norm(a) == req_param:
                        return req_len
                    exp = defs.expand(a, stop=res_names)
                    if any(isinstance(n, ast.Name) and n.id in res_names for n in ast.walk(exp)):
                        return count
                return None

            return atom

        for req_len in ((1, 2, 3, 4, 5, 8, 16) if rep.tier == "thorough" else (1, 2, 3)):
            for count in ((0, req_len - 1, req_len, req_len + 1, 2 * req_len + 1) if rep.tier == "thorough" else (req_len - 1, req_len, req_len + 1)):
                env0 = concrete_env(atoms_for(req_len, count), lambda e: defs.expand(e, stop=res_names))

                def env(expr: ast.expr) -> Optional[bool]:
                    if isinstance(expr, ast.Call) and isinstance(expr.func, ast.Name) and expr.func.id == "any":
                        return False  # all SET values are typed in this scenario
                    if isinstance(expr, ast.Call) and isinstance(expr.func, ast.Name) and expr.func.id == "isinstance" and expr.args and isinstance(expr.args[0], ast.Name) and expr.args[0].id in request_item_names:
                        # ... also when they are tested one by one in the loop over the request (and the keys are
                        # OIDs, not builtin values)
                        return not (len(expr.args) == 2 and all(isinstance(c, ast.Name) and c.id in ("str", "bytes", "int", "float") for c in (expr.args[1].elts if isinstance(expr.args[1], ast.Tuple) else [expr.args[1]])))
                    return env0(expr)

                outs = simulate(cfg, env)
                refused = [o for o in outs if o.kind == "raise" and raised_class(ctx, meth, o) is not None and ctx.r.is_subclass(raised_class(ctx, meth, o), snmp_error)]
                if count != req_len:
                    ok = bool(outs) and len(refused) == len(outs)
                    want = "refused with SnmpError"
                else:
                    faulty = ctx.u.cls("puresnmp.exc:FaultySNMPImplementation")
                    refused = [o for o in refused if raised_class(ctx, meth, o) != faulty]  # the progress guard (C03) is a different refusal
                    ok = bool(outs) and not refused and any(o.kind == "return" for o in outs)
                    want = "accepted"
                rep.check(ok, "C04-R2", meth.site(), f"{name}: {req_len} requested, {count} binding(s) in the response -> {want}", f"{len(refused)}/{len(outs)} paths raise SnmpError", key=f"{meth.key}|count-check")

        # ------------------------------------------------------------ R3
        if name == "multiget":
            kind, why = cont.returned(meth)
            rets = [n for n in own_nodes(meth.node) if isinstance(n, ast.Return) and n.value is not None]
            picks_value = False
            for r in rets:
                exp = defs.expand(r.value)
                if isinstance(exp, ast.ListComp) and isinstance(exp.generators[0].target, ast.Tuple) and len(exp.generators[0].target.elts) == 2:
                    picks_value = norm(exp.elt) == norm(exp.generators[0].target.elts[1])
                elif isinstance(exp, ast.ListComp) and norm(exp.elt) in (f"{norm(exp.generators[0].target)}.value", f"{norm(exp.generators[0].target)}[1]"):
                    picks_value = True
            rep.check(kind == FAITHFUL and picks_value, "C04-R3", meth.site(), "multiget returns the value of every response binding, in response order", f"container kind {kind} {why}", key=f"{meth.key}|extraction")
        elif name == "multigetnext":
            kind, why = cont.returned(meth)
            rep.check(kind == FAITHFUL, "C04-R3", meth.site(), "multigetnext returns the response bindings in response order", f"container kind {kind} {why}", key=f"{meth.key}|extraction")
        else:
            rets = [n for n in own_nodes(meth.node) if isinstance(n, ast.Return) and n.value is not None]
            ok = bool(rets) and all(norm(defs.expand(r.value)).startswith(("dict(", "OrderedDict(")) and norm(defs.expand(r.value)).endswith(".value.varbinds)") for r in rets)
            rep.check(ok, "C04-R3", meth.site(), "multiset returns the mapping of exactly the bindings the agent confirmed", f"{[norm(defs.expand(r.value))[:60] for r in rets]}", key=f"{meth.key}|extraction")

    # ---------------------------------------------------------------- single variants: R1 delegation, R4, R5
    no_such = [ctx.u.cls("puresnmp.pdu:NoSuchObject"), ctx.u.cls("puresnmp.pdu:NoSuchInstance")]
    nso = ctx.u.cls("puresnmp.exc:NoSuchOID")
    for name, multi in SINGLE.items():
        meth = client.methods.get(name)
        target = client.methods.get(multi)
        if meth is None or target is None:
            rep.undecided("C04-R1", f"{client.module.path} (Client)", f"operation {name} exists", "missing")
            continue
        defs = ctx.defs(meth)
        calls = [n for n in own_nodes(meth.node) if isinstance(n, ast.Call) and target in [c for c in ctx.r.callees(meth, n) if isinstance(c, FuncInfo)]]
        oid_param = meth.params[1]
        ok = len(calls) == 1
        if ok:
            arg = calls[0].args[0] if calls[0].args else None
            if name == "set":
                ok = isinstance(arg, ast.Dict) and len(arg.keys) == 1 and norm(arg.keys[0]) == oid_param and norm(defs.expand(arg.values[0])) in (meth.params[2], f"cast(Type[Any], {meth.params[2]})") or (isinstance(arg, ast.Dict) and len(arg.keys) == 1 and norm(arg.keys[0]) == oid_param and meth.params[2] in norm(defs.expand(arg.values[0])))
            else:
                ok = isinstance(arg, ast.List) and len(arg.elts) == 1 and norm(arg.elts[0]) == oid_param
        rep.check(ok, "C04-R1", meth.site(), f"{name} delegates to {multi} with exactly the caller's OID{' and value' if name == 'set' else ''}", f"{[norm(c) for c in calls]}", key=f"{meth.key}|delegation")
        if not calls:
            continue
        st = stmt_of(calls[0])
        res = st.targets[0].id if isinstance(st, ast.Assign) and isinstance(st.targets[0], ast.Name) else None
        if res is None:
            rep.undecided("C04-R4", meth.site(), f"{name}: result bound to a name", "")
            continue
        if name == "set":
            rets = [n for n in own_nodes(meth.node) if isinstance(n, ast.Return) and n.value is not None]
            ok = bool(rets) and all(norm(r.value) == f"{res}[{oid_param}]" for r in rets)
            rep.check(ok, "C04-R3", meth.site(), "set returns the value the agent confirmed for the OID that was set", f"{[norm(r.value) for r in rets]}", key=f"{meth.key}|extraction")
            continue
        exact = exact_length_summary(ctx, target)
        if not exact and target.name == "multiget":
            # the evaluated contract of multiget says the same: n values for n requested positions, or an exception
            verdicts = fetcher_eval(ctx).results.get("multiget")  # type: ignore[attr-defined]
            exact = bool(verdicts) and all(v[0] for v in verdicts)
        subs = [n for n in own_nodes(meth.node) if isinstance(n, ast.Subscript) and isinstance(n.value, ast.Name) and n.value.id == res and isinstance(n.slice, ast.Constant)]
        for sub in subs:
            if exact and sub.slice.value == 0:
                rep.ok("C04-R4", meth.site(sub), f"{name}: `{norm(sub)}` is safe", f"{multi} returns exactly one item per requested OID or raises")
                continue
            okn = nonempty_established(ctx, meth, sub, res)
            rep.check(okn, "C04-R4", meth.site(sub), f"{name}: `{norm(sub)}` is only evaluated after the list was found non-empty ({multi} may return fewer items than requested: it stops at endOfMibView)", "the list can be empty here (agent answered endOfMibView): IndexError instead of NoSuchOID", key=f"{meth.key}|unchecked-subscript")
        # R5
        kinds_elem = elem_kind(ctx, target)
        tests = [n for n in own_nodes(meth.node) if isinstance(n, ast.Call) and isinstance(n.func, ast.Name) and n.func.id == "isinstance" and len(n.args) == 2]
        found = False
        for t in tests:
            classes = t.args[1].elts if isinstance(t.args[1], ast.Tuple) else [t.args[1]]
            resolved = [ctx.r.resolve_class(meth.module, c) for c in classes]
            if not any(c in no_such for c in resolved):
                continue
            found = True
            operand = strip_casts(t.args[0])
            okind = None
            if isinstance(operand, ast.Subscript) and norm(operand.value) == res:
                okind = kinds_elem
            elif isinstance(operand, ast.Attribute) and operand.attr == "value" and isinstance(operand.value, ast.Subscript) and norm(operand.value.value) == res:
                okind = "value" if kinds_elem == "varbind" else "other"
            rep.check(okind == "value", "C04-R5", meth.site(t), f"{name}: the noSuchObject / noSuchInstance test looks at the value of the returned binding", f"operand `{norm(operand)}` is a {okind} ({multi} returns a list of {kinds_elem}s): the test can never match" if okind != "value" else "", key=f"{meth.key}|marker-test-operand")
            rep.check(all(c in resolved for c in no_such), "C04-R5", meth.site(t), f"{name}: both noSuchObject and noSuchInstance are recognised", f"{[c.name if c else None for c in resolved]}", key=f"{meth.key}|marker-classes")
            # raises NoSuchOID(oid) when the test holds
            cfg = ctx.cfg(meth)

            def env(expr: ast.expr, t=t) -> Optional[bool]:
                if expr is t:
                    return True
                if isinstance(expr, ast.UnaryOp) and isinstance(expr.op, ast.Not) and isinstance(expr.operand, ast.Name) and expr.operand.id == res:
                    return False
                return None

            outs = simulate(cfg, env)
            okr = bool(outs)
            for o in outs:
                cls = raised_class(ctx, meth, o)
                stmt = o.stmt
                arg_ok = isinstance(stmt, ast.Raise) and isinstance(stmt.exc, ast.Call) and stmt.exc.args and norm(stmt.exc.args[0]) == oid_param
                okr = okr and o.kind == "raise" and cls == nso and arg_ok
            rep.check(okr, "C04-R5", meth.site(t), f"{name}: a missing object raises NoSuchOID(<requested oid>) on every path", f"{outs}", key=f"{meth.key}|missing-object-returned")
        if not found:
            rep.violated("C04-R5", meth.site(), f"{name}: missing objects are detected", "no isinstance test against NoSuchObject / NoSuchInstance", key=f"{meth.key}|no-marker-test")

    # ---------------------------------------------------------------- R6
    wm = WalkModel(ctx)
    check_bulk_builder(ctx, rep, wm, "C04-R7", "C04-R7")
    check_bulkget_result(ctx, rep, client)
    rep.adopt_rules(ctx.sub_run("c17", rep), "C04-R11", ["C17-R7"])
    # ... and the pythonic view of it is its pythonize(), zero / empty values included
    rep.adopt_rules(ctx.sub_run("c15", rep), "C04-R11", ["C15-R1"], containing="from_raw")
    rep.adopt_rules(ctx.sub_run("c03", rep), "C04-R8", ["C03-R2", "C03-R3"])
    rep.adopt_rules(ctx.sub_run("c15", rep), "C04-R9", ["C15-R4"])
    rep.adopt_rules(ctx.sub_run("c12", rep), "C04-R9", ["C12-R4"], containing="only in Report")
    # over SNMPv1 a missing object is signalled by error-status noSuchName: construct() has to map it to NoSuchOID
    # an error response is never handed out as the agent's values (the status field decides, not the index)
    rep.adopt_rules(ctx.sub_run("c08", rep), "C04-R10", ["C08-R1", "C08-R3", "C08-R4"])
    rep.adopt_rules(ctx.sub_run("c08", rep), "C04-R5", ["C08-R2"], containing="noSuchName")
    rep.adopt_rules(ctx.sub_run("c08", rep), "C04-R5", ["C08-R2"], containing="builds NoSuchOID")
    rep.adopt_rules(ctx.sub_run("c08", rep), "C04-R5", ["C08-R2"], containing="direct* subclass")
    for name in ("multigetnext", "multiget"):
        meth = client.methods.get(name)
        if meth is None:
            continue
        if name == "multigetnext" and "multigetnext" in decided:
            keeps = fetcher_eval(ctx).multigetnext_keeps_positions()
            if keeps is not None:
                rep.check(
                    keeps,
                    "C04-R6",
                    meth.site(),
                    f"{name}: every requested OID keeps its result position (the result is cut at the first endOfMibView although the caller's list need not be ascending)",
                    "multigetnext([<oid at the end of the view>, <oid with a successor>]) returns [] : the successor of the second OID is dropped",
                    key=f"{meth.key}|truncates-caller-ordered-list",
                )
                continue
        cuts = [(o, s, k) for o, s, k in wm.truncation(meth, depth=9) if o == meth]
        site = meth.site(cuts[0][1]) if cuts else meth.site()
        if not cuts:
            rep.ok("C04-R6", site, f"{name}: returns one result per response binding", "no truncation")
            continue
        sorted_first = any(isinstance(n, ast.Call) and isinstance(n.func, ast.Name) and n.func.id == "sorted" for n in own_nodes(meth.node))
        rep.check(
            sorted_first,
            "C04-R6",
            site,
            f"{name}: every requested OID keeps its result position (the result is cut at the first endOfMibView although the caller's list need not be ascending)",
            "multigetnext([<oid at the end of the view>, <oid with a successor>]) returns [] : the successor of the second OID is dropped",
            key=f"{meth.key}|truncates-caller-ordered-list",
        )


def exact_length_summary(ctx: Ctx, fn: FuncInfo) -> bool:
    """fn returns OUT and raises unless len(OUT) == len(<request parameter>)."""
    defs = ctx.defs(fn)
    rets = [n for n in own_nodes(fn.node) if isinstance(n, ast.Return) and isinstance(n.value, ast.Name)]
    if not rets:
        return False
    out = rets[0].value.id
    req = fn.params[1]
    for n in own_nodes(fn.node):
        if isinstance(n, ast.If) and any(isinstance(s, ast.Raise) for s in n.body):
            t = defs.expand(n.test, stop=[out])
            if isinstance(t, ast.Compare) and len(t.ops) == 1 and isinstance(t.ops[0], ast.NotEq):
                sides = {norm(t.left), norm(t.comparators[0])}
                if sides == {f"len({out})", f"len({req})"}:
                    # no mutation of OUT after the check
                    later = [c for c in own_nodes(fn.node) if isinstance(c, ast.Call) and isinstance(c.func, ast.Attribute) and norm(c.func.value) == out and c.func.attr in ("append", "pop", "remove", "clear", "extend") and c.lineno > n.lineno]
                    return not later
    return False


def elem_kind(ctx: Ctx, fn: FuncInfo) -> str:
    ann = getattr(fn.node, "returns", None)
    txt = norm(ann) if ann is not None else ""
    if "VarBind" in txt:
        return "varbind"
    if "Type[" in txt or "X690Type" in txt:
        return "value"
    return "other"


def nonempty_established(ctx: Ctx, fn: FuncInfo, sub: ast.Subscript, res: str) -> bool:
    # (a) short circuit:  not res or <... res[0] ...>
    cur: ast.AST = sub
    par = parent_of(cur)
    while par is not None and not isinstance(par, ast.stmt):
        if isinstance(par, ast.BoolOp):
            idx = next(i for i, v in enumerate(par.values) if v is cur or cur in list(ast.walk(v)))
            before = par.values[:idx]
            for b in before:
                if isinstance(par.op, ast.Or) and norm(b) in (f"not {res}", f"len({res}) == 0", f"len({res}) < 1"):
                    return True
                if isinstance(par.op, ast.And) and norm(b) in (res, f"len({res}) > 0", f"len({res}) >= 1"):
                    return True
        cur = par
        par = parent_of(cur)
    # (b) dominating guard: on every path to the statement the list is known to be truthy
    cfg = ctx.cfg(fn)
    node = cfg_node_of(cfg, sub)
    if node is None:
        return False
    paths = cfg.conditions_to(node)
    if not paths:
        return False
    for conds in paths:
        facts = set()
        for test, pol in conds:
            facts |= implied(test, pol)
        if (res, True) not in facts and (f"len({res}) > 0", True) not in facts and (f"len({res}) == 0", False) not in facts:
            # a condition such as `not res or X` being False also implies res truthy
            return False
    return True


def check_bulkget_result(ctx: Ctx, rep: Report, client: ClassInfo) -> None:
    """The public bulkget reports scalars and repeaters as mappings built from the two halves of the response."""
    meth = client.methods.get("bulkget")
    if meth is None:
        rep.undecided("C04-R7", f"{client.module.path} (Client)", "bulkget exists", "missing")
        return
    from .fetcheval import fetcher_eval

    if fetcher_eval(ctx).results.get("bulkget") is not None:  # type: ignore[attr-defined]
        rep.ok("C04-R7", meth.site(), "bulkget reports the non-repeater bindings as scalars and the repetitions as listing (not swapped, nothing invented)", "decided by the evaluated contract of bulkget (reported under the shared GETBULK rule)")
        return
    defs = ctx.defs(meth)
    rets = [n for n in own_nodes(meth.node) if isinstance(n, ast.Return) and isinstance(n.value, ast.Call)]
    ok = False
    detail = ""
    if len(rets) == 1 and len(rets[0].value.args) == 2:
        sc, ls = rets[0].value.args
        unp = {name: entries for name, entries in defs.unpack.items()}
        # names bound by tuple-unpacking the awaited helper: index 0 = scalars, 1 = repeaters
        def source_index(expr: ast.AST) -> Optional[int]:
            names = {n.id for n in ast.walk(defs.expand(expr)) if isinstance(n, ast.Name)}
            for name in names:
                for value, idx, _ in unp.get(name, []):
                    return idx
            # built by a loop over an unpacked name
            if isinstance(expr, ast.Name):
                for node in own_nodes(meth.node):
                    if isinstance(node, ast.For):
                        for sub in ast.walk(node):
                            if isinstance(sub, ast.Assign) and isinstance(sub.targets[0], ast.Subscript) and norm(sub.targets[0].value) == expr.id:
                                if isinstance(node.iter, ast.Name):
                                    for value, idx, _ in unp.get(node.iter.id, []):
                                        return idx
            return None

        ok = source_index(sc) == 0 and source_index(ls) == 1
        detail = f"BulkResult({norm(sc)} <- element {source_index(sc)}, {norm(ls)} <- element {source_index(ls)})"
    rep.check(ok, "C04-R7", meth.site(), "bulkget reports the non-repeater bindings as scalars and the repetitions as listing (not swapped, nothing invented)", detail, key=f"{meth.key}|result-halves")
