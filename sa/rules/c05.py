"""
C05 - every emitted datagram is the intended request under an independent decoder.

Shapes of every encoder reachable from the sender seam are extracted from the
source and compared with tables transcribed from the RFCs, with provenance:

R1  PDU body: [Integer<-request_id, Integer<-error_status, Integer<-error_index,
    SEQUENCE OF SEQUENCE[oid, value] <- varbinds]; error fields default to 0.
R2  PDU tags: context class, constructed, tag per class (RFC 3416); GETBULK body
    [request_id, non_repeaters, max_repetitions, bindings] inside a hand-built
    TLV header TypeInfo(CONTEXT, CONSTRUCTED, TAG) + length(len(payload)) + payload;
    its constructor stores each argument under the field it is encoded from.
R3  community wrapper: SEQUENCE[Integer(const), OctetString<-credentials.community, PDU].
R4  v3 message: SEQUENCE[version, header, OctetString<-security parameters,
    scoped PDU | ciphertext]; header [msgID, msgMaxSize, msgFlags(1 octet), model];
    flag octet == auth*1 + priv*2 + reportable*4 for all 8 combinations; scoped
    PDU [contextEngineID, contextName, data]; USM parameters in RFC 3414 order;
    V3MPM.encode fills version 3, security model 3, MESSAGE_MAX_SIZE, ids, context.
R5  API -> PDU provenance is decided by C07-R1 (ids), C02-R3 (GETBULK counters)
    and C04-R1 (OIDs in caller order); referenced here.
"""
from __future__ import annotations

import ast
from typing import Any, Dict, List, Optional, Tuple

from .. import rfc
from ..engine.context import Ctx, bind_call_args, dataclass_fields
from ..engine.exprs import norm, strip_casts
from ..engine.patterns import run_int_cfg
from ..engine.report import Report
from ..engine.resolve import EnumMember, NotConstant
from ..engine.universe import AnalysisError, ClassInfo, FuncInfo, own_nodes
from .ber import describe_item, joined_items, returned_sequence, sequence_items, x690_kind
from .common import mpm_class, own_method, usm_class


def fmt(items) -> str:
    return "[" + ", ".join(f"{k}<-{p}" if p else k for k, p in items) + "]" if items is not None else "None"


def run(ctx: Ctx, rep: Report) -> None:
    rep.rule("C05-R1", "PDU body is [request-id, error-status, error-index, bindings] with zero error defaults", floor=2)
    rep.rule("C05-R2", "PDU classes carry the RFC 3416 tags (context, constructed); GETBULK framing and constructor agree", floor=7)
    rep.rule("C05-R3", "community messages are SEQUENCE[version constant, community, PDU]", floor=2)
    rep.rule("C05-R4", "SNMPv3 message, header, flags, scoped PDU and USM parameters follow RFC 3412 / 3414", floor=12)
    rep.rule("C05-R5", "API arguments reach the PDU fields (decided by C07-R1, C02-R3, C04-R1)", floor=1)
    rep.rule("C05-R6", "msgFlags state the credentials' security level and mark confirmed-class PDUs reportable (shared with C10-R1)", floor=5)
    rep.rule("C05-R8", "the v3 security parameters emitted carry the discovered authoritative engine id, boots, time and the user name (shared with C10-R2)", floor=3)
    rep.rule("C05-R11", "the request of every operation carries the caller's OIDs position by position, in order, bound to NULL or to the typed value supplied (shared with C04)", floor=1)
    rep.rule("C05-R10", "typed SET values reach the wire unchanged: Counter32/64 wrap per RFC, every in-range value of an application type is stored as given (shared with C17-R1)", floor=10)
    rep.rule("C05-R9", "v3 requests: encrypt, then splice the digest into otherwise unchanged security parameters; with privacy the scoped PDU travels as the plug-in's ciphertext under the agent-localised key (shared with C10-R3, C11-R1/R2/R4)", floor=6)
    rep.rule("C05-R7", "the version spoken is that of the current credentials: a change of credential family installs the matching message-processing model (shared with C18-R4)", floor=3)
    rep.assumptions += [
        "x690 encodes the primitive types (INTEGER, OCTET STRING, OID, NULL), lengths and SEQUENCE framing correctly over their full ranges (numeric; not analysed here)",
    ]
    pdu = ctx.u.cls("puresnmp.pdu:PDU")
    content = ctx.u.cls("puresnmp.pdu:PDUContent")
    # ------------------------------------------------------------ R1
    enc = pdu.methods.get("encode_raw")
    if enc is None:
        raise AnalysisError("PDU.encode_raw vanished")
    if not pdu_body_by_evaluation(ctx, rep, enc, pdu, content):
        rets = [n for n in own_nodes(enc.node) if isinstance(n, ast.Return) and n.value is not None]
        items = joined_items(ctx, enc, rets[0].value, pdu) if len(rets) == 1 else None
        want = [("Integer", "self.value.request_id"), ("Integer", "self.value.error_status"), ("Integer", "self.value.error_index")]
        ok = items is not None and len(items) == 4 and items[:3] == want and items[3][0] == "Sequence"
        rep.check(ok, "C05-R1", enc.site(), "PDU payload = Integer(request_id) Integer(error_status) Integer(error_index) Sequence(bindings), in this order", fmt(items), key=f"{enc.key}|body-shape")
        bind_ok = False
        if items is not None and len(items) == 4:
            txt = items[3][1]
            bind_ok = txt.startswith("[SequenceOf<-Sequence[") and "vb.oid, vb.value] for vb in self.value.varbinds" in txt.replace(f"{'vb'}", "vb") or ("Sequence[" in txt and ".oid, " in txt and ".value] for " in txt and "in self.value.varbinds" in txt)
        rep.check(bind_ok, "C05-R1", enc.site(), "bindings = SEQUENCE OF SEQUENCE[oid, value] over self.value.varbinds in list order", items[3][1] if items and len(items) == 4 else "", key=f"{enc.key}|bindings-shape")
    defaults = {}
    for name in ("error_status", "error_index"):
        try:
            defaults[name] = ctx.r.const(content.module, content.attrs[name]) if name in content.attrs else None
        except NotConstant:
            defaults[name] = None
    order = dataclass_fields(content)
    rep.check(defaults == {"error_status": 0, "error_index": 0} and order[:2] == ["request_id", "varbinds"], "C05-R1", f"{content.module.path}:{content.node.lineno} (PDUContent)", "requests built as PDUContent(request_id, bindings) carry error-status 0 and error-index 0", f"defaults {defaults}, field order {order}", key="PDUContent|defaults")

    # ------------------------------------------------------------ R2
    x690 = ctx.u.cls("x690.types:X690Type")
    for name, tag in sorted(rfc.PDU_TAGS.items()):
        cls = ctx.u.classes.get(f"puresnmp.pdu:{name}")
        site = f"puresnmp/pdu.py ({name})"
        if cls is None:
            rep.violated("C05-R2", site, f"PDU class {name} exists", "missing", key=f"pdu-class|{name}|missing")
            continue
        try:
            tc = ctx.r.class_const(cls, "TYPECLASS")
            tg = ctx.r.class_const(cls, "TAG")
            nat = ctx.r.class_const(cls, "NATURE")
        except NotConstant as exc:
            rep.undecided("C05-R2", site, f"{name}: class constants evaluate", str(exc))
            continue
        ok = isinstance(tc, EnumMember) and tc.name == "CONTEXT" and tg == tag and isinstance(nat, list) and nat and isinstance(nat[0], EnumMember) and nat[0].name == "CONSTRUCTED"
        rep.check(ok, "C05-R2", f"{cls.module.path}:{cls.node.lineno} ({name})", f"{name}: context class, constructed, tag {tag}", f"TYPECLASS={tc} NATURE={nat} TAG={tg}", key=f"pdu-class|{name}|tag")
    # generic framing comes from X690Type.__bytes__: TypeInfo(self.TYPECLASS, self.NATURE[0], self.TAG) + encode_length(len(value)) + value
    gb = x690.methods.get("__bytes__")
    overrides = [c.name for c in ctx.r.subclasses(pdu) + [pdu] if "__bytes__" in c.methods]
    rep.check(overrides == ["BulkGetRequest"] or overrides == [], "C05-R2", f"{pdu.module.path} (PDU classes)", "only the GETBULK PDU frames itself; every other PDU uses x690's generic TLV framing of encode_raw()", f"classes overriding __bytes__: {overrides}", key="pdu-class|framing-overrides")
    bulk = ctx.u.cls("puresnmp.pdu:BulkGetRequest")
    bbytes = bulk.methods.get("__bytes__")
    if bbytes is None:
        rep.undecided("C05-R2", f"{bulk.module.path} (BulkGetRequest)", "GETBULK framing found", "no __bytes__")
    elif bulk_by_evaluation(ctx, rep, bulk, bbytes):
        pass
    else:
        defs = ctx.defs(bbytes)
        rets = [n for n in own_nodes(bbytes.node) if isinstance(n, ast.Return) and n.value is not None]
        header_ok = False
        payload_name = None
        detail = ""
        if len(rets) == 1 and isinstance(rets[0].value, ast.BinOp):
            parts = []
            cur = rets[0].value
            while isinstance(cur, ast.BinOp) and isinstance(cur.op, ast.Add):
                parts.insert(0, cur.right)
                cur = cur.left
            parts.insert(0, cur)
            if len(parts) == 3:
                t, l, p = [defs.expand(x) for x in parts]
                payload_name = norm(parts[2])
                tinfo_ok = False
                if isinstance(t, ast.Call) and norm(t.func) == "bytes" and isinstance(t.args[0], ast.Call) and norm(t.args[0].func).endswith("TypeInfo"):
                    targs = t.args[0].args
                    try:
                        c0, c1 = ctx.r.const(bbytes.module, targs[0]), ctx.r.const(bbytes.module, targs[1])
                        tinfo_ok = isinstance(c0, EnumMember) and c0.name == "CONTEXT" and isinstance(c1, EnumMember) and c1.name == "CONSTRUCTED" and norm(targs[2]) == "self.TAG"
                    except NotConstant:
                        tinfo_ok = False
                len_ok = isinstance(parts[1], ast.Name) and norm(defs.single(parts[1].id) or parts[1]) == f"encode_length(len({payload_name}))" or norm(parts[1]) == f"encode_length(len({payload_name}))"
                header_ok = tinfo_ok and len_ok
                detail = f"{norm(t)[:70]} + {norm(defs.single(parts[1].id) if isinstance(parts[1], ast.Name) and defs.single(parts[1].id) is not None else parts[1])} + {payload_name}"
        rep.check(header_ok, "C05-R2", bbytes.site(), "GETBULK = TypeInfo(CONTEXT, CONSTRUCTED, TAG) + encode_length(len(payload)) + payload", detail, key=f"{bbytes.key}|header")
        items = joined_items(ctx, bbytes, ast.Name(payload_name, ast.Load()), bulk) if payload_name else None
        want = [("Integer", "self.request_id"), ("Integer", "self.non_repeaters"), ("Integer", "self.max_repeaters")]
        ok = items is not None and len(items) == 4 and items[:3] == want and items[3][0] == "Sequence" and "in self.varbinds" in items[3][1]
        rep.check(ok, "C05-R2", bbytes.site(), "GETBULK payload = Integer(request_id) Integer(non_repeaters) Integer(max_repetitions) Sequence(bindings)", fmt(items), key=f"{bbytes.key}|body-shape")
        init = bulk.methods.get("__init__")
        stores = {}
        if init is not None:
            for n in own_nodes(init.node):
                if isinstance(n, ast.Assign):
                    for t in n.targets:
                        if isinstance(t, ast.Attribute) and norm(t.value) == "self":
                            stores[t.attr] = norm(n.value)
            ok = all(stores.get(f) == f for f in ("request_id", "non_repeaters", "max_repeaters"))
            rep.check(ok, "C05-R2", init.site(), "the GETBULK constructor stores request_id, non_repeaters and max_repeaters under the fields they are encoded from", f"{stores}", key=f"{init.key}|field-stores")
            loops = [n for n in own_nodes(init.node) if isinstance(n, ast.For)]
            okv = len(loops) == 1 and norm(loops[0].iter) == init.params[-1] and any(norm(s) == f"self.varbinds.append(VarBind({norm(loops[0].target)}, Null()))" for s in loops[0].body)
            rep.check(okv, "C05-R2", init.site(), "the GETBULK constructor binds every OID argument, in order, to NULL", key=f"{init.key}|bindings")

    # ------------------------------------------------------------ R3
    for mod in ctx.r.plugin_modules("puresnmp_plugins.security"):
        ident = ctx.r.plugin_identifier(mod)
        if ident not in rfc.COMMUNITY_VERSION_BY_SECMODEL:
            continue
        for cls in [c for c in ctx.u.classes.values() if c.module is mod and "generate_request_message" in c.methods]:
            gen = cls.methods["generate_request_message"]
            items = returned_sequence(ctx, gen, cls)
            want_v = rfc.COMMUNITY_VERSION_BY_SECMODEL[ident]
            msg_param, cred_param = gen.params[1], gen.params[3]
            ok = items is not None and len(items) == 3 and items[0] == ("Integer", str(want_v)) and items[1] == ("OctetString", f"{cred_param}.community") and items[2][1] == msg_param
            rep.check(ok, "C05-R3", gen.site(), f"{cls.name}: message = SEQUENCE[Integer({want_v}), OctetString(credentials.community), <the PDU>]", fmt(items), key=f"{gen.key}|wrapper-shape")
    for ident in (0, 1):
        cls = mpm_class(ctx, ident)
        enc_m = ctx.inlined(own_method(ctx, cls, "encode"))  # the plumbing may sit in helpers shared by the community MPMs (self._wrap / self._security)
        calls = [n for n in own_nodes(enc_m.node) if isinstance(n, ast.Call) and isinstance(n.func, ast.Attribute) and n.func.attr == "generate_request_message"]
        defs = ctx.defs(enc_m)
        pdu_p, cred_p = "pdu", "credentials"
        ok = len(calls) == 1 and bool(calls[0].args) and norm(defs.expand(calls[0].args[0])) == pdu_p and norm(defs.expand(calls[0].args[-1])) == cred_p and pdu_p in enc_m.params and cred_p in enc_m.params
        ok = ok and norm(defs.expand(calls[0].func.value)) == "self.security_model"
        rets = [n for n in own_nodes(enc_m.node) if isinstance(n, ast.Return) and n.value is not None]
        okr = False
        if ok and len(rets) == 1 and isinstance(rets[0].value, ast.Call) and rets[0].value.args:
            emitted = defs.expand(rets[0].value.args[0])
            okr = isinstance(emitted, ast.Call) and norm(emitted.func) == "bytes" and len(emitted.args) == 1 and norm(emitted.args[0]) == norm(defs.expand(calls[0]))
        rep.check(ok and okr, "C05-R3", enc_m.site(), f"{cls.name}.encode emits the bytes of the security model's message for the caller's PDU and credentials", key=f"{enc_m.key}|encode-flow")

    # ------------------------------------------------------------ R4
    adt = "puresnmp.adt"
    header = ctx.u.cls(f"{adt}:HeaderData")
    items = returned_sequence(ctx, header.methods["as_snmp_type"], header)
    want = [("Integer", "self.message_id"), ("Integer", "self.message_max_size"), ("OctetString", "bytes(self.flags)"), ("Integer", "self.security_model")]
    rep.check(items == want, "C05-R4", header.methods["as_snmp_type"].site(), "HeaderData = SEQUENCE[msgID, msgMaxSize, msgFlags, msgSecurityModel]", fmt(items), key="HeaderData|shape")
    rep.check(dataclass_fields(header) == rfc.HEADER_FIELDS, "C05-R4", f"{header.module.path}:{header.node.lineno} (HeaderData)", "HeaderData fields are declared in RFC 3412 order (positional construction)", f"{dataclass_fields(header)}", key="HeaderData|field-order")
    spdu = ctx.u.cls(f"{adt}:ScopedPDU")
    items = returned_sequence(ctx, spdu.methods["as_snmp_type"], spdu)
    want = [("OctetString", "self.context_engine_id"), ("OctetString", "self.context_name"), ("PDU", "self.data")]
    rep.check(items == want, "C05-R4", spdu.methods["as_snmp_type"].site(), "ScopedPDU = SEQUENCE[contextEngineID OCTET STRING, contextName OCTET STRING, data PDU]", fmt(items), key="ScopedPDU|shape")
    rep.check(dataclass_fields(spdu) == rfc.SCOPED_PDU_FIELDS, "C05-R4", f"{spdu.module.path}:{spdu.node.lineno} (ScopedPDU)", "ScopedPDU fields are declared in RFC 3412 order", f"{dataclass_fields(spdu)}", key="ScopedPDU|field-order")
    usm_params = ctx.u.cls("puresnmp_plugins.security.usm:USMSecurityParameters")
    items = returned_sequence(ctx, usm_params.methods["as_snmp_type"], usm_params)
    want = [(kind, f"self.{name}") for name, kind in rfc.USM_FIELDS]
    rep.check(items == want, "C05-R4", usm_params.methods["as_snmp_type"].site(), "UsmSecurityParameters = SEQUENCE[engineID, boots, time, userName, authParams, privParams] (RFC 3414)", fmt(items), key="USMSecurityParameters|shape")
    rep.check(dataclass_fields(usm_params) == [n for n, _ in rfc.USM_FIELDS], "C05-R4", f"{usm_params.module.path}:{usm_params.node.lineno} (USMSecurityParameters)", "USM parameter fields are declared in RFC 3414 order (positional construction)", f"{dataclass_fields(usm_params)}", key="USMSecurityParameters|field-order")
    for c, m in ((usm_params, "__bytes__"), (header, "__bytes__"), (spdu, "__bytes__")):
        meth = c.methods.get(m)
        ok = meth is not None and [norm(n.value) for n in own_nodes(meth.node) if isinstance(n, ast.Return)] == ["bytes(self.as_snmp_type())"]
        rep.check(ok, "C05-R4", meth.site() if meth else f"{c.module.path} ({c.name})", f"bytes({c.name}) is the encoding of its as_snmp_type() sequence", key=f"{c.key}|bytes")
    msg = ctx.u.cls(f"{adt}:Message")
    mb = msg.methods["__bytes__"]
    items = None
    for n in own_nodes(mb.node):
        if isinstance(n, ast.Call) and x690_kind(ctx, mb, n) == "Sequence":
            items = sequence_items(ctx, mb, n, msg)
    ok = items is not None and len(items) == 4 and items[0] == ("Integer", "self.version") and items[1] == ("HeaderData.as_snmp_type()", "self.header") and items[2] == ("OctetString", "self.security_parameters") and items[3][1] == "spdu"
    rep.check(ok, "C05-R4", mb.site(), "SNMPv3Message = SEQUENCE[version, HeaderData, OctetString(security parameters), scoped PDU data]", fmt(items), key="Message|shape")
    # spdu selection: ScopedPDU -> its sequence, else the ciphertext OctetString as is
    sel_ok = False
    mdefs = ctx.defs(mb)
    vals = {norm(v) for v in mdefs.all_values("spdu")}
    conv_guarded = False
    for n in own_nodes(mb.node):
        if isinstance(n, ast.If) and norm(n.test) == "isinstance(self.scoped_pdu, ScopedPDU)":
            conv_guarded = any(norm(x) in ("spdu = self.scoped_pdu.as_snmp_type()",) or (isinstance(x, ast.AnnAssign) and x.value is not None and norm(x.value) == "self.scoped_pdu.as_snmp_type()") for x in n.body)
            plain_else = any(isinstance(x, (ast.Assign, ast.AnnAssign)) and x.value is not None and norm(x.value) == "self.scoped_pdu" for x in n.orelse)
            plain_before = any(isinstance(x, (ast.Assign, ast.AnnAssign)) and x.value is not None and norm(x.value) == "self.scoped_pdu" and x.lineno < n.lineno for x in own_nodes(mb.node))
            sel_ok = conv_guarded and (plain_else or plain_before) and vals == {"self.scoped_pdu.as_snmp_type()", "self.scoped_pdu"}
    rep.check(sel_ok, "C05-R4", mb.site(), "the fourth element is the scoped PDU's sequence, or the ciphertext OCTET STRING unchanged", key="Message|payload-selection")
    rep.check(dataclass_fields(msg) == ["version", "header", "security_parameters", "scoped_pdu"], "C05-R4", f"{msg.module.path}:{msg.node.lineno} (Message)", "Message fields are declared in wire order", f"{dataclass_fields(msg)}", key="Message|field-order")
    # flags
    flags = ctx.u.cls(f"{adt}:V3Flags")
    fb = flags.methods["__bytes__"]
    # the encoder is evaluated for the eight flag combinations (engine/minieval.py): bit arithmetic, a table-driven
    # loop or a lookup all have to produce the RFC 3412 octet
    from ..engine.minieval import Instance, MiniEval, Raised, Unevaluable

    for auth in (0, 1):
        for priv in (0, 1):
            for reportable in (0, 1):
                inst = Instance(flags, [], {})
                inst.attrs.update(auth=bool(auth), priv=bool(priv), reportable=bool(reportable))
                want_v = auth * rfc.MSGFLAG_AUTH + priv * rfc.MSGFLAG_PRIV + reportable * rfc.MSGFLAG_REPORTABLE
                text = f"msgFlags octet for auth={auth} priv={priv} reportable={reportable} is {want_v:#04x}"
                try:
                    got = MiniEval(ctx).call_function(fb, [inst])
                except Unevaluable as exc:
                    rep.undecided("C05-R4", fb.site(), text, f"not evaluable: {exc}")
                    continue
                except Raised as exc:
                    got = f"raises {exc.value!r}"
                rep.check(got == bytes([want_v]), "C05-R4", fb.site(), text, f"computed {got!r}", key="V3Flags|octet")
    rep.check(dataclass_fields(flags) == ["auth", "priv", "reportable"], "C05-R4", f"{flags.module.path}:{flags.node.lineno} (V3Flags)", "V3Flags fields are declared (auth, priv, reportable): positional constructions rely on it", f"{dataclass_fields(flags)}", key="V3Flags|field-order")
    # V3MPM.encode fills the message
    v3 = mpm_class(ctx, 3)
    enc3 = own_method(ctx, v3, "encode")
    d3 = ctx.defs(enc3)
    plain = ctx.u.cls(f"{adt}:PlainMessage")
    pcalls = [n for n in own_nodes(enc3.node) if isinstance(n, ast.Call) and ctx.r.resolve_class(enc3.module, n.func) == plain]
    ok = False
    detail = ""
    if len(pcalls) == 1:
        b = bind_call_args(pcalls[0], dataclass_fields(msg), skip_self=False)
        ver = d3.expand(b["version"]) if "version" in b else None
        try:
            vconst = ctx.r.const(enc3.module, ver.args[0]) if isinstance(ver, ast.Call) and ver.args else None
        except NotConstant:
            vconst = None
        hdr = d3.expand(b["header"], depth=1) if "header" in b else None
        hb = bind_call_args(hdr, dataclass_fields(header), skip_self=False) if isinstance(hdr, ast.Call) else {}
        sp = d3.expand(b["scoped_pdu"], depth=1) if "scoped_pdu" in b else None
        sb = bind_call_args(sp, dataclass_fields(spdu), skip_self=False) if isinstance(sp, ast.Call) else {}
        try:
            model = ctx.r.const(enc3.module, d3.expand(hb["security_model"])) if "security_model" in hb else None
        except NotConstant:
            model = None
        maxsize = norm(hb.get("message_max_size", ast.Constant(None)))
        ok = (
            vconst == rfc.SNMPV3_VERSION
            and model == rfc.USM_SECURITY_MODEL
            and norm(hb.get("message_id", ast.Constant(None))) == enc3.params[1]
            and maxsize == "MESSAGE_MAX_SIZE"
            and norm(sb.get("context_engine_id", ast.Constant(None))) == "OctetString(engine_id)"
            and norm(sb.get("context_name", ast.Constant(None))) == "OctetString(context_name)"
            and norm(sb.get("data", ast.Constant(None))) == "pdu"
        )
        detail = f"version={vconst} header={ {k: norm(v) for k, v in hb.items()} } scoped={ {k: norm(v) for k, v in sb.items()} }"
    rep.check(ok, "C05-R4", enc3.site(), "V3MPM.encode: version 3, msgID = request id, msgMaxSize = MESSAGE_MAX_SIZE, security model 3 (USM), scoped PDU = (context engine id, context name, caller's PDU)", detail, key=f"{enc3.key}|message-fill")
    rets = [n for n in own_nodes(enc3.node) if isinstance(n, ast.Return) and n.value is not None]
    okr = False
    if len(rets) == 1 and isinstance(rets[0].value, ast.Call) and rets[0].value.args:
        from .common import is_own_security_model

        emitted = d3.expand(rets[0].value.args[0], stop=[n.id for n in ast.walk(rets[0].value) if isinstance(n, ast.Name) and is_own_security_model(ctx, enc3, n)])
        inner = emitted.args[0] if isinstance(emitted, ast.Call) and isinstance(emitted.func, ast.Name) and emitted.func.id == "bytes" and emitted.args else None
        okr = isinstance(inner, ast.Call) and isinstance(inner.func, ast.Attribute) and inner.func.attr == "generate_request_message" and is_own_security_model(ctx, enc3, inner.func.value)
    rep.check(okr, "C05-R4", enc3.site(), "V3MPM.encode emits the bytes of the message secured by the security model", key=f"{enc3.key}|encode-flow")
    try:
        mms = ctx.r.const(enc3.module, ast.Name("MESSAGE_MAX_SIZE", ast.Load()))
    except NotConstant:
        mms = None
    rep.check(isinstance(mms, int) and 484 <= mms <= 2147483647, "C05-R4", enc3.site(), "msgMaxSize is within RFC 3412's INTEGER (484..2147483647)", f"MESSAGE_MAX_SIZE = {mms}", key="MESSAGE_MAX_SIZE|range")
    rep.ok("C05-R5", ctx.send_method().site(), "request id, GETBULK counters and OIDs reach the PDU unchanged", "decided by C07-R1, C02-R3 and C04-R1")
    from . import c10, c18

    sub = ctx.sub_run("c10", rep)
    rep.adopt_rules(sub, "C05-R6", ["C10-R1"])
    rep.adopt_rules(sub, "C05-R8", ["C10-R2"])
    rep.adopt_rules(sub, "C05-R9", ["C10-R3"])
    rep.adopt_rules(ctx.sub_run("c11", rep), "C05-R9", ["C11-R1", "C11-R2", "C11-R4"])
    rep.adopt_rules(sub, "C05-R9", ["C10-R5"])  # the digest spliced in is keyed with the key localised for this engine (RFC 3414 A.2)
    # the caller's typed SET values: the application type constructors store every in-range value as given
    rep.adopt_rules(ctx.sub_run("c17", rep), "C05-R10", ["C17-R1"])
    # what the operations put into the request: one binding per requested position, in the caller's order (duplicates
    # included), NULL or the typed value supplied - the evaluated request side of the operation contracts
    sub4 = ctx.sub_run("c04", rep)
    got = rep.adopt_rules(sub4, "C05-R11", ["C04-R3", "C04-R1", "C04-R7"], containing="evaluated request")
    got += rep.adopt_rules(sub4, "C05-R11", ["C04-R3", "C04-R1", "C04-R7"], containing="is sent")
    got += rep.adopt_rules(sub4, "C05-R11", ["C04-R1"], containing="binding per requested OID")
    got += rep.adopt_rules(sub4, "C05-R11", ["C04-R7"], containing="leaves the caller's OID lists")
    got += rep.adopt_rules(sub4, "C05-R11", ["C04-R9"])  # the pythonic wrapper hands the caller's OIDs to the raw operation one-to-one (duplicates included)  # only present when violated: the next request built from the same lists differs from the one asked for
    sub = ctx.sub_run("c18", rep)
    rep.adopt_rules(sub, "C05-R7", ["C18-R4"])
    # ... and a temporary override is undone completely (credentials AND the message-processing model), also when the block raises
    rep.adopt_rules(sub, "C05-R7", ["C18-R1"])
    # the authoritative engine id / boots / time put into every later request are the ones the discovery reply's
    # security parameters carried
    rep.adopt_rules(ctx.sub_run("c12", rep), "C05-R8", ["C12-R7"])


def pdu_body_by_evaluation(ctx: Ctx, rep: Report, enc: FuncInfo, pdu: ClassInfo, content: ClassInfo) -> bool:
    """
    PDU.encode_raw evaluated (engine/minieval.py) for a PDU with symbolic content: the octets it returns must be the
    concatenation of the encodings of Integer(request-id), Integer(error-status), Integer(error-index) and
    Sequence([Sequence([oid, value]) ...]) over the bindings in list order.  False = not evaluable (fall back).
    """
    from ..engine.minieval import Instance, MiniEval, Raised, Sym, SymBytes, Unevaluable

    vb_cls = ctx.u.cls("puresnmp.varbind:VarBind")
    verdicts = []

    def typed_values() -> List[Any]:
        """One value per SNMP type at the top of its range: an encoder must take them all (SET values, GetResponses)."""
        out: List[Any] = []
        for key, val in (("x690.types:Integer", -(2**31)), ("x690.types:Integer", 2**31 - 1), ("puresnmp.types:Counter", 2**32 - 1), ("puresnmp.types:Gauge", 2**32 - 1), ("puresnmp.types:TimeTicks", 2**32 - 1), ("puresnmp.types:Counter64", 2**64 - 1), ("puresnmp.types:Counter64", 2**32), ("x690.types:OctetString", b""), ("x690.types:Null", None)):
            cls_ = ctx.u.classes.get(key)
            if cls_ is None:
                continue
            inst = Instance(cls_, [], {})
            inst.attrs.update(value=val, pyvalue=val)
            out.append(inst)
        return out

    tv = typed_values()
    for rid, status, index, count in ((7, 0, 0, 0), (4711, 0, 0, 1), (2**31 - 1, 5, 2, 3), (9, 0, 0, -1)):
        binds = []
        typed = count < 0
        count = len(tv) if typed else count
        for i in range(count):
            vb = Instance(vb_cls, [], {})
            vb.attrs.update(oid=Sym(f"oid{i + 1}"), value=tv[i] if typed else Sym(f"value{i + 1}"))
            vb.attrs["__items__"] = [vb.attrs["oid"], vb.attrs["value"]]
            binds.append(vb)
        cont = Instance(content, [], {})
        cont.attrs.update(request_id=rid, varbinds=binds, error_status=status, error_index=index)
        me = Instance(pdu, [], {})
        me.attrs.update(value=cont, pyvalue=cont)
        try:
            got = MiniEval(ctx).call_function(enc, [me])
        except Unevaluable as exc:
            rep.info(f"PDU.encode_raw is not followed by the evaluator ({exc}); reading its structure instead")
            return False
        except Raised as exc:
            verdicts.append((False, f"raises {exc.value!r}", (rid, status, index, count)))
            continue
        ok = isinstance(got, SymBytes) and len(got.parts) == 4 and all(isinstance(p, Instance) for p in got.parts)
        if ok:
            a, b, c, d = got.parts
            ok = [p.cls.name for p in got.parts] == ["Integer", "Integer", "Integer", "Sequence"] and [p.args[:1] for p in (a, b, c)] == [[rid], [status], [index]]
            inner = d.args[0] if d.args else None
            ok = ok and isinstance(inner, list) and len(inner) == count
            if ok:
                for item, vb in zip(inner, binds):
                    ok = ok and isinstance(item, Instance) and item.cls.name == "Sequence" and item.args and list(item.args[0]) == [vb.attrs["oid"], vb.attrs["value"]]
        verdicts.append((ok, repr(got)[:300], (rid, status, index, count)))
    for ok, detail, (rid, status, index, count) in verdicts:
        rep.check(ok, "C05-R1", enc.site(), f"PDU body for request-id {rid}, status {status}, index {index}, {count} binding(s) = Integer(request-id) Integer(error-status) Integer(error-index) Sequence(Sequence[oid, value] per binding, in list order)", detail, key=f"{enc.key}|body-shape")
    return True


def bulk_by_evaluation(ctx: Ctx, rep: Report, bulk: ClassInfo, bbytes: FuncInfo) -> bool:
    """
    BulkGetRequest(request_id, non_repeaters, max_repeaters, *oids) is constructed and serialised by the evaluator:
    the octets are TypeInfo(CONTEXT, CONSTRUCTED, TAG) + encode_length(len(payload)) + payload with payload =
    Integer(request-id) Integer(non-repeaters) Integer(max-repetitions) Sequence(Sequence[oid, Null] per OID in order).
    """
    from ..engine.minieval import Instance, MiniEval, Raised, Sym, SymBytes, Unevaluable

    init = bulk.methods.get("__init__")
    if init is None:
        return False
    verdicts = []
    for rid, nr, mr, count in ((7, 0, 10, 1), (4711, 2, 5, 3), (1, 0, 0, 0), (9, 0, 2**31 - 1, 2), (9, 1, 50, 70), (9, 200, 1, 200), (3, 1, 3, -3)):
        # count < 0: that many OIDs with the first one repeated (duplicates are legal and keep their positions)
        oids = [Sym(f"oid{i + 1}") for i in range(abs(count))]
        if count < 0:
            oids[-1] = oids[0]
            count = -count
        me = Instance(bulk, [], {})
        length_tokens = []

        def encode_length_model(args, kwargs):
            length_tokens.append(args[0] if args else None)
            return SymBytes([("length-octets", args[0] if args else None)])

        ev = MiniEval(ctx, externals={"x690.util:encode_length": encode_length_model})
        try:
            ev.call_function(init, [me, rid, nr, mr] + oids)
            got = ev.call_function(bbytes, [me])
        except Unevaluable as exc:
            rep.info(f"BulkGetRequest is not followed by the evaluator ({exc}); reading its structure instead")
            return False
        except Raised as exc:
            verdicts.append((False, f"raises {exc.value!r}", (rid, nr, mr, count)))
            continue
        ok = isinstance(got, SymBytes) and len(got.parts) == 6
        if ok:
            tinfo, length, a, b, c, d = got.parts
            ok = isinstance(tinfo, Instance) and tinfo.cls.name == "TypeInfo" and [str(getattr(x, "name", x)).upper() for x in tinfo.args[:2]] == ["CONTEXT", "CONSTRUCTED"] and tinfo.args[2:3] == [rfc.PDU_TAGS["BulkGetRequest"]]
            ok = ok and isinstance(length, tuple) and length[0] == "length-octets" and isinstance(length[1], Sym)
            ok = ok and all(isinstance(p, Instance) for p in (a, b, c, d)) and [p.cls.name for p in (a, b, c, d)] == ["Integer", "Integer", "Integer", "Sequence"] and [p.args[:1] for p in (a, b, c)] == [[rid], [nr], [mr]]
            inner = d.args[0] if isinstance(d, Instance) and d.args else None
            ok = ok and isinstance(inner, list) and len(inner) == count
            if ok:
                for item, oid in zip(inner, oids):
                    pair = list(item.args[0]) if isinstance(item, Instance) and item.cls.name == "Sequence" and item.args else None
                    ok = ok and pair is not None and len(pair) == 2 and pair[0] == oid and isinstance(pair[1], Instance) and pair[1].cls.name == "Null"
        verdicts.append((ok, repr(got)[:320], (rid, nr, mr, count)))
    for ok, detail, (rid, nr, mr, count) in verdicts:
        rep.check(ok, "C05-R2", bbytes.site(), f"GETBULK(request-id {rid}, non-repeaters {nr}, max-repetitions {mr}, {count} OID(s)) = TypeInfo(CONTEXT, CONSTRUCTED, TAG) + length + Integer Integer Integer Sequence(Sequence[oid, NULL] per OID in order)", detail, key=f"{bbytes.key}|body-shape")
    return True
