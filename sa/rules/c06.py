"""
C06 - every response value reaches the caller with the type and value that was sent.

R1  type registration table: for every class that registers itself through
    X690Type.__init_subclass__ in puresnmp.types / puresnmp.pdu, the tuple
    (class, tag, natures, signedness, wrapped python type) - evaluated through
    the MRO - equals the RFC 2578 / 3416 table; registry keys collide only in the
    intended PDU / GetRequest override.
R2  registration is triggered: the import graph reaches puresnmp.types and
    puresnmp.pdu from the package root unconditionally.
R3  decoder consumption: PDU.decode_raw reads Integer, Integer, Integer,
    Sequence in this order and binds them by field name; Message.from_sequence,
    ScopedPDU.decode, USMSecurityParameters.from_snmp_type and V3Flags.decode map
    index / mask to field exactly as their sibling encoders (C05) and the RFCs do,
    hence re-encoding a decoded object yields the same field content.
R4  unsigned decode for Counter32 / Gauge32 / TimeTicks / Counter64.
"""
from __future__ import annotations

import ast
from typing import Any, Dict, List, Optional, Tuple

from .. import rfc
from ..engine.context import Ctx, bind_call_args, dataclass_fields
from ..engine.exprs import norm, strip_casts
from ..engine.report import Report
from ..engine.resolve import EnumMember, NotConstant
from ..engine.universe import AnalysisError, ClassInfo, FuncInfo, Module, own_nodes
from .ber import index_map, strip_all_casts
from .common import PduDecode


def registry_key(ctx: Ctx, cls: ClassInfo) -> Optional[List[Tuple[str, int, str]]]:
    try:
        tc = ctx.r.class_const(cls, "TYPECLASS")
        tag = ctx.r.class_const(cls, "TAG")
        nat = ctx.r.class_const(cls, "NATURE")
    except NotConstant:
        return None
    if not isinstance(tc, EnumMember) or not isinstance(nat, list):
        return None
    return [(tc.name, tag, n.name if isinstance(n, EnumMember) else str(n)) for n in nat]


def run(ctx: Ctx, rep: Report) -> None:
    rep.rule("C06-R1", "registered SNMP types carry the RFC class / tag / nature / signedness; registry keys do not collide", floor=11)
    rep.rule("C06-R2", "the modules that register the SNMP types are imported unconditionally from the package root", floor=1)
    rep.rule("C06-R3", "decoders read fields in the order and at the index / mask their encoders and the RFCs use", floor=5)
    rep.rule("C06-R4", "unsigned application types decode unsigned", floor=4)
    rep.rule("C06-R8", "the SNMPv3 encoders emit every field as stored, in the layout the decoders read: decode followed by encode reproduces the message (shared with C05-R4)", floor=6)
    rep.rule("C06-R7", "error responses decode into the exception of their status with the binding selected by error-index (shared with C08-R1/R3/R4)", floor=2)
    rep.rule("C06-R6", "encrypted responses: the decrypted octets are parsed unmodified and replace only the ciphertext (shared with C11-R2)", floor=2)
    rep.rule("C06-R5", "operations hand every response value (exception markers included) to the caller: complete, unfiltered, in order (get / getnext / set: shared with C04-R3/R5)", floor=6)
    rep.assumptions += [
        "x690.decode / Integer / OctetString / ObjectIdentifier / Null implement BER for all values and definite length forms (numeric; analysed only structurally, see C20 for the TLV walker)",
    ]
    x690 = ctx.u.cls("x690.types:X690Type")
    pdu = ctx.u.cls("puresnmp.pdu:PDU")
    # ------------------------------------------------------------ R1
    regs: Dict[Tuple[str, int, str], List[ClassInfo]] = {}
    local = [c for c in ctx.u.classes.values() if c.module.name in ("puresnmp.types", "puresnmp.pdu") and ctx.r.is_subclass(c, x690) and c != x690]
    order = sorted(local, key=lambda c: (c.module.name != "puresnmp.pdu", c.node.lineno))
    for cls in order:
        keys = registry_key(ctx, cls)
        if keys is None:
            rep.undecided("C06-R1", f"{cls.module.path}:{cls.node.lineno} ({cls.name})", "class constants evaluate", "TYPECLASS / TAG / NATURE not constant")
            continue
        for k in keys:
            regs.setdefault(k, []).append(cls)
    # application types
    integer = ctx.u.cls("x690.types:Integer")
    octets = ctx.u.cls("x690.types:OctetString")
    for tag, (name, kind, bits) in sorted(rfc.APPLICATION_TYPES.items()):
        owners = [c for (tc, tg, nat), cl in regs.items() if tc == "APPLICATION" and tg == tag for c in cl]
        owners = list(dict.fromkeys(owners))
        site = f"puresnmp/types.py (application {tag})"
        if len(owners) != 1:
            rep.violated("C06-R1", site, f"exactly one class registers application tag {tag} ({name})", f"{[c.name for c in owners]}", key=f"app-type|{tag}|owners")
            continue
        cls = owners[0]
        site = f"{cls.module.path}:{cls.node.lineno} ({cls.name})"
        nat = sorted({n for (tc, tg, n) in regs if tc == "APPLICATION" and tg == tag})
        if kind == "unsigned":
            ok = ctx.r.is_subclass(cls, integer) and nat == ["PRIMITIVE"]
        elif kind == "octets4":
            ok = "PRIMITIVE" in nat and ctx.r.method(cls, "decode_raw") is not None and ctx.r.method(cls, "decode_raw").cls == cls
        else:
            ok = ctx.r.is_subclass(cls, octets) and "PRIMITIVE" in nat
        rep.check(ok, "C06-R1", site, f"application tag {tag} is {name}: {'unsigned INTEGER' if kind == 'unsigned' else 'OCTET STRING based'}, primitive", f"natures {nat}; bases {[b.name for b in ctx.r.mro(cls)[1:3]]}", key=f"app-type|{tag}|kind")
    extra = sorted({(tg, c.name) for (tc, tg, n), cl in regs.items() if tc == "APPLICATION" and tg not in rfc.APPLICATION_TYPES for c in cl})
    # tags outside RFC 2578's table (NsapAddress 5, UInteger32 7 of the historic SMIs, ...) are outside the property's
    # quantifier; they cannot shadow an RFC tag because every RFC tag must have exactly one owner (above) and
    # registry keys must not collide (below)
    rep.ok("C06-R1", "puresnmp/types.py", "application tags outside RFC 2578 do not take the place of an RFC type", f"additional tags: {extra}")
    # exception markers
    for name, tag in sorted(rfc.EXCEPTION_MARKERS.items()):
        cls = ctx.u.classes.get(f"puresnmp.pdu:{name}")
        keys = registry_key(ctx, cls) if cls else None
        rep.check(keys == [("CONTEXT", tag, "PRIMITIVE")], "C06-R1", f"puresnmp/pdu.py ({name})", f"{name} is context class, primitive, tag {tag}", f"{keys}", key=f"marker|{name}")
    # collisions: the last registration wins; only PDU/GetRequest (same tag, GetRequest later) is intended
    for key, owners in sorted(regs.items()):
        names = [c.name for c in owners]
        if len(owners) > 1:
            rep.check(names == ["PDU", "GetRequest"], "C06-R1", "puresnmp/pdu.py", f"registry key {key} is claimed by one class (PDU is overridden by GetRequest on purpose)", f"claimed by {names}: the last one wins", key=f"registry-collision|{key}")
    rep.ok("C06-R1", "puresnmp/pdu.py", "registry keys are unique apart from the intended PDU -> GetRequest override", f"{len(regs)} keys")
    # a repository class that inherits TYPECLASS and TAG of an x690 base type re-registers that key and replaces the
    # class x690.decode() instantiates for the universal type (X690Type.__init_subclass__ registers every subclass)
    base_keys: Dict[Tuple[str, int, str], str] = {}
    for c in ctx.u.classes.values():
        if c.module.name == "x690.types" and ctx.r.is_subclass(c, x690) and c != x690:
            for k in registry_key(ctx, c) or []:
                base_keys[k] = c.name
    takeovers = []
    for c in ctx.u.classes.values():
        if c.module.external or not ctx.r.is_subclass(c, x690):
            continue
        for k in registry_key(ctx, c) or []:
            if k in base_keys:
                takeovers.append(f"{c.module.name}:{c.name} registers {k}, the key of x690's {base_keys[k]}")
    rep.check(not takeovers, "C06-R1", "puresnmp (all X690Type subclasses)", "no class of the repository takes over the registry key of an x690 base type (INTEGER, OCTET STRING, ... keep their decoder)", "; ".join(takeovers[:3]), key="registry-takeover|" + "|".join(sorted(t.split(" ")[0] for t in takeovers))[:100])
    # the constructed PDU tags must decode to the right class
    for name, tag in sorted(rfc.PDU_TAGS.items()):
        owners = regs.get(("CONTEXT", tag, "CONSTRUCTED"), [])
        rep.check(bool(owners) and owners[-1].name == name, "C06-R1", "puresnmp/pdu.py", f"a context/constructed TLV with tag {tag} is decoded as {name}", f"{[c.name for c in owners]}", key=f"pdu-decode-class|{tag}")

    # ------------------------------------------------------------ R2
    root = ctx.u.module("puresnmp")
    for target in ("puresnmp.types", "puresnmp.pdu"):
        ok, how = import_reaches(ctx, root, target, set())
        rep.check(ok, "C06-R2", root.path, f"importing puresnmp imports {target} unconditionally (module level, not under if/try)", how, key=f"import|{target}")

    # ------------------------------------------------------------ R3
    from .common import PduEval

    pe = PduEval(ctx)
    if pe.run(7, 0, 0, 2)[0] != "uneval":
        pdu_fields_by_evaluation(ctx, rep, pe)
    else:
        rep.info(f"PDU.decode_raw is not followed by the evaluator ({pe.run(7, 0, 0, 2)[1]}); reading its structure instead")
        pdu_fields_structurally(ctx, rep)

    adt = "puresnmp.adt"
    msg = ctx.u.cls(f"{adt}:Message")
    header = ctx.u.cls(f"{adt}:HeaderData")
    spdu = ctx.u.cls(f"{adt}:ScopedPDU")
    flags = ctx.u.cls(f"{adt}:V3Flags")
    fs = msg.methods["from_sequence"]
    seq = fs.params[1]
    evaluated = message_decode_by_evaluation(ctx, rep, fs, msg, header, spdu, flags)
    calls = [n for n in own_nodes(fs.node) if isinstance(n, ast.Call)]
    ctor = [c for c in calls if isinstance(c.func, ast.Name) and c.func.id == fs.params[0]]
    if evaluated:
        pass  # decided semantically; the structural reading below is the fallback for code the evaluator cannot follow
    elif len(ctor) != 1:
        rep.undecided("C06-R3", fs.site(), "Message.from_sequence builds cls(...) once", f"{len(ctor)}")
    else:
        m = index_map(ctx, fs, ctor[0], dataclass_fields(msg), [seq])
        ok = m.get("version") == f"{seq}[0]" and m.get("security_parameters") == f"{seq}[2].value"
        hdr_call = bind_call_args(ctor[0], dataclass_fields(msg), skip_self=False).get("header")
        if isinstance(hdr_call, ast.Name):
            hdr_call = ctx.defs(fs).single(hdr_call.id) or hdr_call
        hm = index_map(ctx, fs, hdr_call, dataclass_fields(header), [seq]) if isinstance(hdr_call, ast.Call) else {}
        okh = (
            hm.get("message_id") == f"{seq}[1][0].pythonize()"
            and hm.get("message_max_size") == f"{seq}[1][1].pythonize()"
            and hm.get("flags") == f"V3Flags.decode({seq}[1][2])"
            and hm.get("security_model") == f"{seq}[1][3].pythonize()"
        )
        rep.check(ok and okh, "C06-R3", fs.site(), "Message.from_sequence: version <- [0], header <- [1] = (msgID [0], msgMaxSize [1], msgFlags [2], securityModel [3]), security parameters <- [2]", f"{m} header={hm}", key=f"{fs.key}|index-map")
        # payload: priv flag -> [3] as is; else ScopedPDU([3][0], [3][1], [3][2])
        defs = ctx.defs(fs)
        pay_ok = False
        for n in own_nodes(fs.node):
            if isinstance(n, ast.If) and ".priv" in norm(n.test):
                enc_side = [norm(strip_all_casts(defs.expand(s.value))) for s in n.body if isinstance(s, (ast.Assign, ast.AnnAssign)) and s.value is not None]
                plain_side = [s for s in n.orelse if isinstance(s, (ast.Assign, ast.AnnAssign))]
                sp_ctor = None
                for s in plain_side:
                    if isinstance(s.value, ast.Call) and ctx.r.resolve_class(fs.module, s.value.func) == spdu:
                        sp_ctor = s.value
                if sp_ctor is not None:
                    sm = index_map(ctx, fs, sp_ctor, dataclass_fields(spdu), [seq])
                    pay_ok = f"{seq}[3]" in enc_side and sm == {"context_engine_id": f"{seq}[3][0]", "context_name": f"{seq}[3][1]", "data": f"{seq}[3][2]"}
        rep.check(pay_ok, "C06-R3", fs.site(), "payload <- [3]: ciphertext as is when the priv flag is set, else ScopedPDU(contextEngineID [0], contextName [1], data [2])", key=f"{fs.key}|payload-map")
    sd = ctx.inlined(spdu.methods["decode"])  # the field mapping may live in a helper (ScopedPDU.from_sequence)
    sctor = [n for n in own_nodes(sd.node) if isinstance(n, ast.Call) and ctx.r.resolve_class(sd.module, n.func) == spdu]
    if len(sctor) == 1:
        sm = index_map(ctx, sd, sctor[0], dataclass_fields(spdu), [])
        seqv = None
        for n in own_nodes(sd.node):
            if isinstance(n, ast.Assign) and isinstance(n.targets[0], ast.Tuple) and isinstance(n.value, ast.Call) and ctx.r.call_resolves_to(sd, n.value, "x690.types:decode"):
                seqv = norm(n.targets[0].elts[0])
        ok = seqv is not None and sm == {"context_engine_id": f"{seqv}[0]", "context_name": f"{seqv}[1]", "data": f"{seqv}[2]"}
        rep.check(ok, "C06-R3", sd.site(), "ScopedPDU.decode: contextEngineID <- [0], contextName <- [1], data <- [2]", f"{sm}", key=f"{sd.key}|index-map")
    else:
        rep.undecided("C06-R3", sd.site(), "ScopedPDU.decode builds one ScopedPDU", f"{len(sctor)}")
    usm_params = ctx.u.cls("puresnmp_plugins.security.usm:USMSecurityParameters")
    fsn = usm_params.methods["from_snmp_type"]
    uctor = [n for n in own_nodes(fsn.node) if isinstance(n, ast.Call) and ctx.r.resolve_class(fsn.module, n.func) == usm_params]
    if len(uctor) == 1:
        um = index_map(ctx, fsn, uctor[0], dataclass_fields(usm_params), [])
        p = fsn.params[0]
        want = {name: f"{p}[{i}].pythonize()" for i, (name, _) in enumerate(rfc.USM_FIELDS)}
        rep.check(um == want, "C06-R3", fsn.site(), "USMSecurityParameters.from_snmp_type: field i of RFC 3414's sequence <- element i", f"{um}", key=f"{fsn.key}|index-map")
    else:
        rep.undecided("C06-R3", fsn.site(), "one USMSecurityParameters construction", f"{len(uctor)}")
    ud = usm_params.methods["decode"]
    okd = any(isinstance(n, ast.Return) and isinstance(n.value, ast.Call) and norm(n.value.func).endswith("from_snmp_type") for n in own_nodes(ud.node)) and any(isinstance(n, ast.Call) and ctx.r.call_resolves_to(ud, n, "x690.types:decode") and any(kw.arg == "enforce_type" and norm(kw.value) == "Sequence" for kw in n.keywords) for n in own_nodes(ud.node))
    rep.check(okd, "C06-R3", ud.site(), "USMSecurityParameters.decode parses a SEQUENCE and maps it through from_snmp_type", key=f"{ud.key}|decode-flow")
    fd = flags.methods["decode"]
    # the decoder is evaluated for every value of the low three bits plus reserved bits set (engine/minieval.py)
    from ..engine.minieval import Instance, MiniEval, Raised, Unevaluable

    octet_cls = ctx.u.cls("x690.types:OctetString")
    for octet in (0, 1, 2, 3, 4, 5, 6, 7, 0xF8 | 5, 0x80):
        blob = Instance(octet_cls, [], {})
        blob.attrs.update(value=bytes([octet]), pyvalue=bytes([octet]))
        want = {"auth": bool(octet & rfc.MSGFLAG_AUTH), "priv": bool(octet & rfc.MSGFLAG_PRIV), "reportable": bool(octet & rfc.MSGFLAG_REPORTABLE)}
        text = f"V3Flags.decode({octet:#04x}): auth <- bit 0x01, priv <- bit 0x02, reportable <- bit 0x04 (same bits as the encoder)"
        try:
            got = MiniEval(ctx).call_function(fd, [blob])
        except Unevaluable as exc:
            rep.undecided("C06-R3", fd.site(), text, f"not evaluable: {exc}")
            continue
        except Raised as exc:
            rep.violated("C06-R3", fd.site(), text, f"raises {exc.value!r}", key=f"{fd.key}|masks")
            continue
        vals = {k: got.attrs.get(k) for k in want} if isinstance(got, Instance) and got.cls.key == flags.key else None
        rep.check(vals is not None and {k: bool(v) for k, v in vals.items()} == want, "C06-R3", fd.site(), text, f"{got!r}", key=f"{fd.key}|masks")
    md = msg.methods["decode"]
    from ..engine.patterns import simulate

    mcfg = ctx.cfg(md)
    mddefs = ctx.defs(md)

    def sel_env(flag: bool):
        def env(expr: ast.expr) -> Optional[bool]:
            if isinstance(expr, ast.Call) and norm(expr.func) == "isinstance" and "[3]" in norm(expr.args[0]) and norm(expr.args[1]) == "OctetString":
                return flag
            return None

        return env

    def chosen(flag: bool) -> List[str]:
        out = []
        for o in simulate(mcfg, sel_env(flag)):
            if o.kind == "return" and isinstance(o.stmt, ast.Return) and o.stmt.value is not None:
                exp = mddefs.expand(o.stmt.value)
                # evaluate a conditional expression under the same assumption
                class Pick(ast.NodeTransformer):
                    def visit_IfExp(self, node: ast.IfExp) -> ast.AST:  # noqa: N802
                        self.generic_visit(node)
                        val = sel_env(flag)(node.test)
                        return node.body if val is True else node.orelse if val is False else node

                exp = Pick().visit(exp)
                out.append(norm(exp))
        return out

    enc_sel, plain_sel = chosen(True), chosen(False)
    okm = bool(enc_sel) and all(x.startswith("EncryptedMessage.from_sequence(") for x in enc_sel) and bool(plain_sel) and all(x.startswith("PlainMessage.from_sequence(") for x in plain_sel)
    rep.check(okm, "C06-R3", md.site(), "Message.decode picks EncryptedMessage exactly when element [3] is an OCTET STRING, else PlainMessage", key=f"{md.key}|class-selection")

    check_value_delivery(ctx, rep)
    # encrypted responses: what is parsed is the privacy plug-in's output, octet for octet
    from . import c11

    sub = ctx.sub_run("c11", rep)
    rep.adopt_rules(sub, "C06-R6", ["C11-R2"])
    # a response with a non-zero error-status is decoded into the documented exception, naming the binding its
    # error-index selects (index 0 / out of range: none) - never into data
    rep.adopt_rules(ctx.sub_run("c08", rep), "C06-R7", ["C08-R1", "C08-R3", "C08-R4"])
    # decoded messages are serialised again (the incoming digest is computed over the re-serialisation): the encoders
    # must emit every field exactly as the decoders stored it
    rep.adopt_rules(ctx.sub_run("c05", rep), "C06-R8", ["C05-R4"])
    # the pythonic view of a value is total: every tick count (0 included) becomes a timedelta
    rep.adopt_rules(ctx.sub_run("c17", rep), "C06-R5", ["C17-R2"])
    rep.adopt_rules(ctx.sub_run("c15", rep), "C06-R5", ["C15-R1"], containing="from_raw")  # the pythonic binding is the pythonize() of what was decoded

    # ------------------------------------------------------------ R4
    integer_dr = ctx.u.cls("x690.types:Integer").methods.get("decode_raw")
    for tag, (name, kind, bits) in sorted(rfc.APPLICATION_TYPES.items()):
        if kind != "unsigned":
            continue
        owners = list(dict.fromkeys(c for (tc, tg, nat), cl in regs.items() if tc == "APPLICATION" and tg == tag for c in cl))
        if len(owners) != 1:
            continue
        cls = owners[0]
        try:
            signed = ctx.r.class_const(cls, "SIGNED")
        except NotConstant:
            signed = None
        dr = ctx.r.method(cls, "decode_raw")
        uses = dr is not None and any(isinstance(n, ast.keyword) and n.arg == "signed" and norm(n.value) == "cls.SIGNED" for n in ast.walk(dr.node))
        rep.check(signed is False and uses, "C06-R4", f"{cls.module.path}:{cls.node.lineno} ({cls.name})", f"{name} decodes with signed=cls.SIGNED and SIGNED evaluates to False", f"SIGNED={signed!r}, decode_raw={dr.key if dr else None}", key=f"{cls.key}|unsigned-decode")
    from . import c17

    sub = ctx.sub_run("c17", rep)
    rep.adopt_rules(sub, "C06-R4", ["C17-R4", "C17-R1"])


def check_value_delivery(ctx: Ctx, rep: Report) -> None:
    from .c02 import FAITHFUL, Containers

    client = ctx.client()
    cont = Containers(ctx, client)
    mg = client.methods.get("multiget")
    if mg is not None:
        cont.cuts = []
        kind, why = cont.returned(mg)
        rep.check(kind == FAITHFUL and not cont.cuts, "C06-R5", mg.site(), "multiget returns the value of every binding of the response (no filtering, no cut-off: noSuchObject / noSuchInstance / endOfMibView values are delivered as such)", f"kind {kind} {why}; cuts: {cont.cuts}", key=f"{mg.key}|values-dropped")
    bg = client.methods.get("bulkget")
    from .fetcheval import emit

    if bg is not None and "bulkget" in emit(ctx, rep, "C06-R5", ["bulkget"]):
        bg = None  # decided by its evaluated contract (an endOfMibView value of a non-repeater is delivered as a value)
    if bg is not None:
        defs = ctx.defs(bg)
        rets = [n for n in own_nodes(bg.node) if isinstance(n, ast.Return) and isinstance(n.value, ast.Call) and len(n.value.args) == 2]
        ok = None
        detail = ""
        if len(rets) == 1:
            sc = rets[0].value.args[0]
            # dict(<scalars>) built from element 0 of the helper's result
            exp = defs.expand(sc)
            src = exp.args[0] if isinstance(exp, ast.Call) and isinstance(exp.func, ast.Name) and exp.func.id in ("dict", "OrderedDict") and exp.args else exp
            cont.cuts = []
            kind, why = cont.kind(bg, src) if not isinstance(src, ast.Name) else cont.kind(bg, src)
            ok = kind == FAITHFUL and not cont.cuts
            detail = f"scalars <- {norm(src)[:60]}: kind {kind} {why}; cuts: {cont.cuts}"
        rep.check(ok, "C06-R5", bg.site(), "bulkget reports every non-repeater binding of the response as it was sent (an endOfMibView value of a scalar is a value, not a cut-off)", detail, key=f"{bg.key}|scalar-values-dropped")
    # the single-value operations hand out the value of the response binding whatever it is (Null, 0 and empty
    # strings included); only the noSuchObject / noSuchInstance classes are turned into NoSuchOID
    from . import c04

    sub = ctx.sub_run("c04", rep)
    rep.adopt_rules(sub, "C06-R5", ["C04-R3", "C04-R5"])


def import_reaches(ctx: Ctx, mod: Module, target: str, seen) -> Tuple[bool, str]:
    """Unconditional (module level, outside if/try/def) import chain from *mod* to *target*."""
    if mod.name in seen:
        return False, ""
    seen.add(mod.name)
    for stmt in mod.tree.body:
        names: List[str] = []
        if isinstance(stmt, ast.Import):
            names = [a.name for a in stmt.names]
        elif isinstance(stmt, ast.ImportFrom):
            base = ctx.r._abs_module(mod, stmt.module, stmt.level)  # pylint: disable=protected-access
            names = [base] + [f"{base}.{a.name}" for a in stmt.names]
        for name in names:
            # importing a.b.c imports a and a.b as well
            parts = name.split(".")
            prefixes = [".".join(parts[: i + 1]) for i in range(len(parts))]
            if target in prefixes:
                return True, f"{mod.name} -> {target}"
            for pre in prefixes:
                nxt = ctx.u.modules.get(pre)
                if nxt is not None and not nxt.external and nxt.name != mod.name:
                    ok, how = import_reaches(ctx, nxt, target, seen)
                    if ok:
                        return True, f"{mod.name} -> {how}"
    return False, f"no unconditional import chain from {mod.name}"


def message_decode_by_evaluation(ctx: Ctx, rep: Report, fs: FuncInfo, msg: ClassInfo, header: ClassInfo, spdu: ClassInfo, flags: ClassInfo) -> bool:
    """
    Message.from_sequence evaluated (engine/minieval.py) on a symbolic SNMPv3 message sequence, once per flag
    octet: every field of the result must be the element RFC 3412 puts at that position.  Returns False when the
    code cannot be followed by the evaluator (the caller then falls back to reading its structure).
    """
    from ..engine.minieval import ClassRef, Instance, MiniEval, Raised, Sym, Unevaluable

    integer = ctx.u.cls("x690.types:Integer")
    octets = ctx.u.cls("x690.types:OctetString")

    def x690_int(v: int) -> "Instance":
        inst = Instance(integer, [], {})
        inst.attrs.update(value=v, pyvalue=v)
        return inst

    def x690_octets(v) -> "Instance":
        inst = Instance(octets, [], {})
        inst.attrs.update(value=v, pyvalue=v)
        return inst

    results = []
    # every field over its interesting values: all flag octets x msgMaxSize / msgID at and around the protocol limits
    # (a decoder that clamps or masks a field differs from the wire only beyond such a limit)
    grid = [(o, 65000, 4711) for o in (0x00, 0x01, 0x03, 0x04, 0x05, 0x07)] + [(0x05, ms, mid) for ms in (484, 1472, 65507, 65508, 65535, 2**31 - 1) for mid in (0, 2**31 - 1)] + [(0x04, 65507, mid) for mid in (2**31, 2**32 - 1, 2**32 + 5)]
    for octet, max_size_v, msg_id_v in grid:
        version, msg_id, max_size, model = x690_int(3), x690_int(msg_id_v), x690_int(max_size_v), x690_int(3)
        secparams = x690_octets(Sym("security-parameter-octets"))
        eid, cname, pdu = x690_octets(Sym("context-engine-id")), x690_octets(Sym("context-name")), Sym("pdu")
        priv = bool(octet & rfc.MSGFLAG_PRIV)
        payload = x690_octets(Sym("ciphertext")) if priv else [eid, cname, pdu]
        seq = [version, [msg_id, max_size, x690_octets(bytes([octet])), model], secparams, payload]
        try:
            got = MiniEval(ctx).call_function(fs, [ClassRef(msg), seq])
        except Unevaluable as exc:
            rep.info(f"Message.from_sequence is not followed by the evaluator ({exc}); falling back to its structure")
            return False
        except Raised as exc:
            results.append((f"{octet:#04x}, msgMaxSize {max_size_v}, msgID {msg_id_v}", False, f"raises {exc.value!r}"))
            continue
        ok = isinstance(got, Instance) and ctx.r.is_subclass(got.cls, msg)
        detail = repr(got)
        if ok:
            f = got.attrs
            hd = f.get("header")
            ok = f.get("version") is version and f.get("security_parameters") == Sym("security-parameter-octets") and isinstance(hd, Instance) and hd.cls.key == header.key
            if ok:
                h = hd.attrs
                fl = h.get("flags")
                ok = h.get("message_id") == msg_id_v and h.get("message_max_size") == max_size_v and h.get("security_model") == 3 and isinstance(fl, Instance) and fl.cls.key == flags.key
                ok = ok and {k: bool(fl.attrs.get(k)) for k in ("auth", "priv", "reportable")} == {"auth": bool(octet & rfc.MSGFLAG_AUTH), "priv": priv, "reportable": bool(octet & rfc.MSGFLAG_REPORTABLE)}
            if ok:
                sp = f.get("scoped_pdu")
                if priv:
                    ok = sp is payload
                else:
                    ok = isinstance(sp, Instance) and sp.cls.key == spdu.key and sp.attrs.get("context_engine_id") is eid and sp.attrs.get("context_name") is cname and sp.attrs.get("data") == pdu
        results.append((f"{octet:#04x}, msgMaxSize {max_size_v}, msgID {msg_id_v}", ok, detail))
    for octet, ok, detail in results:
        rep.check(ok, "C06-R3", fs.site(), f"Message.from_sequence (msgFlags {octet}): version <- [0], header <- [1] = (msgID, msgMaxSize, msgFlags, securityModel), security parameters <- [2], payload <- [3] (ciphertext as is with the priv flag, else ScopedPDU(contextEngineID, contextName, data))", detail[:300], key=f"{fs.key}|index-map")
    return True


def pdu_fields_by_evaluation(ctx: Ctx, rep: Report, pe) -> None:
    """PDU.decode_raw evaluated on a modelled TLV stream: each field of the result is the element RFC 3416 puts there."""
    from ..engine.minieval import Instance

    fn = pe.fn
    content = ctx.u.cls("puresnmp.pdu:PDUContent")
    vb_cls = ctx.u.cls("puresnmp.varbind:VarBind")
    for rid, index, count in ((7, 0, 0), (4711, 0, 1), (2**31 - 1, 3, 3), (0, 1, 5), (-5, 0, 2)):
        kind, val, (oids, vals) = pe.run(rid, 0, index, count)
        text = f"request-id {rid}, error-index {index}, {count} binding(s): PDUContent(request_id <- 1st INTEGER, error_status <- 2nd, error_index <- 3rd, varbinds <- the SEQUENCE's (oid, value) pairs in wire order)"
        if kind == "uneval":
            rep.undecided("C06-R3", fn.site(), text, f"not evaluable: {val}")
            continue
        ok = kind == "return" and isinstance(val, Instance) and val.cls.key == content.key
        if ok:
            a = val.attrs
            vbs = a.get("varbinds")
            ok = a.get("request_id") == rid and a.get("error_status") == 0 and a.get("error_index") == index and isinstance(vbs, list) and len(vbs) == count
            ok = ok and all(isinstance(v, Instance) and v.cls.key == vb_cls.key and (v.attrs.get("oid") if "oid" in v.attrs else (v.args[0] if v.args else None)) is o and (v.attrs.get("value") if "value" in v.attrs else (v.args[1] if len(v.args) > 1 else None)) == x for v, o, x in zip(vbs, oids, vals))
        rep.check(ok, "C06-R3", fn.site(), text, f"{kind}: {val!r}"[:300], key=f"{fn.key}|field-binding")


def pdu_fields_structurally(ctx: Ctx, rep: Report) -> None:
    pd = PduDecode(ctx)
    fn = pd.fn
    order_ok = [r[1] for r in pd.reads[:3]] == ["Integer", "Integer", "Integer"] and any(r[1] == "Sequence" for r in pd.reads[3:])
    # chained offsets: each read starts where the previous one ended
    chain_ok = True
    prev_next = None
    for var, enf, call, stmt in pd.reads:
        start = call.args[1] if len(call.args) > 1 else next((kw.value for kw in call.keywords if kw.arg == "start_index"), None)
        if prev_next is not None and (start is None or norm(start) != prev_next):
            # the error branch re-reads from the same offset as the normal branch
            if not (start is not None and norm(start) == prev_prev):
                chain_ok = False
        tgt = stmt.targets[0]
        prev_prev = prev_next
        prev_next = norm(tgt.elts[1])
    rep.check(order_ok and chain_ok, "C06-R3", fn.site(), "PDU.decode_raw reads request-id, error-status, error-index (INTEGER) and the binding list (SEQUENCE) consecutively", f"reads: {[(r[0], r[1]) for r in pd.reads]}", key=f"{fn.key}|read-order")
    content = ctx.u.cls("puresnmp.pdu:PDUContent")
    rets = [n for n in own_nodes(fn.node) if isinstance(n, ast.Return) and isinstance(n.value, ast.Call) and ctx.r.resolve_class(fn.module, n.value.func) == content]
    ok = len(rets) == 1
    detail = ""
    if ok:
        b = bind_call_args(rets[0].value, dataclass_fields(content), skip_self=False)
        want = {"request_id": f"{pd.request_id}.value", "error_status": f"{pd.error_status}.value", "error_index": f"{pd.error_index}.value"}
        fdefs = ctx.defs(fn)
        got = {k: norm(fdefs.expand(v, stop=[pd.request_id, pd.error_status, pd.error_index])) for k, v in b.items()}
        ok = all(got.get(k) == v for k, v in want.items())
        detail = f"{got}"
        # varbinds: built from the Sequence read, in order
        vb = b.get("varbinds")
        seq_vars = [r[0] for r in pd.seq_reads]
        okv = False
        if isinstance(vb, ast.Name):
            for n in own_nodes(fn.node):
                if isinstance(n, ast.For) and norm(n.iter) in seq_vars and isinstance(n.target, ast.Tuple) and len(n.target.elts) == 2:
                    t0, t1 = norm(n.target.elts[0]), norm(n.target.elts[1])
                    for c in ast.walk(n):
                        if isinstance(c, ast.Call) and isinstance(c.func, ast.Attribute) and c.func.attr == "append" and norm(c.func.value) == vb.id and len(c.args) == 1 and norm(c.args[0]) == f"VarBind({t0}, {t1})":
                            okv = True
        ok = ok and okv
        detail += f"; bindings rebuilt in order: {okv}"
    rep.check(ok, "C06-R3", fn.site(), "the decoded fields are bound to PDUContent by name: request_id, varbinds (oid, value pairs in wire order), error_status, error_index", detail, key=f"{fn.key}|field-binding")
