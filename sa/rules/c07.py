"""
C07 - only the response to the request actually sent is ever returned.

R1  same value: the request id placed in the PDU and the id handed to the
    sender-calling method for validation are one value (one clock read).
R2  validation is unavoidable in the sender-calling method, and the validator
    raises InvalidResponseId iff the ids differ.
R3  single seam: every call of a network sender lies in a pass-through closure
    or in a function that validates the id of what it received.
R4  community / version refusal in every community security model.
R5  discovery: probe message id, probe PDU id and validated id are one value,
    and the validation precedes the construction of the discovery data.
"""
from __future__ import annotations

import ast
from typing import Dict, List, Optional, Tuple

from ..engine.context import Ctx, bind_call_args, dataclass_fields
from ..engine.exprs import norm, strip_casts
from ..engine.patterns import (
    calls_resolving_to,
    cfg_node_of,
    compare_env,
    derived_names,
    mentions,
    raised_class,
    simulate,
    value_number,
)
from ..engine.report import Report
from ..engine.universe import AnalysisError, ClassInfo, FuncInfo, own_nodes
from .. import rfc

def validators(ctx: Ctx) -> List[str]:
    """Functions that play the validator role: two parameters, raise InvalidResponseId (found by role, wherever they live)."""
    cached = getattr(ctx, "_c07_validators", None)
    if cached is not None:
        return cached
    target = ctx.u.cls("puresnmp.exc:InvalidResponseId")
    out = []
    for fn in ctx.u.functions.values():
        if fn.module.external or fn.cls is not None or fn.parent is not None or len(fn.params) != 2:
            continue
        for n in own_nodes(fn.node):
            if isinstance(n, ast.Raise) and n.exc is not None and ctx.exc_class(fn, n.exc) == target:
                out.append(fn.key)
                break
    named = ctx.u.maybe_func("puresnmp.util:validate_response_id")
    if named is not None and named.key not in out:
        out.append(named.key)  # documented validator: checked even if it no longer raises (then R2 reports it)
    if not out:
        raise AnalysisError("no function raising InvalidResponseId for two ids was found (validator vanished)")
    ctx._c07_validators = out  # type: ignore[attr-defined]
    return out


def pdu_request_id_expr(ctx: Ctx, fn: FuncInfo, expr: ast.AST) -> Optional[ast.expr]:
    """The expression that becomes the request-id field of the PDU built by *expr*."""
    defs = ctx.defs(fn)
    expr = strip_casts(expr)
    if isinstance(expr, ast.Name):
        val = defs.single(expr.id)
        if val is None:
            return None
        expr = val
    if not isinstance(expr, ast.Call):
        return None
    pdu_cls = ctx.u.cls("puresnmp.pdu:PDU")
    content_cls = ctx.u.cls("puresnmp.pdu:PDUContent")
    for callee in ctx.r.callees(fn, expr):
        if not isinstance(callee, ClassInfo) or not ctx.r.is_subclass(callee, pdu_cls):
            continue
        init = ctx.r.method(callee, "__init__")
        if init is not None and init.cls is not None and init.cls.module.name.startswith("puresnmp"):
            # hand-written constructor (BulkGetRequest, Trap): bind by parameter name
            bound = bind_call_args(expr, init.params)
            if "request_id" in bound:
                return bound["request_id"]
        # generic PDU: single argument is a PDUContent(...)
        if expr.args:
            inner = strip_casts(expr.args[0])
            if isinstance(inner, ast.Name):
                inner = defs.single(inner.id) or inner
            if isinstance(inner, ast.Call):
                for c2 in ctx.r.callees(fn, inner):
                    if c2 == content_cls:
                        bound = bind_call_args(inner, dataclass_fields(content_cls), skip_self=False)
                        return bound.get("request_id")
    return None


def check_validator(ctx: Ctx, rep: Report) -> None:
    for key in validators(ctx):
        check_one_validator(ctx, rep, ctx.fn(key))


def check_one_validator(ctx: Ctx, rep: Report, fn: FuncInfo) -> None:
    params = fn.params
    site = fn.site()
    text = "validator raises InvalidResponseId iff request id and response id differ"
    if len(params) != 2:
        rep.undecided("C07-R2", site, text, "validator no longer takes exactly two ids")
        return
    cfg = ctx.cfg(fn)
    target = ctx.u.cls("puresnmp.exc:InvalidResponseId")

    def env_for(equal: bool):
        def classify(cmp: ast.Compare) -> Optional[bool]:
            names = {norm(cmp.left), norm(cmp.comparators[0])}
            if names != set(params):
                return None
            op = cmp.ops[0]
            if isinstance(op, ast.Eq):
                return equal
            if isinstance(op, ast.NotEq):
                return not equal
            if isinstance(op, (ast.Lt, ast.Gt)):
                return None if not equal else False
            if isinstance(op, (ast.LtE, ast.GtE)):
                return True if equal else None
            return None

        return compare_env(classify)

    eq_out = simulate(cfg, env_for(True))
    ne_out = simulate(cfg, env_for(False))
    ok_eq = bool(eq_out) and all(o.kind in ("return", "fallthrough") for o in eq_out)
    ok_ne = bool(ne_out) and all(o.kind == "raise" and raised_class(ctx, fn, o) is not None and ctx.r.is_subclass(raised_class(ctx, fn, o), target) for o in ne_out)
    rep.check(ok_eq, "C07-R2", site, "equal ids are accepted (no raise)", f"outcomes for equal ids: {eq_out}", key=f"{fn.key}|accept-equal")
    rep.check(ok_ne, "C07-R2", site, "different ids raise InvalidResponseId on every path", f"outcomes for different ids: {ne_out}", key=f"{fn.key}|refuse-different")


def response_id_like(defs, expr: ast.AST, resp_names, field: str = "request_id") -> bool:
    """``<decoded response>.....<field>``: the PDU's request_id for an exchange, the header's message_id for discovery."""
    expr = strip_casts(expr)
    if isinstance(expr, ast.Name):
        val = defs.single(expr.id)
        return val is not None and response_id_like(defs, val, resp_names, field)
    if not (isinstance(expr, ast.Attribute) and expr.attr == field and mentions(expr, resp_names)):
        return False
    if field == "message_id":
        return isinstance(expr.value, ast.Attribute) and expr.value.attr == "header"
    return True


def validation_after(ctx: Ctx, fn: FuncInfo, sender_call: ast.Call, id_vn, rep: Report, rule: str, what: str, field: str = "request_id") -> None:
    """Every path from the sender call to a normal return passes validate(id, <response id>)."""
    cfg = ctx.cfg(fn)
    defs = ctx.defs(fn)
    snode = cfg_node_of(cfg, sender_call)
    site = fn.site(sender_call)
    text = f"{what}: every path from the network exchange to a normal return validates the response id against the id that was sent"
    if snode is None:
        rep.undecided(rule, site, text, "sender call not found in the CFG")
        return
    # the raw response and everything decoded from it
    raw_names = set()
    stmt = snode.ast
    if isinstance(stmt, ast.Assign):
        for tgt in stmt.targets:
            for n in ast.walk(tgt):
                if isinstance(n, ast.Name):
                    raw_names.add(n.id)
    resp_names = derived_names(defs, raw_names, fn.node) if raw_names else set()
    good_nodes = []
    for call in calls_resolving_to(ctx, fn, *validators(ctx)):
        callee = next(c for c in ctx.r.callees(fn, call) if isinstance(c, FuncInfo) and c.key in validators(ctx))
        bound = bind_call_args(call, callee.params, skip_self=False)
        vals = list(bound.values())
        if len(vals) != 2:
            continue
        vns = [value_number(defs, v) for v in vals]
        sent = [i for i, vn in enumerate(vns) if vn == id_vn]
        if len(sent) != 1:
            continue
        other = vals[1 - sent[0]]
        if response_id_like(defs, other, resp_names, field):
            node = cfg_node_of(cfg, call)
            if node is not None:
                good_nodes.append(node)
    if not good_nodes:
        rep.violated(rule, site, text, f"no call of validate_response_id compares the id that was sent with the {'msgID of the reply header (RFC 3412: the msgID is what matches a reply to its request)' if field == 'message_id' else 'request-id of the decoded response PDU'}", key=f"{fn.key}|no-validation")
        return
    ok = cfg.must_pass(snode, [cfg.exit], good_nodes)
    wit = None
    if not ok:
        path = cfg.witness_path(snode, [cfg.exit], avoid=good_nodes)
        wit = [repr(n) for n in path] if path else None
    rep.check(ok, rule, site, text, "a path reaches the return without validation" if not ok else f"validated at line(s) {[n.lineno for n in good_nodes]}", key=f"{fn.key}|validation-bypass", witness=wit)


def check_expected_id_is_frame_local(ctx: Ctx, rep: Report, rule: str = "C07-R9") -> None:
    """
    The id a response is matched against belongs to the call that sent the request: a parameter, a local or a field of
    a local (the request PDU).  An id parked on ``self`` (or in a module global) is overwritten by the next request
    that starts while this one awaits its response - the response is then matched against another request's id.
    """
    vkeys = set(validators(ctx))
    for fn in ctx.u.functions.values():
        if fn.module.external or not fn.module.name.startswith("puresnmp"):
            continue
        for call in own_nodes(fn.node):
            if not (isinstance(call, ast.Call) and call.args and any(isinstance(c, FuncInfo) and c.key in vkeys for c in ctx.r.callees(fn, call))):
                continue
            defs = ctx.defs(fn)
            exp = defs.expand(call.args[0])
            root = exp
            while isinstance(root, (ast.Attribute, ast.Subscript)):
                root = root.value
            if isinstance(root, ast.Call):
                ok: Optional[bool] = True  # a value computed here (a fresh id / a conversion of a local) - R1 compares it
                for n in ast.walk(root):
                    if isinstance(n, ast.Attribute) and isinstance(n.value, ast.Name) and n.value.id in ("self", "cls") and isinstance(exp, ast.Attribute):
                        ok = None
            elif isinstance(root, ast.Name):
                if root.id in ("self", "cls") and isinstance(exp, (ast.Attribute, ast.Subscript)):
                    ok = False
                elif root.id in fn.params or defs.all_values(root.id) or root.id in defs.unpack or root.id in defs.other_defs:
                    ok = True
                else:
                    ok = False  # a module global
            else:
                ok = isinstance(root, ast.Constant) or None
            rep.check(
                ok,
                rule,
                fn.site(call),
                "the id a response is matched against is local to the call that sent the request (parameter, local, field of the request), not state another request can overwrite while this one waits",
                f"expected id = {norm(exp)}",
                key=f"{fn.key}|expected-id-shared-state",
            )


def run(ctx: Ctx, rep: Report) -> None:
    rep.rule("C07-R9", "the expected id is frame-local: never parked in instance or module state across the await", floor=1)
    check_expected_id_is_frame_local(ctx, rep)
    rep.rule("C07-R1", "the id placed in the request PDU and the id validated are one value (single clock read)", floor=2)
    rep.rule("C07-R2", "validation of the response id is unavoidable in the sender-calling method; the validator is exact", floor=2)
    rep.rule("C07-R3", "every network sender call is a pass-through closure or is followed by id validation", floor=2)
    rep.rule("C07-R4", "community security models refuse a wrong version or community before returning the PDU; they are the models their message-processing model installs", floor=9)
    rep.rule("C07-R5", "discovery: probe ids are one value and are validated before discovery data is built", floor=2)
    rep.level = "proof"
    rep.assumptions += [
        "get_request_id (and any other call) may return a different value on every evaluation",
        "the decoded response's request_id attribute is the id carried by the response (C06)",
    ]
    client = ctx.client()
    send = ctx.send_method()
    sender_attr = ctx.sender_attr()
    rep.analysed["sender_seam"] = send.key

    # ---------------------------------------------------------------- R1
    sig = ctx.send_signature(send)
    assert sig is not None
    pdu_param, id_param = sig
    # operations are read with their small helpers spliced in (a request built by `pdu, rid = self._new_request(..)`)
    callers = [(fn, call) for fn, call in ctx.callers_of(send, [ctx.inlined(m, keep=[send.key] + [m2.key for m2 in client.methods.values() if not m2.name.startswith("_")]) for m in client.methods.values()])]
    for fn, call in callers:
        bound = bind_call_args(call, send.params)
        site = fn.site(call)
        text = "request id in the PDU == id passed for validation"
        if pdu_param not in bound or id_param not in bound:
            rep.undecided("C07-R1", site, text, "cannot bind the arguments of the sender-calling method")
            continue
        defs = ctx.defs(fn)
        pdu_id = pdu_request_id_expr(ctx, fn, bound[pdu_param])
        if pdu_id is None:
            rep.undecided("C07-R1", site, text, f"cannot find the request-id field of the PDU built for {norm(bound[pdu_param])}")
            continue
        vn_pdu = value_number(defs, pdu_id)
        vn_val = value_number(defs, bound[id_param])
        same = vn_pdu == vn_val and vn_pdu[0] in ("def", "param", "const")
        rep.check(
            same,
            "C07-R1",
            site,
            text,
            f"PDU id = {norm(pdu_id)} {vn_pdu}; validated id = {norm(bound[id_param])} {vn_val}",
            key=f"{fn.key}|pdu-id-vs-validated-id",
        )

    # ---------------------------------------------------------------- R2
    check_validator(ctx, rep)
    sender_calls = [
        n
        for n in own_nodes(send.node)
        if isinstance(n, ast.Call) and isinstance(n.func, ast.Attribute) and n.func.attr == sender_attr and isinstance(n.func.value, ast.Name) and n.func.value.id == "self"
    ]
    for call in sender_calls:
        validation_after(ctx, send, call, ("param", id_param), rep, "C07-R2", f"{send.qualname}")

    # ---------------------------------------------------------------- R3
    senders: List[Tuple[FuncInfo, ast.Call, str]] = []
    for fn in ctx.u.functions.values():
        if fn.module.external:
            continue
        for node in own_nodes(fn.node):
            if not isinstance(node, ast.Call):
                continue
            names = ctx.r.callee_names(fn, node)
            func = node.func
            kind = None
            if "puresnmp.transport:send_udp" in names:
                kind = "send_udp"
            elif isinstance(func, ast.Attribute) and func.attr == sender_attr and ctx.r.expr_classes(fn, func.value) and client in ctx.r.expr_classes(fn, func.value):
                kind = "client.sender"
            elif isinstance(func, ast.Name) and func.id in ("sender", "transport_handler") and func.id in (fn.params + (fn.parent.params if fn.parent else [])):
                kind = f"param:{func.id}"
            elif isinstance(func, ast.Attribute) and func.attr == "transport_handler":
                kind = "attr:transport_handler"
            if kind:
                senders.append((fn, node, kind))
    for fn, call, kind in senders:
        site = fn.site(call)
        text = f"sender call ({kind}) is a pass-through closure or validated"
        # pass-through: the function returns exactly the awaited result of this call
        passthrough = False
        for node in own_nodes(fn.node):
            if isinstance(node, ast.Return) and node.value is not None:
                val = node.value
                if isinstance(val, ast.Await):
                    val = val.value
                if val is call:
                    passthrough = True
        if passthrough and (fn.parent is not None or (fn.cls is not None and fn.name == "__call__" and not ctx.callers_of(fn))):
            rep.ok("C07-R3", site, text, "pass-through closure / callable object: returns the received bytes unprocessed to its caller")
            continue
        if passthrough and fn != send:
            # a pass-through helper method (Client._transmit): the duty to validate moves to every caller
            bad = []
            users = ctx.callers_of(fn)
            for caller, ccall in users:
                if caller == send:
                    continue  # the seam: validated on its inlined view (C07-R2)
                ccfg = ctx.cfg(caller)
                vn = [cfg_node_of(ccfg, c) for c in calls_resolving_to(ctx, caller, *validators(ctx))]
                vn = [n for n in vn if n is not None]
                sn = cfg_node_of(ccfg, ccall)
                if not (vn and sn is not None and ccfg.must_pass(sn, [ccfg.exit], vn)):
                    bad.append(caller.qualname)
            rep.check(bool(users) and not bad, "C07-R3", site, text, f"pass-through helper; callers that do not validate the response id: {bad}" if bad else "pass-through helper; every caller validates", key=f"{fn.key}|unvalidated-sender")
            continue
        if fn == send:
            rep.ok("C07-R3", site, text, "validated (C07-R2)")
            continue
        # any other function must validate: look for a validator call dominating the normal exit
        cfg = ctx.cfg(fn)
        vnodes = [cfg_node_of(cfg, c) for c in calls_resolving_to(ctx, fn, *validators(ctx))]
        vnodes = [n for n in vnodes if n is not None]
        snode = cfg_node_of(cfg, call)
        ok = bool(vnodes) and snode is not None and cfg.must_pass(snode, [cfg.exit], vnodes)
        rep.check(ok, "C07-R3", site, text, "function sends to the network and returns without validating the response id", key=f"{fn.key}|unvalidated-sender")

    # ---------------------------------------------------------------- R4
    sm_base = ctx.u.cls("puresnmp.plugins.security:SecurityModel")
    for mod in ctx.r.plugin_modules("puresnmp_plugins.security"):
        ident = ctx.r.plugin_identifier(mod)
        if ident not in rfc.COMMUNITY_VERSION_BY_SECMODEL:
            continue
        want_version = rfc.COMMUNITY_VERSION_BY_SECMODEL[ident]
        for cls in [c for c in ctx.u.classes.values() if c.module is mod and ctx.r.is_subclass(c, sm_base)]:
            check_community_model(ctx, rep, cls, want_version)
        # the community model is the one the message-processing model of that version installs for itself
        from .common import check_incoming_model

        try:
            check_incoming_model(ctx, rep, "C07-R4", want_version, ident)
        except AnalysisError as exc:
            rep.undecided("C07-R4", f"puresnmp_plugins/mpm (identifier {ident})", "the message-processing model of this version exists", str(exc))

    # ---------------------------------------------------------------- R5
    check_discovery(ctx, rep)
    # the version / community test above is made by the plug-ins of the message-processing model in use: it only
    # speaks for the credentials the caller configured if a change of credential class replaces that model
    from . import c18

    rep.rule("C07-R8", "the message id sent and the message id compared are the ids on the wire (header encoder and message decoder neither clamp nor mask; shared with C05-R4 / C06-R3)", floor=5)
    rep.rule("C07-R7", "a mismatching response always surfaces: InvalidResponseId is not a subclass of an exception the walk loop swallows", floor=1)
    rep.rule("C07-R6", "the plug-ins that test version and community are those selected by the credentials in use (a change of credential class replaces the message-processing model)", floor=1)
    sub = ctx.sub_run("c18", rep)
    rep.adopt_rules(sub, "C07-R6", ["C18-R4"])
    from .common import check_not_quietly_caught

    raised = []
    for key in validators(ctx):
        vfn = ctx.u.maybe_func(key)
        if vfn is None:
            continue
        for n in own_nodes(vfn.node):
            if isinstance(n, ast.Raise) and n.exc is not None:
                raised += [c for c in (ctx.exc_classes(vfn, n.exc) or []) if c not in raised]
    check_not_quietly_caught(ctx, rep, "C07-R7", raised, "raised for a response id that does not match")
    # the ids compared are the ids on the wire: the header encoder emits the message id it was given, the message
    # decoder hands out the one it received (no clamping / masking on either side)
    rep.adopt_rules(ctx.sub_run("c05", rep), "C07-R8", ["C05-R4"], containing="msgID")
    rep.adopt_rules(ctx.sub_run("c06", rep), "C07-R8", ["C06-R3"], containing="Message.from_sequence")


def check_community_model(ctx: Ctx, rep: Report, cls: ClassInfo, want_version: int, rule: str = "C07-R4") -> None:
    proc = ctx.r.method(cls, "process_incoming_message")
    gen = ctx.r.method(cls, "generate_request_message")
    if not ({"process_incoming_message", "generate_request_message"} <= set(cls.methods)) and [c for c in ctx.r.subclasses(cls) if not c.module.external]:
        return  # a base class shared by the community models: decided through each concrete subclass
    if proc is None or gen is None or proc.module.external or gen.module.external or proc.cls is ctx.u.cls("puresnmp.plugins.security:SecurityModel"):
        rep.undecided(rule, f"{cls.module.path} ({cls.name})", "community model implements both directions", "method missing")
        return
    proc = ctx.inlined(proc)  # the checks may live in a helper shared by the community models (self._accept(message, community))
    defs = ctx.defs(proc)
    # fields of the incoming message: tuple-unpack or subscripts of the message parameter
    msg_param = proc.params[1]
    cred_param = proc.params[2]
    field_of: Dict[str, int] = {}
    def is_msg(e: ast.AST) -> bool:
        e = defs.expand(e) if isinstance(e, ast.Name) else e  # a parameter slot of a spliced helper (_i1_message = message)
        return isinstance(e, ast.Name) and e.id == msg_param

    for name, entries in defs.unpack.items():
        for value, idx, _ in entries:
            if is_msg(value):
                field_of[name] = idx
    for name, vals in defs.assigns.items():
        for value, _ in vals:
            v = strip_casts(value)
            if isinstance(v, ast.Subscript) and is_msg(v.value) and isinstance(v.slice, ast.Constant):
                field_of[name] = v.slice.value

    def field_index(expr: ast.AST) -> Optional[int]:
        for n in ast.walk(expr):
            if isinstance(n, ast.Name) and n.id in field_of:
                return field_of[n.id]
            if isinstance(n, ast.Subscript) and is_msg(n.value) and isinstance(n.slice, ast.Constant):
                return n.slice.value
        return None

    # emitted constant
    emitted = None
    from .ber import returned_sequence

    items = returned_sequence(ctx, gen, cls)
    if items is not None and len(items) == 3 and items[0][0] == "Integer":
        try:
            emitted = int(items[0][1])
        except ValueError:
            emitted = None
    site = proc.site()
    compared: List[object] = []

    def scenario(version_ok: bool, community_ok: bool):
        def classify(cmp: ast.Compare) -> Optional[bool]:
            cmp = ctx.xexpand(proc, cmp, depth=2, stop=list(field_of))  # type: ignore[assignment]
            if not isinstance(cmp, ast.Compare) or len(cmp.ops) != 1:
                return None
            left, right = cmp.left, cmp.comparators[0]
            # a community message is SEQUENCE { version, community, PDU }: three elements in every scenario
            for a, b, flip in ((left, right, False), (right, left, True)):
                if isinstance(a, ast.Call) and isinstance(a.func, ast.Name) and a.func.id == "len" and len(a.args) == 1 and norm(strip_casts(a.args[0])) == msg_param and isinstance(b, ast.Constant) and isinstance(b.value, int):
                    import operator as _op

                    table = {ast.Eq: _op.eq, ast.NotEq: _op.ne, ast.Lt: _op.lt, ast.LtE: _op.le, ast.Gt: _op.gt, ast.GtE: _op.ge}
                    fn_ = table.get(type(cmp.ops[0]))
                    if fn_ is not None:
                        return fn_(b.value, 3) if flip else fn_(3, b.value)
            idx_l, idx_r = field_index(left), field_index(right)
            op = cmp.ops[0]
            which = None
            if (idx_l == 0) != (idx_r == 0):
                which = "version"
                other = right if idx_l == 0 else left
                try:
                    compared.append(ctx.r.const(proc.module, other, cls))
                except Exception:  # pylint: disable=broad-except
                    compared.append(None)
            elif (idx_l == 1) != (idx_r == 1):
                other = right if idx_l == 1 else left
                mine = left if idx_l == 1 else right
                # an exact comparison: the received octets as they are against the configured community's octets
                exact_field = isinstance(mine, ast.Call) and isinstance(mine.func, ast.Attribute) and mine.func.attr == "pythonize" and not mine.args and isinstance(mine.func.value, (ast.Name, ast.Subscript))
                exact_field = exact_field or (isinstance(mine, ast.Attribute) and mine.attr == "value" and isinstance(mine.value, (ast.Name, ast.Subscript)))
                exact_other = norm(other) in (f"{cred_param}.community.encode('ascii')", f"{cred_param}.community.encode('utf8')", f"{cred_param}.community.encode('utf-8')", f"{cred_param}.community.encode()", f"{cred_param}.community")
                if exact_field and exact_other:
                    which = "community"
            if which is None:
                return None
            match = version_ok if which == "version" else community_ok
            if isinstance(op, ast.Eq):
                return match
            if isinstance(op, ast.NotEq):
                return not match
            return None

        def env(expr: ast.expr) -> Optional[bool]:
            if isinstance(expr, ast.Compare) and len(expr.ops) == 1:
                return classify(expr)
            if isinstance(expr, ast.Call) and isinstance(expr.func, ast.Name) and expr.func.id == "isinstance":
                return True  # credentials have the model's own type in every scenario
            return None

        return env

    cfg = ctx.cfg(proc)
    snmp_error = ctx.u.cls("puresnmp.exc:SnmpError")

    def sim_expand(expr: ast.AST) -> ast.AST:
        # boolean locals (is_v1 = version == 0) are looked through; the message fields keep their names
        return defs.expand(expr, stop=list(field_of))

    for v_ok, c_ok, label in [(False, True, "wrong version"), (True, False, "wrong community"), (False, False, "both wrong")]:
        outs = simulate(cfg, scenario(v_ok, c_ok), expand=sim_expand)
        ok = bool(outs) and all(o.kind == "raise" and raised_class(ctx, proc, o) is not None and ctx.r.is_subclass(raised_class(ctx, proc, o), snmp_error) for o in outs)
        rep.check(ok, rule, site, f"{cls.name}: a response with {label} is refused with SnmpError on every path", f"outcomes: {outs}", key=f"{proc.key}|{label.replace(' ', '-')}")
    outs = simulate(cfg, scenario(True, True), expand=sim_expand)
    ret_ok = bool(outs) and all(o.kind == "return" and isinstance(o.stmt, ast.Return) and o.stmt.value is not None and field_index(o.stmt.value) == 2 for o in outs)
    rep.check(ret_ok, rule, site, f"{cls.name}: a matching response returns the PDU element of the message", f"outcomes: {outs}", key=f"{proc.key}|accept-matching")
    consts = [c for c in compared if c is not None]
    agree = emitted is not None and bool(consts) and all(c == emitted for c in consts)
    rep.check(
        agree,
        rule,
        site,
        f"{cls.name}: the version constant checked on input equals the one emitted",
        f"emitted={emitted!r} compared={sorted(set(map(repr, consts)))}",
        key=f"{proc.key}|version-constant-agreement",
    )
    rep.check(
        emitted == want_version,
        rule,
        gen.site(),
        f"{cls.name}: emitted version constant is {want_version} (RFC 1157 / RFC 1901)",
        f"emitted={emitted!r}",
        key=f"{gen.key}|version-constant-rfc",
    )


def check_discovery(ctx: Ctx, rep: Report) -> None:
    usm_cls = None
    for cls in ctx.r.plugin_instance_classes(ctx.fn("puresnmp.plugins.security:create"), 3):
        usm_cls = cls
    if usm_cls is None:
        raise AnalysisError("the security plug-in with identifier 3 (USM) was not found")
    fn = ctx.r.method(usm_cls, "send_discovery_message")
    if fn is None or fn.cls is None or fn.cls.module.external or fn.cls.name == "SecurityModel":
        raise AnalysisError("USM does not implement send_discovery_message")
    handler_param = fn.params[1]

    def probe_calls(f: FuncInfo, param: str) -> List[ast.Call]:
        return [n for n in own_nodes(f.node) if isinstance(n, ast.Call) and isinstance(n.func, ast.Name) and n.func.id == param]

    # the exchange may live in a helper the entry point hands the transport to (self._discover(transport_handler))
    for _ in range(3):
        if probe_calls(fn, handler_param):
            break
        nxt = None
        for n in own_nodes(fn.node):
            if not isinstance(n, ast.Call) or not any(isinstance(a, ast.Name) and a.id == handler_param for a in list(n.args) + [k.value for k in n.keywords]):
                continue
            for callee in ctx.r.callees(fn, n):
                if isinstance(callee, FuncInfo) and not callee.module.external and callee is not fn:
                    bound = bind_call_args(n, callee.params)
                    for pname, arg in bound.items():
                        if isinstance(arg, ast.Name) and arg.id == handler_param:
                            nxt = (callee, pname)
        if nxt is None:
            break
        fn, handler_param = nxt
    defs = ctx.defs(fn)
    sends = probe_calls(fn, handler_param)
    site = fn.site()
    if len(sends) != 1:
        rep.undecided("C07-R5", site, "discovery sends exactly one probe", f"{len(sends)} transport calls found")
        return
    header_cls = ctx.u.cls("puresnmp.adt:HeaderData")
    header_ids = []
    pdu_ids = []
    pdu_base = ctx.u.cls("puresnmp.pdu:PDU")

    def collect_ids(f: FuncInfo, to_outer, depth: int = 0) -> None:
        """Message ids / request ids of the probe built in *f* (or in a builder helper it calls), in *fn*'s terms."""
        for node in own_nodes(f.node):
            if not isinstance(node, ast.Call):
                continue
            if ctx.r.call_resolves_to(f, node, header_cls.key):
                bound = bind_call_args(node, dataclass_fields(header_cls), skip_self=False)
                if "message_id" in bound:
                    header_ids.append(to_outer(bound["message_id"]))
                continue
            callees = ctx.r.callees(f, node)
            if any(isinstance(c, ClassInfo) and ctx.r.is_subclass(c, pdu_base) for c in callees):
                pid = pdu_request_id_expr(ctx, f, node)
                if pid is not None:
                    pdu_ids.append(to_outer(pid))
                continue
            if depth < 2 and (depth > 0 or norm(defs.expand(node)) in payload_calls):
                for callee in callees:
                    if isinstance(callee, FuncInfo) and not callee.module.external and callee is not f and callee.name not in ("create",):
                        passed = bind_call_args(node, callee.params, skip_self=callee.cls is not None)
                        cdefs = ctx.defs(callee)

                        def inner_to_outer(expr: ast.AST, passed=passed, cdefs=cdefs, outer=to_outer) -> ast.AST:
                            exp = strip_casts(cdefs.expand(expr))
                            if isinstance(exp, ast.Name) and exp.id in passed:
                                return outer(passed[exp.id])
                            return exp

                        collect_ids(callee, inner_to_outer, depth + 1)

    # builder helpers are followed only where their result flows into the datagram that is sent
    payload_calls = set()
    for arg in list(sends[0].args) + [k.value for k in sends[0].keywords]:
        for x in ast.walk(defs.expand(arg)):
            if isinstance(x, ast.Call):
                payload_calls.add(norm(x))
    collect_ids(fn, lambda e: e)
    vcalls = calls_resolving_to(ctx, fn, *validators(ctx))
    if not header_ids or not pdu_ids or not vcalls:
        rep.violated("C07-R5", site, "discovery validates the reply's message id against the probe's", f"header ids={len(header_ids)} pdu ids={len(pdu_ids)} validator calls={len(vcalls)}", key=f"{fn.key}|discovery-validation-missing")
        return
    vn_header = value_number(defs, header_ids[0])
    vn_pdu = value_number(defs, pdu_ids[0])
    rep.check(vn_header == vn_pdu and vn_header[0] in ("def", "param"), "C07-R5", site, "probe header message id and probe PDU request id are one value", f"{vn_header} vs {vn_pdu}", key=f"{fn.key}|probe-ids")
    validation_after(ctx, fn, sends[0], vn_header, rep, "C07-R5", "discovery", field="message_id")
    # validation precedes the construction of the discovery data
    cfg = ctx.cfg(fn)
    vnodes = [cfg_node_of(cfg, c) for c in vcalls]
    vnodes = [n for n in vnodes if n is not None]
    disco_cls = ctx.u.cls("puresnmp_plugins.security.usm:DiscoData") if "puresnmp_plugins.security.usm:DiscoData" in ctx.u.classes else None
    built = []
    for node in own_nodes(fn.node):
        if not isinstance(node, ast.Call) or disco_cls is None:
            continue
        direct = ctx.r.call_resolves_to(fn, node, disco_cls.key)
        via_helper = False
        if not direct:
            for callee in ctx.r.callees(fn, node):
                if isinstance(callee, FuncInfo) and not callee.module.external and callee is not fn:
                    via_helper = via_helper or any(isinstance(x, ast.Call) and ctx.r.call_resolves_to(callee, x, disco_cls.key) for x in own_nodes(callee.node))
        if direct or via_helper:
            n = cfg_node_of(cfg, node)
            if n is not None:
                built.append(n)
    if not built:
        rep.undecided("C07-R5", site, "discovery data is built after validation", "no DiscoData construction found")
        return
    ok = cfg.must_pass(cfg.entry, built, vnodes)
    rep.check(ok, "C07-R5", site, "the reply's message id is validated before discovery data is built from it", key=f"{fn.key}|disco-before-validation")
