"""
C08 - agent error-status always surfaces as the documented exception, never as data.

R1  must-raise: in PDU.decode_raw, for every non-zero error-status (negative,
    positive, undefined) and every error-index / list length, every path raises
    the value of ErrorResponse.construct(status, oid); none returns.
R2  table: direct subclasses of ErrorResponse <-> RFC 3416 error-status 1..18,
    one each; construct() selects by status among the *direct* subclasses and
    passes the raw status through otherwise; the exception records status+oid.
R3  tainted index: a subscript whose index derives from the decoded error-index
    is dominated by a range check against the indexed list (grid evaluation of
    the guards: whenever they hold, 0 <= index < len).
R4  index mapping: the offending binding is varbinds[error_index - 1]; its OID
    is what construct() receives.
R5  no swallowing between decode and the public operation; evaluation of the
    lazy PDU is forced on every path of the sender-calling method.
"""
from __future__ import annotations

import ast
from typing import Any, Dict, List, Optional

from .. import rfc
from ..engine.context import Ctx, bind_call_args
from ..engine.exprs import Unevaluable, int_eval, norm, strip_casts
from ..engine.patterns import cfg_node_of, raised_class, simulate
from ..engine.report import Report
from ..engine.resolve import NotConstant
from ..engine.universe import AnalysisError, ClassInfo, FuncInfo, own_nodes
from .common import PduDecode, concrete_env, handler_reraises

CONSTRUCT = "puresnmp.exc:ErrorResponse.construct"


def run(ctx: Ctx, rep: Report) -> None:
    rep.rule("C08-R1", "non-zero error-status: every path of PDU.decode_raw raises ErrorResponse.construct(status, oid)", floor=30)
    rep.rule("C08-R2", "ErrorResponse subclasses <-> RFC 3416 status table; construct() is exact", floor=13)
    rep.rule("C08-R3", "index derived from error-index is range-checked against the indexed list", floor=1)
    rep.rule("C08-R4", "offending binding = varbinds[error_index - 1]; its OID reaches construct()", floor=1)
    rep.rule("C08-R5", "no handler swallows ErrorResponse; lazy PDU evaluation is forced", floor=2)
    rep.assumptions += ["x690.decode returns the TLV at the given offset and the offset of the next one (C06/C20)"]
    from .common import PduEval

    err_base = ctx.u.cls("puresnmp.exc:ErrorResponse")
    construct_fn = ctx.fn(CONSTRUCT)
    pe = PduEval(ctx)
    if pe.run(7, 2, 1, 2)[0] != "uneval":
        check_error_paths_by_evaluation(ctx, rep, pe, err_base)
    else:
        rep.info(f"PDU.decode_raw is not followed by the evaluator ({pe.run(7, 2, 1, 2)[1]}); reading its control flow instead")
        check_error_paths_structurally(ctx, rep)

    # ------------------------------------------------------------ R2
    check_table(ctx, rep, err_base, construct_fn)

    # ------------------------------------------------------------ R5
    check_swallow(ctx, rep, err_base)
    from .common import check_not_quietly_caught

    status2 = [c for c in ctx.r.subclasses(err_base, direct=True) if _ident(ctx, c) == 2]
    others = [c for c in ctx.r.subclasses(err_base) if c not in status2] + [err_base]
    check_not_quietly_caught(ctx, rep, "C08-R5", others, "an agent error other than noSuchName", allowed=status2)


def _ident(ctx: Ctx, cls: ClassInfo):
    try:
        return ctx.r.class_const(cls, "IDENTIFIER")
    except NotConstant:
        return None


def check_table(ctx: Ctx, rep: Report, err_base: ClassInfo, construct_fn: FuncInfo) -> None:
    direct = ctx.r.subclasses(err_base, direct=True)
    allsubs = ctx.r.subclasses(err_base)
    by_status: Dict[int, List[ClassInfo]] = {}
    for cls in direct:
        try:
            ident = ctx.r.class_const(cls, "IDENTIFIER")
        except NotConstant:
            ident = None
        by_status.setdefault(ident, []).append(cls)
    site = f"{err_base.module.path} (ErrorResponse subclasses)"
    for status, want in sorted(rfc.ERROR_CLASS_BY_STATUS.items()):
        got = [c.name for c in by_status.get(status, [])]
        # the documented name may be an alias of a renamed class: compare the class the name resolves to
        documented = ctx.r.resolve_class(err_base.module, ast.Name(want, ast.Load()))
        rep.check(
            got == [want] or (documented is not None and by_status.get(status, []) == [documented]),
            "C08-R2",
            site,
            f"error-status {status} ({rfc.ERROR_STATUS[status]}) maps to exactly the direct subclass {want}",
            f"direct subclasses with IDENTIFIER {status}: {got}",
            key=f"status-table|{status}",
        )
    extra = {k: [c.name for c in v] for k, v in by_status.items() if k not in rfc.ERROR_CLASS_BY_STATUS}
    rep.check(not extra, "C08-R2", site, "no direct subclass claims an undefined status (0 would shadow the generic fallback)", f"{extra}", key="status-table|extra")
    indirect = [c.name for c in allsubs if c not in direct and c.name in rfc.ERROR_CLASS_BY_STATUS.values()]
    rep.check(not indirect, "C08-R2", site, "every status class is a *direct* subclass (construct() enumerates __subclasses__())", f"indirect: {indirect}", key="status-table|indirect")

    # construct(): evaluated over the status domain with the engine's evaluator (dictionary, memoised helper, linear
    # scan ... all compute the same thing); the result must be an instance of the class documented for the status,
    # built with the offending OID
    from ..engine.minieval import Instance, MiniEval, Raised, Sym, Unevaluable

    fn = construct_fn
    site = fn.site()
    base_cls = ctx.u.cls("puresnmp.exc:ErrorResponse")
    init0 = base_cls.methods.get("__init__")
    oid_sym, msg_sym = Sym("offending-oid"), Sym("message")
    decos = [norm(d) for d in getattr(fn.node, "decorator_list", [])]
    lead: List[object] = [] if "staticmethod" in decos or fn.cls is None else [None]

    def outcome(status: int):
        ev = MiniEval(ctx)
        args: List[object] = list(lead)
        if lead:
            from ..engine.minieval import ClassRef

            args = [ClassRef(base_cls)]
        try:
            return ev.call_function(fn, args + [status, oid_sym, msg_sym]), None
        except Raised as exc:
            return None, f"raises {exc.value!r}"
        except Unevaluable as exc:
            return None, f"not evaluable: {exc}"

    def init_binding(inst: "Instance") -> Dict[str, object]:
        cinit = ctx.r.method(inst.cls, "__init__")
        names = cinit.params[1:] if cinit is not None else []
        bound = dict(zip(names, inst.args))
        bound.update(inst.kwargs)
        return bound

    undecidable = None
    for status, want in sorted(rfc.ERROR_CLASS_BY_STATUS.items()):
        got, err = outcome(status)
        if err is not None and err.startswith("not evaluable"):
            undecidable = err
            break
        documented = ctx.r.resolve_class(base_cls.module, ast.Name(want, ast.Load()))
        ok = isinstance(got, Instance) and (got.cls.name == want or (documented is not None and got.cls.key == documented.key)) and init_binding(got).get("offending_oid") == oid_sym
        rep.check(ok, "C08-R2", site, f"construct({status}, oid) builds {want}(oid, ..)", f"{got!r}" if err is None else err, key=f"{fn.key}|known-status|{status}")
    if undecidable is not None:
        rep.undecided("C08-R2", site, "construct() can be evaluated over the status table", undecidable)
        return
    for status in (19, 99, 255, -1):
        got, err = outcome(status)
        ok = isinstance(got, Instance) and got.cls.key == base_cls.key and init_binding(got).get("offending_oid") == oid_sym and init_binding(got).get("error_status") == status
        rep.check(ok, "C08-R2", site, f"construct({status}, oid): an undefined status yields the generic ErrorResponse carrying the raw status and the OID", f"{got!r}" if err is None else err, key=f"{fn.key}|unknown-status")

    # __init__ records status and oid
    init = ctx.u.cls("puresnmp.exc:ErrorResponse").methods.get("__init__")
    if init is None:
        rep.undecided("C08-R2", site, "ErrorResponse.__init__ records status and oid", "no __init__")
        return
    stores: Dict[str, ast.expr] = {}
    for node in own_nodes(init.node):
        if isinstance(node, ast.Assign):
            for tgt in node.targets:
                if isinstance(tgt, ast.Attribute) and isinstance(tgt.value, ast.Name) and tgt.value.id == "self":
                    stores[tgt.attr] = node.value
    idefs = ctx.defs(init)
    st = stores.get("error_status")
    good_status = False
    if st is not None:
        cands = [st] + (idefs.all_values(st.id) if isinstance(st, ast.Name) else [])
        for cand in cands:
            txt = norm(cand)
            if txt in ("error_status or self.IDENTIFIER", "error_status if error_status else self.IDENTIFIER", "error_status"):
                good_status = True
    rep.check(good_status, "C08-R2", init.site(), "the exception records the raw status (or the class IDENTIFIER when none is given)", f"self.error_status = {norm(st) if st is not None else None}", key=f"{init.key}|records-status")
    oid = stores.get("offending_oid")
    rep.check(oid is not None and norm(oid) == "offending_oid", "C08-R2", init.site(), "the exception records the offending OID it was given", f"self.offending_oid = {norm(oid) if oid is not None else None}", key=f"{init.key}|records-oid")


SWALLOW_ALLOW = {
    # (function role, caught class) -> reason
    ("walk-loop", "NoSuchOID"): "SNMPv1 end-of-walk idiom: noSuchName ends the walk (documented in multiwalk)",
}


def check_swallow(ctx: Ctx, rep: Report, err_base: ClassInfo) -> None:
    snmp_error = ctx.u.cls("puresnmp.exc:SnmpError")
    scope = [
        fn
        for fn in ctx.u.functions.values()
        if not fn.module.external
        and (
            fn.module.name in ("puresnmp.api.raw", "puresnmp.api.pythonic", "puresnmp.pdu", "puresnmp.adt")
            or fn.module.name.startswith("puresnmp_plugins.mpm")
            or fn.module.name.startswith("puresnmp_plugins.security")
        )
    ]
    count = 0
    for fn in scope:
        if fn.name in ("__repr__", "pretty"):
            continue
        for node in own_nodes(fn.node):
            if not isinstance(node, ast.ExceptHandler):
                continue
            caught: List[Optional[ast.expr]] = list(node.type.elts) if isinstance(node.type, ast.Tuple) else [node.type]
            relevant = []
            for c in caught:
                if c is None:
                    relevant.append("bare")
                    continue
                name = norm(c).split(".")[-1]
                cls = ctx.r.resolve_class(fn.module, c)
                if name in ("Exception", "BaseException"):
                    relevant.append(name)
                elif cls is not None and (ctx.r.is_subclass(err_base, cls) or ctx.r.is_subclass(cls, err_base)):
                    relevant.append(cls.name)
            if not relevant:
                continue
            count += 1
            site = fn.site(node)
            text = f"handler for {relevant} does not swallow an agent error-status"
            if handler_reraises(node):
                rep.ok("C08-R5", site, text, "handler re-raises on every path")
                continue
            # what the guarded block can raise at all: when it only calls a caller-supplied callable (an observer hook)
            # and evaluates nothing of the library (no repository function, no attribute of a decoded object), no agent
            # error-status can arrive here
            owner_try = next((a for a in _ancestors(node) if isinstance(a, ast.Try) and node in a.handlers), None)
            if owner_try is not None:
                body_mod = ast.Module(body=list(owner_try.body), type_ignores=[])
                calls = [c for c in ast.walk(body_mod) if isinstance(c, ast.Call)]
                pure_builtins = ("bytes", "str", "int", "len", "tuple", "list", "dict", "repr", "float", "bool")
                foreign_only = any(isinstance(c.func, ast.Name) and c.func.id in fn.params for c in calls) and all(
                    isinstance(c.func, ast.Name) and (c.func.id in fn.params or c.func.id in pure_builtins) and not [k for k in ctx.r.callees(fn, c) if isinstance(k, FuncInfo)] for c in calls
                )
                reads = [a for a in ast.walk(body_mod) if isinstance(a, (ast.Attribute, ast.Subscript, ast.Await))]
                if foreign_only and not reads:
                    rep.ok("C08-R5", site, text, "the guarded block only calls a callable handed in by the caller (an observer hook): nothing of an agent's response is evaluated inside it")
                    continue
            role = "walk-loop" if any(isinstance(a, (ast.While, ast.For)) for a in _ancestors(node)) and fn.name == "multiwalk" else fn.qualname
            reasons = [SWALLOW_ALLOW.get((role, r)) for r in relevant]
            if all(reasons):
                rep.ok("C08-R5", site, text, f"allow-listed: {reasons[0]}")
            else:
                rep.violated("C08-R5", site, text, "the handler catches a supertype/subtype of ErrorResponse and continues normally", key=f"{fn.key}|swallow|{','.join(relevant)}")
    check_conversion(ctx, rep, err_base)
    # forced evaluation: the sender-calling method reads <decoded>.value before returning
    send = ctx.send_method()
    forced = False
    for node in own_nodes(send.node):
        if isinstance(node, ast.Attribute) and node.attr == "value":
            forced = True
    rep.check(forced, "C08-R5", send.site(), "the sender-calling method reads .value of the decoded (lazy) PDU, forcing its evaluation", key=f"{send.key}|lazy-pdu-forced")
    rep.analysed["handlers_examined"] = count


def _ancestors(node: ast.AST):
    from ..engine.universe import ancestors

    return list(ancestors(node))


def forces_pdu(ctx: Ctx, fn: FuncInfo, node: ast.AST, depth: int = 0, seen=None) -> List[str]:
    """Places inside *node* (and the repository functions it calls) that read .value of a lazily decoded PDU."""
    seen = seen if seen is not None else set()
    pdu = ctx.u.cls("puresnmp.pdu:PDU")
    out: List[str] = []
    for sub in ast.walk(node):
        if isinstance(sub, ast.Attribute) and sub.attr in ("value", "pyvalue"):
            for cls in ctx.r.expr_classes(fn, sub.value):
                if ctx.r.is_subclass(cls, pdu):
                    out.append(f"{fn.qualname}:{getattr(sub, 'lineno', '?')} `{norm(sub)}`")
        if isinstance(sub, ast.Call) and depth < 3:
            for callee in ctx.r.callees(fn, sub):
                if isinstance(callee, FuncInfo) and not callee.module.external and callee.key not in seen and callee.module.name.startswith("puresnmp"):
                    seen.add(callee.key)
                    body = ast.Module(body=list(callee.node.body), type_ignores=[])
                    out += forces_pdu(ctx, callee, body, depth + 1, seen)
    return out


def check_conversion(ctx: Ctx, rep: Report, err_base: ClassInfo) -> None:
    """No try block on the incoming path turns a decoded agent error-status into another exception."""
    from .common import mpm_class, own_method

    roots = [ctx.send_method()]
    for ident in (0, 1, 3):
        try:
            roots.append(own_method(ctx, mpm_class(ctx, ident), "decode"))
        except AnalysisError:
            pass
    # functions reachable from the decode entry points
    reach: Dict[str, FuncInfo] = {}
    stack = list(roots)
    while stack:
        fn = stack.pop()
        if fn.key in reach or fn.module.external:
            continue
        reach[fn.key] = fn
        for node in own_nodes(fn.node):
            if isinstance(node, ast.Call):
                for callee in ctx.r.callees(fn, node):
                    if isinstance(callee, FuncInfo) and callee.module.name.startswith("puresnmp") and callee.name not in ("encode", "generate_request_message", "send_discovery_message"):
                        stack.append(callee)
    examined = 0
    for fn in reach.values():
        for node in own_nodes(fn.node):
            if not isinstance(node, ast.Try):
                continue
            for h in node.handlers:
                types = list(h.type.elts) if isinstance(h.type, ast.Tuple) else [h.type]
                broad = False
                for t in types:
                    if t is None or norm(t).split(".")[-1] in ("Exception", "BaseException"):
                        broad = True
                    else:
                        cls = ctx.r.resolve_class(fn.module, t)
                        if cls is not None and (ctx.r.is_subclass(err_base, cls) or ctx.r.is_subclass(cls, err_base)):
                            broad = True
                if not broad:
                    continue
                transparent = all(isinstance(s, ast.Raise) and s.exc is None for s in h.body if isinstance(s, ast.Raise)) and any(isinstance(s, ast.Raise) for s in h.body)
                if transparent:
                    continue
                examined += 1
                body = ast.Module(body=list(node.body), type_ignores=[])
                forced = forces_pdu(ctx, fn, body)
                allowed = fn.name == "multiwalk"
                # a message that is refused whatever it says (no path from the try block or its handler reaches a normal
                # return: the unauthenticated-message branch of the USM) has no agent error to hide
                fcfg = ctx.cfg(fn)
                tnode = fcfg.node_of(node) or next((fcfg.node_of(st) for st in node.body if fcfg.node_of(st) is not None), None)
                if tnode is not None and fcfg.exit.id not in fcfg.reachable(tnode):
                    allowed = True
                elif tnode is not None and fn.name.startswith("_"):
                    # ... also when the block sits in a private helper every call of which is followed by a refusal
                    sites = [(g, c) for g in reach.values() for c in own_nodes(g.node) if isinstance(c, ast.Call) and any(isinstance(k, FuncInfo) and k.key == fn.key for k in ctx.r.callees(g, c))]
                    if sites:
                        allowed = True
                        for g, c in sites:
                            gcfg = ctx.cfg(g)
                            cnode = cfg_node_of(gcfg, c)
                            if cnode is None or gcfg.exit.id in gcfg.reachable(cnode):
                                allowed = False
                rep.check(
                    not forced or allowed,
                    "C08-R5",
                    fn.site(h),
                    "no lazily decoded PDU is evaluated inside a try whose handler converts or swallows ErrorResponse (the agent's error-status would surface as a different exception)",
                    "; ".join(forced[:3]),
                    key=f"{fn.key}|error-status-converted",
                )
    rep.analysed["converting_handlers_on_incoming_path"] = examined


def check_error_paths_by_evaluation(ctx: Ctx, rep: Report, pe, err_base: ClassInfo) -> None:
    """
    R1 / R3 / R4 decided by evaluating PDU.decode_raw (rules/common.PduEval) over error-status x error-index x
    number of bindings: a non-zero status must raise the exception class documented for it (the generic class
    carrying the raw status otherwise), naming the OID of binding error-index when that exists; it must never return
    data and never fail with an IndexError; status 0 returns the content.
    """
    from ..engine.minieval import Instance

    fn = pe.fn
    site = fn.site()
    deep = rep.tier == "thorough"
    statuses = tuple(s for s in range(-3, 24) if s != 0) + (127, 128, 255, 256, 2**31 - 1, -(2**31)) if deep else (-1, 1, 2, 5, 18, 19, 255)
    for status in statuses:
        want_name = rfc.ERROR_CLASS_BY_STATUS.get(status)
        want_cls = ctx.r.resolve_class(err_base.module, ast.Name(want_name, ast.Load())) if want_name else err_base
        for index in (tuple(range(-4, 9)) if deep else (-1, 0, 1, 2, 3)):
            for length in (tuple(range(0, 7)) if deep else (0, 1, 2)):
                kind, val, (oids, _) = pe.run(7, status, index, length)
                text = f"status={status} index={index} bindings={length}: raises {want_cls.name if want_cls else want_name}"
                if kind == "uneval":
                    rep.undecided("C08-R1", site, text, f"not evaluable: {val}")
                    continue
                ok = kind == "raise" and isinstance(val, Instance) and want_cls is not None and val.cls.key == want_cls.key
                detail = f"{kind}: {val!r}"
                if ok and want_name is None:
                    cinit = ctx.r.method(val.cls, "__init__")
                    bound = dict(zip(cinit.params[1:], val.args)) if cinit is not None else {}
                    bound.update(val.kwargs)
                    ok = bound.get("error_status") == status
                rep.check(ok, "C08-R1", site, text + " (never returns data)", detail, key=f"{fn.key}|must-raise")
                if kind == "raise" and isinstance(val, Instance):
                    cinit = ctx.r.method(val.cls, "__init__")
                    bound = dict(zip(cinit.params[1:], val.args)) if cinit is not None else {}
                    bound.update(val.kwargs)
                    got_oid = bound.get("offending_oid")
                    if 1 <= index <= length:
                        rep.check(got_oid is oids[index - 1], "C08-R4", site, f"status={status} index={index} bindings={length}: the offending OID is the OID of binding {index}", f"offending OID: {got_oid!r}", key=f"{fn.key}|offending-oid-provenance")
                    else:
                        rep.check(not any(got_oid is o for o in oids), "C08-R3", site, f"status={status} index={index} bindings={length}: an error-index that selects no binding names none of them (and does not fail with IndexError)", f"offending OID: {got_oid!r}", key=f"{fn.key}|unchecked-index")
                elif kind == "raise":
                    rep.violated("C08-R3", site, f"status={status} index={index} bindings={length}: the error-index is range-checked", f"raises {val!r}", key=f"{fn.key}|unchecked-index")
    kind, val, _ = pe.run(7, 0, 0, 1)
    rep.check(kind == "return", "C08-R1", site, "status=0: the PDU content is returned, no ErrorResponse is raised", f"{kind}: {val!r}", key=f"{fn.key}|zero-status-returns")


def check_error_paths_structurally(ctx: Ctx, rep: Report) -> None:
    """Fallback for decode code the evaluator cannot follow: the rules read off the CFG of PDU.decode_raw."""
    pd = PduDecode(ctx)
    fn = pd.fn
    defs = ctx.defs(fn)
    cfg = ctx.cfg(fn)
    err_base = ctx.u.cls("puresnmp.exc:ErrorResponse")
    data_param = fn.params[1]

    # ------------------------------------------------------------ R1
    def scenario(status: int, index: int, length: int):
        values = {pd.error_status: status, pd.error_index: index, pd.request_id: 7}

        def atom(expr: ast.AST) -> Optional[Any]:
            got = pd.value_of(expr, values)
            if got is not None:
                return got
            if isinstance(expr, ast.Name) and expr.id == data_param:
                return True
            if isinstance(expr, ast.Call) and isinstance(expr.func, ast.Name) and expr.func.id == "len" and len(expr.args) == 1 and isinstance(expr.args[0], ast.Name) and expr.args[0].id != data_param:
                return length
            return None

        return concrete_env(atom, defs.expand), atom

    def construct_call_of(outcome) -> Optional[ast.Call]:
        stmt = outcome.stmt
        if not isinstance(stmt, ast.Raise) or stmt.exc is None:
            return None
        exc = stmt.exc
        if isinstance(exc, ast.Name):
            exc = defs.single(exc.id) or exc
        if isinstance(exc, ast.Call) and ctx.r.call_resolves_to(fn, exc, CONSTRUCT):
            return exc
        return None

    construct_fn = ctx.fn(CONSTRUCT)
    site = fn.site()
    deep = rep.tier == "thorough"
    statuses = tuple(s for s in range(-3, 24) if s != 0) + (127, 128, 255, 256, 2**31 - 1, -(2**31)) if deep else (-1, 1, 5, 19, 255)
    for status in statuses:
        for index in (tuple(range(-4, 9)) if deep else (-1, 0, 1, 2, 3)):
            for length in (tuple(range(0, 7)) if deep else (0, 1, 2)):
                env, atom = scenario(status, index, length)
                outs = simulate(cfg, env)
                bad = []
                for o in outs:
                    call = construct_call_of(o)
                    if o.kind != "raise" or call is None:
                        bad.append(repr(o))
                        continue
                    bound = bind_call_args(call, construct_fn.params, skip_self=False)
                    sarg = bound.get("error_status")
                    try:
                        sval = int_eval(defs.expand(sarg), atom) if sarg is not None else None
                    except Unevaluable:
                        sval = None
                    if sval != status:
                        bad.append(f"construct() receives {norm(sarg) if sarg is not None else None} not the error-status")
                rep.check(
                    bool(outs) and not bad,
                    "C08-R1",
                    site,
                    f"status={status} index={index} bindings={length}: raises ErrorResponse.construct(status, ..) on every path",
                    "; ".join(bad),
                    key=f"{fn.key}|must-raise",
                )
    env, _ = scenario(0, 0, 1)
    outs = simulate(cfg, env)
    rets = [o for o in outs if o.kind == "return"]
    wrong = [o for o in outs if o.kind == "raise" and construct_call_of(o) is not None]
    rep.check(bool(rets) and not wrong, "C08-R1", site, "status=0: the PDU content is returned, no ErrorResponse is raised", f"{outs}", key=f"{fn.key}|zero-status-returns")

    # ------------------------------------------------------------ R3 / R4
    idx_subs = []
    for node in own_nodes(fn.node):
        if isinstance(node, ast.Subscript) and not isinstance(node.slice, ast.Slice):
            exp = defs.expand(node.slice)
            if any(isinstance(n, ast.Name) and n.id == pd.error_index for n in ast.walk(exp)):
                idx_subs.append(node)
    if not idx_subs:
        rep.info("no subscript indexed by the decoded error-index (offending OID not looked up)")
    for sub in idx_subs:
        snode = cfg_node_of(cfg, sub)
        ssite = fn.site(sub)
        if snode is None:
            rep.undecided("C08-R3", ssite, "subscript is range checked", "not in CFG")
            continue
        conds = cfg.conditions_to(snode)
        list_name = norm(sub.value)
        in_try_indexerror = False
        from ..engine.cfg import enclosing_tries

        for tr, part in enclosing_tries(sub, fn.node):
            if part == "body" and any(h.type is None or "IndexError" in norm(h.type) or norm(h.type) in ("Exception", "LookupError") for h in tr.handlers):
                in_try_indexerror = True
        failures = []
        mapping_bad = []
        for index in range(-3, 7):
            for length in range(0, 5):
                values = {pd.error_index: index, pd.error_status: 5}

                def atom(expr: ast.AST, values=values, length=length) -> Optional[Any]:
                    got = pd.value_of(expr, values)
                    if got is not None:
                        return got
                    if isinstance(expr, ast.Call) and isinstance(expr.func, ast.Name) and expr.func.id == "len" and len(expr.args) == 1 and norm(expr.args[0]) == list_name:
                        return length
                    return None

                feasible_somewhere = False
                for path in conds:
                    feasible = True
                    for test, pol in path:
                        try:
                            val = bool(int_eval(defs.expand(test, stop=[list_name]), atom))
                        except Unevaluable:
                            continue  # unknown guard: may hold
                        if val != pol:
                            feasible = False
                            break
                    if feasible:
                        feasible_somewhere = True
                if not feasible_somewhere:
                    continue
                try:
                    eff = int_eval(defs.expand(sub.slice), atom)
                except Unevaluable:
                    failures.append("index expression not evaluable")
                    break
                if eff != index - 1:
                    mapping_bad.append((index, eff))
                low_ok = eff >= 0
                high_ok = eff < length or in_try_indexerror
                if not (low_ok and high_ok):
                    failures.append(f"error-index={index} with {length} binding(s) reaches {norm(sub)} (effective index {eff})")
        rep.check(
            not failures,
            "C08-R3",
            ssite,
            f"{norm(sub)}: whenever the guards on the way hold, 0 <= index < len({list_name})",
            "; ".join(failures[:4]),
            key=f"{fn.key}|unchecked-index|{norm(sub)}",
            witness=failures[:12],
        )
        rep.check(
            not mapping_bad,
            "C08-R4",
            ssite,
            "the binding selected is number error-index, counted from 1 (index expression == error_index - 1)",
            f"(error-index, effective index) pairs that differ: {mapping_bad[:5]}",
            key=f"{fn.key}|index-mapping|{norm(sub)}",
        )
    # the OID handed to construct() derives from the indexed binding's oid
    for call in [n for n in own_nodes(fn.node) if isinstance(n, ast.Call) and ctx.r.call_resolves_to(fn, n, CONSTRUCT)]:
        bound = bind_call_args(call, construct_fn.params, skip_self=False)
        oid_arg = bound.get("offending_oid")
        ok = None
        if oid_arg is not None and idx_subs:
            names = {n.id for n in ast.walk(oid_arg) if isinstance(n, ast.Name)}
            ok = False
            for name in names:
                for val in defs.all_values(name):
                    v = strip_casts(val)
                    if isinstance(v, ast.Attribute) and v.attr == "oid" and any(v.value is s for s in idx_subs):
                        ok = True
            for n in ast.walk(oid_arg):
                if isinstance(n, ast.Attribute) and n.attr == "oid" and any(n.value is s for s in idx_subs):
                    ok = True
        if not idx_subs:
            ok = True
        rep.check(ok, "C08-R4", fn.site(call), "the offending OID given to construct() is the .oid of the binding selected by error-index", f"argument: {norm(oid_arg) if oid_arg is not None else None}", key=f"{fn.key}|offending-oid-provenance")

