"""
C09 - USM: no unauthenticated, altered or downgraded response is ever accepted.

R1  must-authenticate: under the assumption "the credentials carry an auth key",
    the function that calls the auth plug-in's authenticate_incoming_message
    raises on every path on which that call did not return a truthy value -
    including every path that never reaches the call (cleared auth flag).  Every
    function between the message-processing decode and that function passes it
    on every path to a normal return, with the credentials and the message handed
    through, and no handler around the call swallows the refusal.
R2  what is returned derives from the verified message.
R3  exact digest comparison over the message with the digest zeroed; 12-octet
    placeholder == 12-octet HMAC truncation; arguments bound to the right data.
R4  the user-name check raises before anything is accepted.
"""
from __future__ import annotations

import ast
from typing import Dict, List, Optional, Set, Tuple

from .. import rfc
from ..engine.cfg import enclosing_tries
from ..engine.context import Ctx, bind_call_args
from ..engine.exprs import norm, strip_casts
from ..engine.patterns import (
    calls_resolving_to,
    cfg_node_of,
    derived_names,
    mentions,
    simulate,
    stmt_of,
    value_number,
)
from ..engine.report import Report
from ..engine.resolve import NotConstant
from ..engine.universe import AnalysisError, ClassInfo, FuncInfo, own_nodes
from .common import handler_reraises, mpm_class, own_method, usm_class

AUTH_IN = "puresnmp.plugins.auth:TAuth.authenticate_incoming_message"
AUTH_OUT = "puresnmp.plugins.auth:TAuth.authenticate_outgoing_message"


def cred_params(ctx: Ctx, fn: FuncInfo) -> List[str]:
    out = []
    cred_base = ctx.u.cls("puresnmp.credentials:Credentials")
    for name in fn.params:
        ann = ctx.r._param_annotation(fn, name)  # pylint: disable=protected-access
        cls = ctx.r.resolve_class(fn.module, ann) if ann is not None else None
        if cls is not None and ctx.r.is_subclass(cls, cred_base):
            out.append(name)
    return out


def auth_env(ctx: Ctx, fn: FuncInfo, creds: List[str], falsy_nodes: List[ast.AST], falsy_names: Set[str], extra=None):
    """Assumption atoms: credentials carry an auth key (and are V3); the digest check did not succeed."""

    def env(expr: ast.expr) -> Optional[bool]:
        if extra is not None:
            got = extra(expr)
            if got is not None:
                return got
        if any(expr is n for n in falsy_nodes):
            return False
        if isinstance(expr, ast.Name) and expr.id in falsy_names:
            return False
        if isinstance(expr, ast.Attribute) and expr.attr == "auth" and isinstance(expr.value, ast.Name) and expr.value.id in creds:
            return True
        if isinstance(expr, ast.Compare) and len(expr.ops) == 1:
            left, right = expr.left, expr.comparators[0]
            if isinstance(left, ast.Attribute) and left.attr == "auth" and isinstance(left.value, ast.Name) and left.value.id in creds and isinstance(right, ast.Constant) and right.value is None:
                if isinstance(expr.ops[0], (ast.Is, ast.Eq)):
                    return False
                if isinstance(expr.ops[0], (ast.IsNot, ast.NotEq)):
                    return True
        if isinstance(expr, ast.Call) and isinstance(expr.func, ast.Name) and expr.func.id == "isinstance" and len(expr.args) == 2:
            if isinstance(expr.args[0], ast.Name) and expr.args[0].id in creds:
                return True
        return None

    return env


def swallowing_handlers(ctx: Ctx, fn: FuncInfo, node: ast.AST) -> List[ast.ExceptHandler]:
    """Handlers around *node* that may catch an SnmpError-family exception and continue normally."""
    out = []
    snmp_error = ctx.u.cls("puresnmp.exc:SnmpError")
    for tr, part in enclosing_tries(node, fn.node):
        if part != "body":
            continue
        for h in tr.handlers:
            types = list(h.type.elts) if isinstance(h.type, ast.Tuple) else [h.type]
            relevant = False
            for t in types:
                if t is None or norm(t).split(".")[-1] in ("Exception", "BaseException"):
                    relevant = True
                else:
                    cls = ctx.r.resolve_class(fn.module, t)
                    if cls is not None and (ctx.r.is_subclass(cls, snmp_error) or ctx.r.is_subclass(snmp_error, cls)):
                        relevant = True
            if relevant and not handler_reraises(h):
                out.append(h)
    return out


def run(ctx: Ctx, rep: Report) -> None:
    rep.rule("C09-R1", "with an auth key in the credentials, every accepting path passed a digest check whose failure raises", floor=2)
    rep.rule("C09-R2", "the data returned derives from the message that was verified", floor=1)
    rep.rule("C09-R3", "exact 12-octet digest comparison over the message with zeroed digest; arguments bound correctly", floor=7)
    rep.rule("C09-R4", "a foreign user name raises before anything is accepted", floor=1)
    rep.rule("C09-R7", "before a message is authenticated its lazily decoded PDU is not allowed to speak: an evaluation that may raise the PDU's error-status sits in a handler that turns it into a refusal", floor=1)
    rep.rule("C09-R6", "a refused message always surfaces: no exception the USM raises is a subclass of one the walk loop swallows", floor=3)
    rep.rule("C09-R5", "every incoming v3 message is vetted by the USM instance of the message-processing model (never by a model the message names)", floor=2)
    rep.assumptions += [
        "HMAC-MD5-96 / HMAC-SHA-96 are unforgeable without the key (cryptographic strength is not analysed)",
        "atoms assumed on the analysed paths: credentials.auth is set, isinstance(credentials, V3)",
    ]
    usm = usm_class(ctx)
    proc = own_method(ctx, usm, "process_incoming_message")
    v3mpm = mpm_class(ctx, 3)
    mdecode = own_method(ctx, v3mpm, "decode")

    # ---- the functions that call the auth plug-in's incoming check
    # direct call sites of the plug-in's check; a function that merely *returns* its result (a predicate wrapper such
    # as _digest_matches) stands for the check at its own call sites
    direct: List[Tuple[FuncInfo, ast.Call]] = []
    for fn in ctx.u.functions.values():
        if fn.module.external or not fn.module.name.startswith("puresnmp"):
            continue
        for call in calls_resolving_to(ctx, fn, AUTH_IN):
            direct.append((fn, call))
    wrappers: Dict[str, Tuple[FuncInfo, ast.Call]] = {}
    for fn, call in direct:
        rets = [n for n in own_nodes(fn.node) if isinstance(n, ast.Return)]
        fdefs = ctx.defs(fn)
        if rets and all(r.value is not None and (r.value is call or (isinstance(r.value, ast.Name) and fdefs.single(r.value.id) is call)) for r in rets):
            wrappers[fn.key] = (fn, call)
    verifiers: List[Tuple[FuncInfo, ast.Call, Optional[Tuple[FuncInfo, ast.Call]]]] = []
    for fn, call in direct:
        if fn.key not in wrappers:
            verifiers.append((fn, call, None))
    for fn in ctx.u.functions.values():
        if fn.module.external or not fn.module.name.startswith("puresnmp") or fn.key in wrappers:
            continue
        for node in own_nodes(fn.node):
            if isinstance(node, ast.Call):
                for callee in ctx.r.callees(fn, node):
                    if isinstance(callee, FuncInfo) and callee.key in wrappers:
                        verifiers.append((fn, node, wrappers[callee.key]))
    if not verifiers:
        rep.violated("C09-R1", proc.site(), "some function calls the auth plug-in's authenticate_incoming_message", "no call site found in the resolved program", key="no-incoming-auth-call")
        return
    rejecting: Set[str] = set()
    for fn, call, inner in verifiers:
        defs = ctx.defs(fn)
        creds = cred_params(ctx, fn)
        site = fn.site(call)
        text = f"{fn.qualname}: raises on every path unless authenticate_incoming_message returned a truthy value (credentials carry an auth key)"
        if not creds:
            rep.undecided("C09-R1", site, text, "no credentials parameter")
            continue
        stmt = stmt_of(call)
        falsy_names: Set[str] = set()
        if isinstance(stmt, ast.Assign) and stmt.value is call:
            for tgt in stmt.targets:
                if isinstance(tgt, ast.Name):
                    falsy_names.add(tgt.id)
        cfg = ctx.cfg(fn)
        outs = simulate(cfg, auth_env(ctx, fn, creds, [call], falsy_names), expand=defs.expand)
        accepting = [o for o in outs if o.kind != "raise"]
        ok = bool(outs) and not accepting
        wit = [repr(n) for n in accepting[0].trail] if accepting else None
        rep.check(ok, "C09-R1", site, text, "a path returns normally although the digest was not verified" if accepting else f"{len(outs)} path(s), all raise", key=f"{fn.key}|accepts-unauthenticated", witness=wit)
        for h in swallowing_handlers(ctx, fn, call):
            rep.violated("C09-R1", fn.site(h), "no handler around the digest check swallows the refusal", "handler continues normally", key=f"{fn.key}|swallowed-refusal")
        if ok:
            rejecting.add(fn.key)
        check_digest_args(ctx, rep, fn, call, inner)

    # ---- chain: mpm.decode -> process_incoming_message -> ... -> verifier
    def passes_rejecting(fn: FuncInfo, depth: int = 0) -> Optional[bool]:
        if fn.key in rejecting:
            return True
        if depth > 4:
            return False
        cfg = ctx.cfg(fn)
        nodes = []
        creds = cred_params(ctx, fn)
        for node in own_nodes(fn.node):
            if not isinstance(node, ast.Call):
                continue
            for callee in ctx.r.callees(fn, node):
                if isinstance(callee, FuncInfo) and not callee.module.external and callee != fn and callee.name != "create":
                    if callee.key in rejecting or (callee.module.name.startswith("puresnmp_plugins.security") and passes_rejecting(callee, depth + 1)):
                        # credentials must be handed through unchanged
                        cparams = cred_params(ctx, callee)
                        bound = bind_call_args(node, callee.params, skip_self=callee.cls is not None)
                        handed = all(p in bound and isinstance(bound[p], ast.Name) and bound[p].id in creds for p in cparams) if cparams else True
                        n = cfg_node_of(cfg, node)
                        if n is not None and handed and not swallowing_handlers(ctx, fn, node):
                            nodes.append(n)
        if not nodes:
            return False
        return cfg.must_pass(cfg.entry, [cfg.exit], nodes)

    for fn, what in [(proc, "USM process_incoming_message"), (mdecode, "SNMPv3 message-processing decode")]:
        got = passes_rejecting(fn)
        wit = None
        rep.check(
            got,
            "C09-R1",
            fn.site(),
            f"{what}: every path to a normal return passes the (transitively) rejecting digest verification with the credentials handed through",
            "a path reaches the return without verification",
            key=f"{fn.key}|verification-bypass",
            witness=wit,
        )
        if got:
            rejecting.add(fn.key)

    # ---- R4 user name
    defs = ctx.defs(proc)
    creds = cred_params(ctx, proc)
    cfg = ctx.cfg(proc)

    def user_env(expr: ast.expr) -> Optional[bool]:
        if isinstance(expr, ast.Compare) and len(expr.ops) == 1:
            exp = defs.expand(expr)
            txt = norm(exp)
            if "user_name" in txt and "username" in txt and any(c in txt for c in creds):
                if isinstance(expr.ops[0], ast.NotEq):
                    return True
                if isinstance(expr.ops[0], ast.Eq):
                    return False
        return None

    found = [1 for n in own_nodes(proc.node) if isinstance(n, ast.Compare) and user_env(n) is not None]
    outs = simulate(cfg, auth_env(ctx, proc, creds, [], set(), extra=user_env), expand=defs.expand)
    ok = bool(found) and bool(outs) and all(o.kind == "raise" for o in outs)
    rep.check(ok, "C09-R4", proc.site(), "a message whose user name differs from the credentials' raises on every path", f"user-name comparisons found: {len(found)}; outcomes: {outs}", key=f"{proc.key}|foreign-user-accepted")

    # ---- R7 unauthenticated content cannot raise "its" error
    from .c08 import forces_pdu
    from .common import quietly_caught_classes

    err_resp = ctx.u.cls("puresnmp.exc:ErrorResponse")
    quiet = [q for q, _ in quietly_caught_classes(ctx)]
    for vfn in {f.key: ctx.inlined(f) for f, _, _ in verifiers}.values():  # helpers of the verifier are looked into
        simple = [n for n in own_nodes(vfn.node) if isinstance(n, ast.stmt) and not isinstance(n, (ast.If, ast.For, ast.While, ast.Try, ast.With, ast.FunctionDef, ast.AsyncFunctionDef, ast.ClassDef))]
        tests = [n.test for n in own_nodes(vfn.node) if isinstance(n, (ast.If, ast.While))] + [n.iter for n in own_nodes(vfn.node) if isinstance(n, ast.For)]
        for node in simple + tests:
            forced = forces_pdu(ctx, vfn, node)
            if not forced:
                continue
            guarded = False
            detail = f"forces {forced[0]}"
            for tr, part in enclosing_tries(node, vfn.node):
                if part != "body":
                    continue
                for h in tr.handlers:
                    types = [] if h.type is None else (h.type.elts if isinstance(h.type, ast.Tuple) else [h.type])
                    catches = h.type is None or any(norm(t).split(".")[-1] in ("Exception", "BaseException") or (ctx.r.resolve_class(vfn.module, t) is not None and ctx.r.is_subclass(err_resp, ctx.r.resolve_class(vfn.module, t))) for t in types)
                    if not catches:
                        continue
                    raised = [c for n in ast.walk(ast.Module(body=h.body, type_ignores=[])) if isinstance(n, ast.Raise) and n.exc is not None for c in (ctx.exc_classes(vfn, n.exc) or [])]
                    guarded = handler_reraises(h) and bool(raised) and all(not ctx.r.is_subclass(c, err_resp) and not any(ctx.r.is_subclass(c, q) for q in quiet) for c in raised)
                    detail += f"; handler at line {h.lineno} raises {[c.name for c in raised]}"
                    break
                if guarded:
                    break
            rep.check(guarded, "C09-R7", vfn.site(node), f"{vfn.qualname}: the error-status of a message that is not (yet) authenticated cannot surface as an agent error (a forged noSuchName would end a walk silently)", detail, key=f"{vfn.key}|unauthenticated-error-status")

    # ... and in the security model itself nothing makes the PDU speak before the verification ran (a report check
    # hoisted in front of verify_authentication lets a forged error-status out as an agent error)
    vkeys = {f.key for f, _, _ in verifiers}
    pcfg = ctx.cfg(proc)
    vstmts = []
    for n in own_nodes(proc.node):
        if isinstance(n, ast.Call) and (any(isinstance(c, FuncInfo) and c.key in vkeys for c in ctx.r.callees(proc, n)) or any(n is call for f, call, _ in verifiers if f.key == proc.key)):
            cn = cfg_node_of(pcfg, n)
            if cn is not None:
                vstmts.append(cn)
    if vstmts:
        simple = [n for n in own_nodes(proc.node) if isinstance(n, ast.stmt) and not isinstance(n, (ast.If, ast.For, ast.While, ast.Try, ast.With, ast.FunctionDef, ast.AsyncFunctionDef, ast.ClassDef))]
        tests = [n.test for n in own_nodes(proc.node) if isinstance(n, (ast.If, ast.While))] + [n.iter for n in own_nodes(proc.node) if isinstance(n, ast.For)]
        for node in simple + tests:
            cn = cfg_node_of(pcfg, node)
            if cn is None or cn in vstmts:
                continue
            forced = forces_pdu(ctx, proc, node)
            if not forced:
                continue
            after = pcfg.must_pass(pcfg.entry, [cn], vstmts)
            rep.check(after, "C09-R7", proc.site(node), f"{proc.qualname}: `{norm(node)[:60]}` evaluates the lazily decoded PDU only after the message passed the verification", "" if after else f"reachable before the verification; forces {forced[0]}", key=f"{proc.key}|pdu-forced-before-verification")

    # ---- R6 refusals are not swallowed further up
    from .common import check_not_quietly_caught

    usm_raised: List[ClassInfo] = []
    for f in ctx.u.functions.values():
        if f.module is usm.module:
            for n in own_nodes(f.node):
                if isinstance(n, ast.Raise) and n.exc is not None:
                    for c in ctx.exc_classes(f, n.exc) or []:
                        if c not in usm_raised:
                            usm_raised.append(c)
    check_not_quietly_caught(ctx, rep, "C09-R6", usm_raised, "raised by the user-based security model")

    # ---- R5 the model that vets the message
    from .common import check_incoming_model

    check_incoming_model(ctx, rep, "C09-R5", 3, 3)

    # ---- R2 provenance of the result
    msg_param = proc.params[1]
    rets = [n for n in own_nodes(proc.node) if isinstance(n, ast.Return) and n.value is not None]
    ok = bool(rets)
    for ret in rets:
        # message may be re-assigned from decrypt_message(message, ...): accept names whose every definition mentions the parameter
        names = {n.id for n in ast.walk(ret.value) if isinstance(n, ast.Name)}
        der = derived_names(defs, [msg_param], proc.node)
        if not names or not names <= der:
            ok = False
        for name in names:
            for val in defs.all_values(name):
                if not mentions(val, der):
                    ok = False
    rep.check(ok, "C09-R2", proc.site(), "process_incoming_message returns (a decryption of) the message it verified", f"returns: {[norm(r.value) for r in rets]}", key=f"{proc.key}|returns-other-message")
    mdefs = ctx.defs(mdecode)
    pcall = [c for c in own_nodes(mdecode.node) if isinstance(c, ast.Call) and proc in ctx.r.callees(mdecode, c)]
    ok = False
    if pcall:
        st = stmt_of(pcall[0])
        if isinstance(st, ast.Assign) and isinstance(st.targets[0], ast.Name):
            res = st.targets[0].id
            der = derived_names(mdefs, [res], mdecode.node)
            rets = [n for n in own_nodes(mdecode.node) if isinstance(n, ast.Return) and n.value is not None]
            ok = bool(rets) and all({n.id for n in ast.walk(r.value) if isinstance(n, ast.Name)} <= der and mentions(r.value, der) for r in rets)
        # the message handed in is the decoding of the received bytes
        bound = bind_call_args(pcall[0], proc.params)
        marg = bound.get(msg_param)
        raw_param = mdecode.params[1]
        ok = ok and marg is not None and mentions(mdefs.expand(marg), [raw_param])
    rep.check(ok, "C09-R2", mdecode.site(), "the PDU handed to the caller is taken from the message returned by the security model, which was decoded from the received bytes", key=f"{mdecode.key}|returns-unverified")

    # ---- R3 digest plug-ins
    check_hash_plugins(ctx, rep)


def check_digest_args(ctx: Ctx, rep: Report, fn: FuncInfo, call: ast.Call, inner: Optional[Tuple[FuncInfo, ast.Call]] = None) -> None:
    """
    Arguments of authenticate_incoming_message at a call site.  With *inner* the plug-in is called inside a predicate
    wrapper (inner = (wrapper, its plug-in call)) that *fn* calls at *call*: the wrapper's arguments are read in
    terms of the caller's expressions.
    """
    from ..engine.exprs import clone

    outer_defs = ctx.defs(fn)
    proto = ctx.fn(AUTH_IN)
    site = fn.site(call)
    creds = cred_params(ctx, fn)
    if inner is None:

        class _Defs:  # the caller's own view
            @staticmethod
            def expand(expr: ast.AST) -> ast.AST:
                return outer_defs.expand(expr)

        defs = _Defs()
        bound = bind_call_args(call, proto.params)
        arg_owner = fn
    else:
        wfn, wcall = inner
        wdefs = ctx.defs(wfn)
        passed = bind_call_args(call, wfn.params, skip_self=wfn.cls is not None)

        class _Sub(ast.NodeTransformer):
            def visit_Name(self, node: ast.Name) -> ast.AST:  # noqa: N802
                if isinstance(node.ctx, ast.Load) and node.id in passed:
                    return clone(outer_defs.expand(passed[node.id]))
                return node

        class _Defs:  # type: ignore[no-redef]
            @staticmethod
            def expand(expr: ast.AST) -> ast.AST:
                return _Sub().visit(clone(wdefs.expand(expr)))

        defs = _Defs()
        bound = bind_call_args(wcall, proto.params)
        arg_owner = wfn
    key = bound.get("auth_key")
    key = defs.expand(key) if key is not None else None
    rep.check(key is not None and norm(key) in [f"{c}.auth.key" for c in creds], "C09-R3", site, "auth key argument is the credentials' authentication key", f"{norm(key) if key is not None else None}", key=f"{fn.key}|auth-key-arg")
    data = bound.get("data")
    data_exp = defs.expand(data) if data is not None else None
    ok = False
    reset_fn = None
    if isinstance(data_exp, ast.Call) and isinstance(data_exp.func, ast.Name) and data_exp.func.id == "bytes" and data_exp.args:
        zeroed = data_exp.args[0]
        if isinstance(zeroed, ast.Call):
            for callee in ctx.r.callees(arg_owner, zeroed):
                if isinstance(callee, FuncInfo) and zeroed.args and isinstance(zeroed.args[0], ast.Name) and zeroed.args[0].id in fn.params:
                    reset_fn = callee
                    ok = True
    rep.check(ok, "C09-R3", site, "the digest is computed over the serialisation of the received message passed through the digest-zeroing function", f"data = {norm(data_exp) if data_exp is not None else None}", key=f"{fn.key}|digest-data-arg")
    received = bound.get("received_digest")
    ok = received is not None and isinstance(defs.expand(received), ast.Attribute) and defs.expand(received).attr == "auth_params"
    rep.check(ok, "C09-R3", site, "the digest compared against is the message's msgAuthenticationParameters", f"{norm(received) if received is not None else None}", key=f"{fn.key}|received-digest-arg")
    if reset_fn is not None:
        check_reset(ctx, rep, reset_fn)


def check_reset(ctx: Ctx, rep: Report, fn: FuncInfo) -> None:
    defs = ctx.defs(fn)
    site = fn.site()
    # replace(<params>, auth_params=<12 zero octets>) and replace(message, security_parameters=bytes(<that>))
    zero_len = None
    kept_other = False
    for node in own_nodes(fn.node):
        if isinstance(node, ast.Call) and isinstance(node.func, ast.Name) and node.func.id == "replace":
            kws = {kw.arg: kw.value for kw in node.keywords}
            if "auth_params" in kws and set(kws) == {"auth_params"}:
                try:
                    val = ctx.r.const(fn.module, kws["auth_params"])
                    if isinstance(val, bytes) and set(val) <= {0}:
                        zero_len = len(val)
                except NotConstant:
                    zero_len = None
            if "security_parameters" in kws and set(kws) == {"security_parameters"}:
                kept_other = True
    rep.check(zero_len == rfc.DIGEST_PLACEHOLDER_LEN, "C09-R3", site, "the digest field is replaced by exactly 12 zero octets and nothing else changes in the parameters", f"placeholder length = {zero_len}", key=f"{fn.key}|placeholder")
    rep.check(kept_other, "C09-R3", site, "only the security parameters of the message are replaced", key=f"{fn.key}|message-fields-kept")


def check_hash_plugins(ctx: Ctx, rep: Report) -> None:
    factory = ctx.fn("puresnmp.plugins.auth:create")
    ns = ctx.r.plugin_namespace(factory)
    if ns is None:
        raise AnalysisError("auth plug-in namespace not found")
    mods = [m for m in ctx.r.plugin_modules(ns) if ctx.r.plugin_identifier(m) is not None]
    rep.analysed["auth_plugins"] = [m.name for m in mods]
    for mod in mods:
        env = ctx.r.env(mod)
        got = env.get("authenticate_incoming_message")
        site = f"{mod.path} (authenticate_incoming_message)"
        if got is not None and not (got.kind == "value" and isinstance(got.target, ast.Call)):
            # a plug-in that re-exports the callable of another plug-in module (an alias name for the same algorithm)
            origin = ctx.r.resolve_name(mod, "authenticate_incoming_message")
            if origin is not None and origin.kind == "value" and origin.module is not None and origin.module is not mod and origin.module in mods and isinstance(origin.target, ast.Call):
                rep.ok("C09-R3", site, "plug-in's incoming check is built by a known factory", f"the very callable of {origin.module.name} (checked there)")
                continue
        if got is None or got.kind != "value" or not isinstance(got.target, ast.Call):
            rep.undecided("C09-R3", site, "plug-in's incoming check is built by a known factory", "binding not recognised")
            continue
        makers = [c for c in ctx.r.callees(_pseudo_fn(ctx, got.module or mod), got.target) if isinstance(c, FuncInfo)]  # resolved where the binding was written (a plug-in may re-export another one's callable)
        if len(makers) != 1:
            rep.undecided("C09-R3", site, "plug-in's incoming check is built by a known factory", f"{makers}")
            continue
        maker = makers[0]
        inner = [f for f in maker.nested.values()]
        ret_names = [n.value.id for n in own_nodes(maker.node) if isinstance(n, ast.Return) and isinstance(n.value, ast.Name)]
        closure = next((f for f in inner if f.name in ret_names), None)
        if closure is None:
            from .common import bound_method_as_closure

            for r_ in [n for n in own_nodes(maker.node) if isinstance(n, ast.Return) and n.value is not None]:
                closure = closure or bound_method_as_closure(ctx, maker, r_.value)
        if closure is None:
            rep.undecided("C09-R3", site, "factory returns a nested function", "not recognised")
            continue
        check_compare(ctx, rep, closure)


def _pseudo_fn(ctx: Ctx, mod) -> FuncInfo:
    """A FuncInfo standing for module level code of *mod* (for callee resolution)."""
    node = ast.FunctionDef(name="<module>", args=ast.arguments(posonlyargs=[], args=[], kwonlyargs=[], kw_defaults=[], defaults=[]), body=mod.tree.body, decorator_list=[], lineno=1)
    return FuncInfo(mod, "<module>", node)


def check_compare(ctx: Ctx, rep: Report, fn: FuncInfo) -> None:
    defs = ctx.defs(fn)
    site = fn.site()
    rets = [n for n in own_nodes(fn.node) if isinstance(n, ast.Return) and n.value is not None]
    ok = len(rets) == 1
    detail = ""
    digest_call = None
    if ok:
        val = rets[0].value
        operands = None
        if isinstance(val, ast.Compare) and len(val.ops) == 1 and isinstance(val.ops[0], ast.Eq):
            operands = [val.left, val.comparators[0]]
        elif isinstance(val, ast.Call) and norm(val.func) in ("hmac.compare_digest", "compare_digest") and len(val.args) == 2:
            operands = list(val.args)
        if operands is None:
            ok = False
            detail = f"returns {norm(val)}"
        else:
            recv = [o for o in operands if isinstance(o, ast.Name) and o.id in fn.params and o.id not in defs.assigns]
            comp = [o for o in operands if o not in recv]
            if len(recv) != 1 or len(comp) != 1:
                ok = False
                detail = f"operands {[norm(o) for o in operands]}"
            else:
                cexp = defs.expand(comp[0])
                if isinstance(cexp, ast.Call) and any(isinstance(c, FuncInfo) for c in ctx.r.callees(fn, cexp)):
                    digest_call = cexp
                else:
                    ok = False
                    detail = f"computed side is {norm(cexp)}"
    rep.check(ok, "C09-R3", site, "the received digest (whole value) is compared for equality with the computed digest", detail, key=f"{fn.key}|inexact-compare")
    if digest_call is None:
        return
    digest_fn = next(c for c in ctx.r.callees(fn, digest_call) if isinstance(c, FuncInfo))
    bound = bind_call_args(digest_call, digest_fn.params, skip_self=False)
    # roles of the helper's parameters are read off its body: hmac.new(<hasher>(<key>, <engine>), <message>, digestmod=<method>)
    ddefs0 = ctx.defs(digest_fn)
    role: Dict[str, str] = {}
    for n in own_nodes(digest_fn.node):
        if isinstance(n, ast.Call) and norm(n.func) in ("hmac.new", "hmac.HMAC"):
            hb = bind_call_args(n, ["key", "msg", "digestmod"], skip_self=False)
            if isinstance(hb.get("msg"), ast.Name):
                role["message"] = hb["msg"].id
            kexp0 = ddefs0.expand(hb["key"]) if "key" in hb else None
            if isinstance(kexp0, ast.Name):  # parameter rebound to the localised key
                for v in ddefs0.all_values(kexp0.id):
                    if isinstance(v, ast.Call) and len(v.args) == 2:
                        kexp0 = v
            if isinstance(kexp0, ast.Call) and len(kexp0.args) == 2 and all(isinstance(a, ast.Name) for a in kexp0.args):
                role["key"], role["engine"] = kexp0.args[0].id, kexp0.args[1].id
    # the closure implements TAuth: (auth_key, data, [received_digest,] engine_id)
    cparams = fn.params
    wanted = {role.get("key"): cparams[0], role.get("message"): cparams[1], role.get("engine"): cparams[-1]}
    okb = None not in wanted and all(k in bound and norm(bound[k]) == v for k, v in wanted.items())
    rep.check(okb, "C09-R3", site, "the digest is computed from the key, the message bytes and the engine id given by the caller", f"{ {k: norm(v) for k, v in bound.items()} }", key=f"{fn.key}|digest-args")
    # get_message_digest: HMAC keyed by the localised key, truncated to 12
    ddefs = ctx.defs(digest_fn)
    rets = [n for n in own_nodes(digest_fn.node) if isinstance(n, ast.Return) and n.value is not None]
    trunc = None
    hm = None
    if len(rets) == 1:
        val = ddefs.expand(rets[0].value)
        if isinstance(val, ast.Subscript) and isinstance(val.slice, ast.Slice) and val.slice.lower is None and val.slice.step is None and val.slice.upper is not None:
            try:
                trunc = ctx.r.const(digest_fn.module, val.slice.upper)
            except NotConstant:
                trunc = None
            inner = val.value
            if isinstance(inner, ast.Call) and isinstance(inner.func, ast.Attribute) and inner.func.attr == "digest" and isinstance(inner.func.value, ast.Call) and norm(inner.func.value.func) in ("hmac.new", "hmac.HMAC"):
                hm = inner.func.value
    rep.check(trunc == 12, "C09-R3", digest_fn.site(), "the MAC is truncated to its first 12 octets (HMAC-96)", f"truncation = {trunc}", key=f"{digest_fn.key}|truncation")
    okh = False
    if hm is not None:
        b = bind_call_args(hm, ["key", "msg", "digestmod"], skip_self=False)
        key = b.get("key")
        # the key must be the localised key: hasher(auth_key, engine_id)
        kexp = norm(key) if key is not None else ""
        kp, ep, mp = role.get("key"), role.get("engine"), role.get("message")
        # the hasher and the method are parameters of the helper (whatever their position / kind): neither is rebound
        others = [p_ for p_ in digest_fn.params if p_ not in (kp, ep, mp) and p_ not in ddefs.assigns]
        localised = kp is not None and any(
            isinstance(v, ast.Call) and isinstance(v.func, ast.Name) and v.func.id in others and [norm(a) for a in v.args] == [kp, ep]
            for v in ddefs.all_values(kp)
        )
        key_ok = (kexp == kp and localised) or any(kexp == f"{h}({kp}, {ep})" for h in others)
        dm = b.get("digestmod")
        okh = key_ok and mp is not None and norm(b.get("msg", ast.Constant(None))) == mp and isinstance(dm, ast.Name) and dm.id in others and f"{dm.id}(" not in kexp
    rep.check(okh, "C09-R3", digest_fn.site(), "HMAC over the message bytes, keyed with hasher(auth_key, engine_id) (the localised key), hash selected by the plug-in", key=f"{digest_fn.key}|hmac-args")
