"""
C10 - USM interoperability: requests verify under RFC 3414, authentic responses are accepted.

R1  flags: ``reportable`` is computed by a predicate that - evaluated over the
    class table - is true for every confirmed-class PDU (RFC 3411) and false for
    responses, traps and reports; auth / priv flags are exactly
    ``credentials.auth is not None`` / ``credentials.priv is not None``.
R2  parameter provenance: engine id <- discovery, boots / time <- the timing
    cache of that engine (fed from discovery), user <- credentials; positional
    construction matches the RFC 3414 field order.
R3  digest insertion: encryption before authentication; the digest is computed
    over the message with the placeholder and spliced into otherwise unchanged
    security parameters; key and engine id handed to the plug-in.
R4  plug-in table: md5 <-> (hashlib.md5, 16, HMAC "md5"), sha1 <-> (hashlib.sha1, 20, "sha1").
R5  key derivation: 1 MiB expansion with a repetition factor >= ceil(S / len),
    truncation to S, localisation H(Ku[:n] + engineID + Ku[:n]).
R6  the incoming digest is computed over the received bytes, or over a
    re-serialisation whose length encoder is minimal (short form for 0..127).
R7  an authentic message (digest check truthy) is accepted on every path.
"""
from __future__ import annotations

import ast
from typing import Any, Dict, List, Optional, Tuple

from .. import rfc
from ..engine.context import Ctx, bind_call_args, dataclass_fields
from ..engine.exprs import Unevaluable, int_eval, norm, strip_casts
from ..engine.patterns import calls_resolving_to, cfg_node_of, run_int_cfg, simulate, stmt_of
from ..engine.report import Report
from ..engine.resolve import NotConstant
from ..engine.universe import AnalysisError, ClassInfo, FuncInfo, own_nodes
from .c09 import AUTH_IN, AUTH_OUT, _pseudo_fn, auth_env, cred_params
from .common import mpm_class, own_method, usm_class


def timing_by_evaluation(ctx: Ctx, rep: Report, usm, gen: FuncInfo, st: FuncInfo, ae: FuncInfo, aa: FuncInfo):
    """
    The timing cache as a pair of small functions: `set_engine_timing(E, boots, time)` followed by
    `generate_request_message(msg, E, credentials)` must hand the encryption step E, the latest boots / time stored
    for E (not those of another engine) and the credentials' user name.  Evaluated with the encryption and
    authentication steps modelled as "record the arguments"; None when the evaluator cannot follow the code.
    """
    from ..engine.minieval import Instance, MiniEval, Raised, Sym, Unevaluable

    v3 = ctx.u.cls("puresnmp.credentials:V3")
    results = []
    roles: Dict[str, Optional[str]] = {}
    try:
        for engine, want in ((b"engine-one", (8, 2000)), (b"engine-two", (9, 99))):
            recorded: List[Any] = []

            def enc_model(args, kwargs, recorded=recorded):
                recorded.append((list(args), dict(kwargs)))
                return Sym("encrypted-message")

            ev = MiniEval(ctx, externals={ae.key: enc_model, aa.key: (lambda args, kwargs: Sym("authenticated-message"))}, max_steps=20000)
            me = Instance(usm, [], {})
            ev.call_function(st, [me, b"engine-one", 7, 1234], {})
            ev.call_function(st, [me, b"engine-two", 9, 99], {})
            ev.call_function(st, [me, b"engine-one", 8, 2000], {})  # refreshed: the latest values count
            creds = Instance(v3, [], {})
            creds.attrs.update(username="operator", auth=None, priv=None)
            message = Sym("plain-message")
            ev.call_function(gen, [me, message, engine, creds], {})
            if len(recorded) != 1:
                results.append((False, f"{engine!r}: the encryption step was reached {len(recorded)} time(s)"))
                continue
            args, kwargs = recorded[0]
            bound = dict(zip(ae.params, args))
            bound.update(kwargs)
            found = {
                "engine_id": next((p for p, v in bound.items() if isinstance(v, bytes) and v == engine), None),
                "boots": next((p for p, v in bound.items() if isinstance(v, int) and not isinstance(v, bool) and v == want[0]), None),
                "time": next((p for p, v in bound.items() if isinstance(v, int) and not isinstance(v, bool) and v == want[1]), None),
                "user": next((p for p, v in bound.items() if isinstance(v, bytes) and v == b"operator"), None),
                "credentials": next((p for p, v in bound.items() if v is creds), None),
            }
            okc = all(v is not None for v in found.values()) and len(set(found.values())) == len(found)
            roles = roles or found
            okc = okc and found == roles
            results.append((okc, f"{engine!r}: encryption step given {[(p, v) for p, v in bound.items() if p != found.get('credentials')]}"[:260]))
    except Unevaluable as exc:
        rep.info(f"the USM timing cache is not followed by the evaluator ({exc}); reading its structure instead")
        return None
    except Raised as exc:
        return False, False, roles, f"raises {exc.value!r}"
    ok = all(r[0] for r in results)
    detail = "; ".join(r[1] for r in results if not r[0]) or "; ".join(r[1] for r in results)[:200]
    return ok, ok, roles, detail


def run(ctx: Ctx, rep: Report) -> None:
    rep.rule("C10-R1", "msgFlags: reportable for exactly the confirmed-class PDUs; auth / priv mirror the credentials", floor=5)
    rep.rule("C10-R2", "security parameters carry the discovered engine id, boots, time and the user name in RFC order", floor=3)
    rep.rule("C10-R3", "encrypt, then authenticate; the digest is spliced into otherwise unchanged parameters", floor=3)
    rep.rule("C10-R4", "auth plug-ins pair the right hash, digest length and HMAC", floor=1)
    rep.rule("C10-R5", "RFC 3414 A.2 key derivation constants and localisation", floor=3)
    rep.rule("C10-R6", "incoming digest over the received bytes or a canonical (minimal-length) re-serialisation", floor=4)
    rep.rule("C10-R7", "an authentic message is accepted", floor=1)
    rep.rule("C10-R9", "encrypted requests and responses: the privacy plug-in is called with the localised key and the message's own engine id, boots, time and salt; the plaintext parsed is its output (shared with C11-R1/R2/R3)", floor=5)
    rep.rule("C10-R8", "the re-serialisation used for the incoming digest reproduces every received field: decoders and encoders agree and decoding is lossless (shared with C06-R3)", floor=5)
    rep.assumptions += [
        "hashlib / hmac implement MD5, SHA-1 and HMAC (hash arithmetic is not analysed)",
        "x690 encodes content octets deterministically; only the length form is analysed",
    ]
    v3 = mpm_class(ctx, 3)
    enc = ctx.inlined(own_method(ctx, v3, "encode"))  # small helpers of the class (lazy security model, local engine time) spliced in
    usm = usm_class(ctx)
    gen = own_method(ctx, usm, "generate_request_message")
    edefs = ctx.defs(enc)
    pdu_base = ctx.u.cls("puresnmp.pdu:PDU")
    flags_cls = ctx.u.cls("puresnmp.adt:V3Flags")

    # ------------------------------------------------------------ R1
    fcalls = [n for n in own_nodes(enc.node) if isinstance(n, ast.Call) and ctx.r.resolve_class(enc.module, n.func) == flags_cls]
    if len(fcalls) != 1:
        rep.undecided("C10-R1", enc.site(), "one V3Flags construction in encode", f"{len(fcalls)}")
    else:
        b = bind_call_args(fcalls[0], dataclass_fields(flags_cls), skip_self=False)
        cred = enc.params[2]
        for fld in ("auth", "priv"):
            arg = b.get(fld)
            txt = norm(edefs.expand(arg)) if arg is not None else None
            ok = txt in (f"{cred}.{fld} is not None", f"bool({cred}.{fld})", f"not {cred}.{fld} is None")
            rep.check(ok, "C10-R1", enc.site(fcalls[0]), f"the {fld} flag is set exactly when the credentials carry {fld} settings", f"{fld} = {txt}", key=f"{enc.key}|flag-{fld}")
        rarg = b.get("reportable")
        rexp = edefs.expand(rarg) if rarg is not None else None
        pred_fn = None
        pdu_param = enc.params[-1]
        if isinstance(rexp, ast.Call) and len(rexp.args) == 1 and norm(rexp.args[0]) == pdu_param:
            for callee in ctx.r.callees(enc, rexp):
                if isinstance(callee, FuncInfo):
                    pred_fn = callee
        pred_site = pred_fn.site() if pred_fn is not None else enc.site(fcalls[0])
        if pred_fn is not None:
            rets = [n for n in own_nodes(pred_fn.node) if isinstance(n, ast.Return) and n.value is not None]
            body_expr = ctx.xexpand(pred_fn, rets[0].value) if len(rets) == 1 else None
            subject, host = pred_fn.params[0], pred_fn
        else:
            body_expr, subject, host = rexp, pdu_param, enc
        if body_expr is None:
            rep.undecided("C10-R1", pred_site, "reportable predicate is a single expression over the PDU", f"reportable = {norm(rexp) if rexp is not None else None}")
        else:
            for cls in sorted((c for c in ctx.u.classes.values() if c.module.name == "puresnmp.pdu" and ctx.r.is_subclass(c, pdu_base) and c != pdu_base), key=lambda c: c.name):
                val = eval_pred(ctx, host, body_expr, subject, cls)
                if val is None:
                    # beyond the class-table reading (a lookup table walked along the MRO, ...): evaluate the
                    # expression for an instance of the class
                    from ..engine.minieval import Instance, MiniEval, Raised, Unevaluable

                    try:
                        got_v = MiniEval(ctx, max_steps=20000).eval(host, body_expr, {subject: Instance(cls, [], {})}, 0)
                        val = bool(got_v) if isinstance(got_v, (bool, int)) else None
                    except (Unevaluable, Raised):
                        val = None
                if cls.name in rfc.CONFIRMED_CLASS:
                    rep.check(val, "C10-R1", pred_site, f"{cls.name} is a confirmed-class PDU: requests carrying it are marked reportable", f"predicate `{norm(body_expr)[:80]}` evaluates to {val} for {cls.name}", key=f"reportable|{cls.name}|not-marked")
                elif cls.name in rfc.UNCONFIRMED_CLASS:
                    rep.check(None if val is None else not val, "C10-R1", pred_site, f"{cls.name} is not confirmed class: never marked reportable", f"predicate `{norm(body_expr)[:80]}` evaluates to {val} for {cls.name}", key=f"reportable|{cls.name}|marked")

    # ------------------------------------------------------------ R2
    gdefs = ctx.defs(gen)
    params_cls = ctx.u.cls("puresnmp_plugins.security.usm:USMSecurityParameters")
    apply_enc = None
    apply_auth = None
    for n in own_nodes(gen.node):
        if isinstance(n, ast.Call):
            for callee in ctx.r.callees(gen, n):
                if isinstance(callee, FuncInfo) and callee.module is gen.module and callee.cls is None:
                    body_calls = [c for c in own_nodes(callee.node) if isinstance(c, ast.Call)]
                    if any(ctx.r.call_resolves_to(callee, c, AUTH_OUT) for c in body_calls):
                        apply_auth = (callee, n)
                    elif any(isinstance(c.func, ast.Attribute) and c.func.attr == "encrypt_data" for c in body_calls):
                        apply_enc = (callee, n)
    if apply_enc is None or apply_auth is None:
        raise AnalysisError("generate_request_message: encryption / authentication steps not found")
    ae, ae_call = apply_enc
    aa, aa_call = apply_auth
    eb = bind_call_args(ae_call, ae.params, skip_self=False)
    eng_param = gen.params[2]
    cred_param = gen.params[3]
    want_src = {
        "engine_id": eng_param,
        "boots": f"self.local_config[{eng_param}]['authoritative_engine_boots']",
        "time": f"self.local_config[{eng_param}]['authoritative_engine_time']",
        "user": f"{cred_param}.username.encode('ascii')",
        "credentials": cred_param,
    }
    got = {k: norm(gdefs.expand(v)) for k, v in eb.items()}
    # which parameter of the encryption step plays which role is read off this call site (names are free to change)
    roles = {role: next((p for p, txt in got.items() if txt == src), None) for role, src in want_src.items()}
    st = own_method(ctx, usm, "set_engine_timing")
    evaluated = timing_by_evaluation(ctx, rep, usm, gen, st, ae, aa)
    if evaluated is not None:
        ok_req, ok_store, roles_ev, detail = evaluated
        roles = roles_ev if ok_req else roles
        rep.check(ok_req, "C10-R2", gen.site(ae_call), "engine id <- the discovered engine, boots / time <- that engine's timing cache, user <- credentials.username (evaluated: two engines cached, one of them refreshed, a request built for each)", detail, key=f"{gen.key}|parameter-provenance")
        rep.check(ok_store, "C10-R2", st.site(), "set_engine_timing stores boots and time under the engine id, under the keys the request path reads (evaluated: the latest values of that engine, and only of that engine, reach the request)", detail, key=f"{st.key}|timing-cache")
    ok = all(v is not None for v in roles.values()) and len(set(roles.values())) == len(roles)
    if evaluated is None:
        rep.check(ok, "C10-R2", gen.site(ae_call), "engine id <- the discovered engine, boots / time <- that engine's timing cache, user <- credentials.username", f"{got}", key=f"{gen.key}|parameter-provenance")
    # the timing cache is written by set_engine_timing under the same keys
    stores = {}
    for n in own_nodes(st.node):
        if isinstance(n, ast.Assign) and isinstance(n.targets[0], ast.Subscript) and isinstance(n.targets[0].slice, ast.Constant):
            stores[n.targets[0].slice.value] = norm(n.value)
    keyed = any(isinstance(n, ast.Call) and isinstance(n.func, ast.Attribute) and n.func.attr == "setdefault" and n.args and norm(n.args[0]) == st.params[1] for n in own_nodes(st.node))
    if evaluated is None:
        rep.check(stores == {"authoritative_engine_boots": st.params[2], "authoritative_engine_time": st.params[3]} and keyed, "C10-R2", st.site(), "set_engine_timing stores boots and time under the engine id, under the keys the request path reads", f"{stores}", key=f"{st.key}|timing-cache")
    # encode feeds the cache from discovery and uses the discovered engine id
    tcalls = [n for n in own_nodes(enc.node) if isinstance(n, ast.Call) and isinstance(n.func, ast.Attribute) and n.func.attr == "set_engine_timing"]
    ok = False
    detail = ""
    if len(tcalls) == 1:
        tb = bind_call_args(tcalls[0], st.params)
        g2 = {k: norm(edefs.expand(v)) for k, v in tb.items()}
        t_arg = tb.get(st.params[3])
        t_alts = [g2.get(st.params[3], "")]
        if isinstance(t_arg, ast.Name) and len(edefs.all_values(t_arg.id)) > 1:
            t_alts = [norm(edefs.expand(v)) for v in edefs.all_values(t_arg.id)]  # the return slot of a spliced helper: every alternative
        ok = g2.get(st.params[1]) == "self.disco.authoritative_engine_id" and g2.get(st.params[2]) == "self.disco.authoritative_engine_boots" and all(t.startswith("self.disco.authoritative_engine_time") for t in t_alts)
        detail = f"{g2}"
    rep.check(ok, "C10-R2", enc.site(), "the timing cache is fed with the discovered engine id, boots and (discovered + locally elapsed) time before the request is built", detail, key=f"{enc.key}|timing-feed")
    gcalls = [n for n in own_nodes(enc.node) if isinstance(n, ast.Call) and isinstance(n.func, ast.Attribute) and n.func.attr == "generate_request_message"]
    ok = len(gcalls) == 1 and norm(edefs.expand(gcalls[0].args[1])) == "self.disco.authoritative_engine_id" and norm(gcalls[0].args[2]) == enc.params[2]
    cfg = ctx.cfg(enc)
    if ok and tcalls:
        tn, gn = cfg_node_of(cfg, tcalls[0]), cfg_node_of(cfg, gcalls[0])

        def disco_env(expr: ast.expr) -> Optional[bool]:
            # discovery data is present once the discover-if-missing block has been passed (C12-R1)
            if isinstance(expr, ast.Compare) and norm(expr.left) == "self.disco" and isinstance(expr.comparators[0], ast.Constant) and expr.comparators[0].value is None:
                return isinstance(expr.ops[0], (ast.IsNot, ast.NotEq))
            if isinstance(expr, ast.Call) and isinstance(expr.func, ast.Name) and expr.func.id == "isinstance":
                return True
            return None

        outs = simulate(cfg, disco_env, expand=edefs.expand)
        ok = tn is not None and gn is not None and bool(outs)
        for o in outs:
            ids = [t.id for t in o.trail]
            if gn.id in ids and (tn.id not in ids or ids.index(tn.id) > ids.index(gn.id)):
                ok = False
    rep.check(ok, "C10-R2", enc.site(), "the request is secured for the discovered engine id with the caller's credentials, after the timing cache was fed", key=f"{enc.key}|secure-call")
    # positional construction order in apply_encryption (possibly inside a local helper closure)
    ctor_hosts = [ae] + list(ae.nested.values())
    for host in ctor_hosts:
        for n in own_nodes(host.node):
            if isinstance(n, ast.Call) and ctx.r.resolve_class(host.module, n.func) == params_cls:
                pb = bind_call_args(n, dataclass_fields(params_cls), skip_self=False)
                from ..engine.context import dataclass_defaults

                for fld, dflt in dataclass_defaults(params_cls).items():
                    pb.setdefault(fld, dflt)  # fields left to their declared defaults
                want = {"authoritative_engine_id": roles.get("engine_id"), "authoritative_engine_boots": roles.get("boots"), "authoritative_engine_time": roles.get("time"), "user_name": roles.get("user"), "auth_params": "b''"}
                g3 = {k: norm(v) for k, v in pb.items()}
                for k, v in pb.items():
                    if isinstance(v, (ast.Name, ast.Attribute)) and not (isinstance(v, ast.Name) and (v.id in host.params or v.id in ae.params or ctx.defs(host).all_values(v.id) or ctx.defs(ae).all_values(v.id))):
                        try:
                            cval = ctx.r.const(host.module, v)  # a named module constant (NO_AUTH_PARAMS = b"")
                            if isinstance(cval, (bytes, int, str)):
                                g3[k] = repr(cval)
                        except Exception:  # pylint: disable=broad-except
                            pass
                privp = g3.get("priv_params")
                ok = all(g3.get(k) == v for k, v in want.items()) and (privp in ("b''", "salt") or privp in host.params)
                rep.check(ok, "C10-R2", host.site(n), "USMSecurityParameters(engine id, boots, time, user, empty digest, salt) in RFC 3414 order", f"{g3}", key=f"{ae.key}|params-order")

    # ------------------------------------------------------------ R3
    ab = bind_call_args(aa_call, aa.params, skip_self=False)
    first = ab.get(aa.params[0])
    src = gdefs.expand(first) if first is not None else None
    ok = isinstance(src, ast.Call) and ae in [c for c in ctx.r.callees(gen, src) if isinstance(c, FuncInfo)]
    rep.check(ok, "C10-R3", gen.site(aa_call), "authentication is applied to the output of the encryption step (encrypt, then authenticate)", f"{norm(first) if first is not None else None}", key=f"{gen.key}|auth-before-encrypt")
    rets = [n for n in own_nodes(gen.node) if isinstance(n, ast.Return) and n.value is not None]
    ok = bool(rets) and all(gdefs.expand(r.value) is not None and isinstance(gdefs.expand(r.value), ast.Call) and aa in [c for c in ctx.r.callees(gen, gdefs.expand(r.value)) if isinstance(c, FuncInfo)] for r in rets)
    rep.check(ok, "C10-R3", gen.site(), "the message handed back is the authenticated one", key=f"{gen.key}|returns-unauthenticated")
    adefs = ctx.defs(aa)
    ocalls = calls_resolving_to(ctx, aa, AUTH_OUT)
    if len(ocalls) != 1:
        rep.undecided("C10-R3", aa.site(), "one outgoing digest computation", f"{len(ocalls)}")
    else:
        ob = bind_call_args(ocalls[0], ctx.fn(AUTH_OUT).params)
        msg_p, cred_p, eng_p = aa.params[0], aa.params[1], aa.params[2]
        g4 = {k: norm(adefs.expand(v)) for k, v in ob.items()}
        reset_names = [c.key for c in ctx.u.functions.values() if c.name == "reset_digest"]
        ok = g4.get("auth_key") == f"{cred_p}.auth.key" and g4.get("data") == f"bytes(reset_digest({msg_p}))" and g4.get("engine_id") == eng_p
        rep.check(ok, "C10-R3", aa.site(ocalls[0]), "the digest is computed with the credentials' auth key over the message with zeroed digest, for the security engine id", f"{g4}", key=f"{aa.key}|digest-args")
        res_stmt = stmt_of(ocalls[0])
        res_name = res_stmt.targets[0].id if isinstance(res_stmt, ast.Assign) and isinstance(res_stmt.targets[0], ast.Name) else None
        splice_ok = False
        for r in [n for n in own_nodes(aa.node) if isinstance(n, ast.Return) and n.value is not None]:
            exp = norm(adefs.expand(r.value))
            if exp == f"replace({msg_p}, security_parameters=bytes(replace(USMSecurityParameters.decode({msg_p}.security_parameters), auth_params={res_name})))" or (
                "replace(" in exp and f"auth_params=" in exp and exp.startswith(f"replace({msg_p}, security_parameters=bytes(replace(USMSecurityParameters.decode({msg_p}.security_parameters), auth_params=")
            ):
                splice_ok = res_name is not None or "authenticate_outgoing_message" in exp
        rep.check(splice_ok, "C10-R3", aa.site(), "the message sent differs from the one that was signed only in msgAuthenticationParameters (the computed digest)", key=f"{aa.key}|splice")
    # no-auth credentials: message returned unchanged
    cfg_aa = ctx.cfg(aa)

    def noauth_env(expr: ast.expr) -> Optional[bool]:
        if isinstance(expr, ast.Compare) and len(expr.ops) == 1 and norm(expr.left).endswith(".auth") and isinstance(expr.comparators[0], ast.Constant) and expr.comparators[0].value is None:
            return isinstance(expr.ops[0], (ast.Is, ast.Eq))
        if isinstance(expr, ast.Attribute) and expr.attr == "auth":
            return False
        return None

    outs = simulate(cfg_aa, noauth_env)
    ok = bool(outs) and all(o.kind == "return" and isinstance(o.stmt, ast.Return) and norm(o.stmt.value) == aa.params[0] for o in outs)
    rep.check(ok, "C10-R3", aa.site(), "without an auth key the message leaves unchanged (noAuthNoPriv)", f"{outs}", key=f"{aa.key}|noauth-path")

    # ------------------------------------------------------------ R4 / R5
    factory = ctx.fn("puresnmp.plugins.auth:create")
    ns = ctx.r.plugin_namespace(factory)
    derive = None
    for mod in ctx.r.plugin_modules(ns or ""):
        ident = ctx.r.plugin_identifier(mod)
        if ident not in rfc.AUTH_PROTOCOLS:
            continue
        want = rfc.AUTH_PROTOCOLS[ident]
        env = ctx.r.env(mod)
        pf = _pseudo_fn(ctx, mod)
        h = env.get("hasher")
        ok = False
        detail = ""
        if h is not None and h.kind == "value" and isinstance(h.target, ast.Call):
            callees = [c for c in ctx.r.callees(pf, h.target) if isinstance(c, FuncInfo)]
            if callees:
                derive = callees[0]
            args = h.target.args
            try:
                size = ctx.r.const(mod, args[1]) if len(args) > 1 else None
            except NotConstant:
                size = None
            hname = norm(args[0]) if args else ""
            macs = []
            for name in ("authenticate_incoming_message", "authenticate_outgoing_message"):
                bnd = env.get(name)
                if bnd is not None and bnd.kind == "value" and isinstance(bnd.target, ast.Call) and len(bnd.target.args) == 2:
                    macs.append((norm(bnd.target.args[0]), ctx.r.const(mod, bnd.target.args[1])))
            ok = hname == f"hashlib.{want['hash']}" and size == want["digest_len"] and macs == [("hasher", want["hmac"]), ("hasher", want["hmac"])]
            detail = f"hasher = password_to_key({hname}, {size}); HMAC digestmod {macs}"
        rep.check(ok, "C10-R4", f"{mod.path} (plug-in {ident!r})", f"auth plug-in {ident!r}: key derivation hash {want['hash']}, key length {want['digest_len']}, HMAC {want['hmac']} in both directions", detail, key=f"auth-plugin|{ident}")
    if derive is None:
        rep.undecided("C10-R5", "puresnmp/util.py", "key derivation function found", "not resolved from the plug-ins")
    else:
        inner = next((f for f in derive.nested.values()), None)
        if inner is None:
            rep.undecided("C10-R5", derive.site(), "key derivation closure found", "")
        else:
            check_derivation(ctx, rep, derive, inner)

    # ------------------------------------------------------------ R6 / R7
    verifiers = []
    for fn in ctx.u.functions.values():
        if fn.module.external:
            continue
        for call in calls_resolving_to(ctx, fn, AUTH_IN):
            verifiers.append((fn, call))
    for fn, call in verifiers:
        defs = ctx.defs(fn)
        b = bind_call_args(call, ctx.fn(AUTH_IN).params)
        data = defs.expand(b.get("data")) if b.get("data") is not None else None
        raw = False  # would be: derives from the received datagram bytes
        reser = isinstance(data, ast.Call) and norm(data.func) == "bytes" and data.args and isinstance(data.args[0], ast.Call)
        if raw:
            rep.ok("C10-R6", fn.site(call), "the incoming digest is computed over the received bytes", "")
        else:
            rep.check(reser, "C10-R6", fn.site(call), "the incoming digest is computed over a re-serialisation of the parsed message (so every encoder on that path must be canonical)", f"data = {norm(data) if data is not None else None}", key=f"{fn.key}|digest-data")
        # R7: accepted when authentic
        creds = cred_params(ctx, fn)
        st = stmt_of(call)
        names = {t.id for t in st.targets if isinstance(t, ast.Name)} if isinstance(st, ast.Assign) else set()

        def env(expr: ast.expr, names=names, call=call, creds=creds) -> Optional[bool]:
            if expr is call or (isinstance(expr, ast.Name) and expr.id in names):
                return True
            if isinstance(expr, ast.Attribute) and norm(expr).endswith("flags.auth"):
                return True
            if isinstance(expr, ast.Attribute) and expr.attr == "auth" and isinstance(expr.value, ast.Name) and expr.value.id in creds:
                return True
            return None

        outs = simulate(ctx.cfg(fn), env, expand=defs.expand)
        ok = bool(outs) and all(o.kind in ("return", "fallthrough") for o in outs)
        rep.check(ok, "C10-R7", fn.site(), "a message whose digest verifies (auth flag set, auth credentials) is accepted on every path", f"{outs}", key=f"{fn.key}|authentic-refused")
    check_length_encoder(ctx, rep)
    from . import c06

    sub = ctx.sub_run("c06", rep)
    rep.adopt_rules(sub, "C10-R8", ["C06-R3", "C06-R8"])
    rep.adopt_rules(ctx.sub_run("c11", rep), "C10-R9", ["C11-R1", "C11-R2", "C11-R3"])
    # the msgAuthoritativeEngineTime of a request is the discovered time plus the seconds elapsed since (RFC 3414 2.3)
    rep.adopt_rules(ctx.sub_run("c12", rep), "C10-R2", ["C12-R3", "C12-R7"])
    # the digest of a request is the HMAC keyed with the key localised for *this* engine, truncated to 12 octets
    rep.adopt_rules(ctx.sub_run("c09", rep), "C10-R4", ["C09-R3"], containing="HMAC")


def check_derivation(ctx: Ctx, rep: Report, outer: FuncInfo, fn: FuncInfo) -> None:
    defs = ctx.defs(fn)
    site = fn.site()
    pw, eng = fn.params[0], fn.params[1]
    hash_p, pad_p = outer.params[0], outer.params[1]
    rets = [n for n in own_nodes(fn.node) if isinstance(n, ast.Return) and n.value is not None]
    if len(rets) != 1:
        rep.undecided("C10-R5", site, "one return", "")
        return
    final = defs.expand(rets[0].value)
    # final = H(Ku[:n] + engine + Ku[:n]).digest()
    ok_loc = False
    ku_expr = None
    if isinstance(final, ast.Call) and isinstance(final.func, ast.Attribute) and final.func.attr == "digest" and isinstance(final.func.value, ast.Call) and norm(final.func.value.func) == hash_p:
        buf = final.func.value.args[0]
        if isinstance(buf, ast.BinOp) and isinstance(buf.op, ast.Add) and isinstance(buf.left, ast.BinOp) and isinstance(buf.left.op, ast.Add):
            a, b, c = buf.left.left, buf.left.right, buf.right
            if norm(b) == eng and norm(a) == norm(c) and isinstance(a, ast.Subscript) and isinstance(a.slice, ast.Slice) and a.slice.lower is None and norm(a.slice.upper) == pad_p:
                ok_loc = True
                ku_expr = a.value
    rep.check(ok_loc, "C10-R5", site, "localised key = H(Ku[:n] + engineID + Ku[:n]) with n the protocol's key length", f"{norm(final)[:120]}", key=f"{fn.key}|localisation")
    if ku_expr is None:
        return
    # Ku = H(expanded password).digest()
    ok_ku = isinstance(ku_expr, ast.Call) and isinstance(ku_expr.func, ast.Attribute) and ku_expr.func.attr == "digest" and isinstance(ku_expr.func.value, ast.Call) and norm(ku_expr.func.value.func) == hash_p
    rep.check(ok_ku, "C10-R5", site, "Ku is the digest of the expanded password under the same hash", key=f"{fn.key}|ku")
    if not ok_ku:
        return
    expanded = ku_expr.func.value.args[0]
    # (password * factor)[:S]
    ok_exp = False
    size = None
    factor_expr = None
    if isinstance(expanded, ast.Subscript) and isinstance(expanded.slice, ast.Slice) and expanded.slice.lower is None and expanded.slice.upper is not None:
        try:
            size = ctx.r.const(fn.module, expanded.slice.upper)
        except NotConstant:
            size = None
        inner = expanded.value
        if isinstance(inner, ast.BinOp) and isinstance(inner.op, ast.Mult):
            if norm(inner.left) == pw:
                factor_expr = inner.right
            elif norm(inner.right) == pw:
                factor_expr = inner.left
            ok_exp = factor_expr is not None
    rep.check(size == rfc.KEY_EXPANSION_LEN and ok_exp, "C10-R5", site, "the password is repeated and truncated to exactly 1 048 576 octets", f"truncation length {size}", key=f"{fn.key}|expansion-length")
    if factor_expr is not None and size:
        bad = []
        deep = ctx is not None and getattr(rep, "tier", "quick") == "thorough"
        for length in list(range(1, 4097 if deep else 301)) + [1024, 4096, 65536, size - 1, size, size + 1]:
            def atom(expr: ast.AST, length=length):
                if isinstance(expr, ast.Call) and isinstance(expr.func, ast.Name) and expr.func.id == "len" and norm(expr.args[0]) == pw:
                    return length
                return None
            try:
                factor = int_eval(factor_expr, atom)
            except Unevaluable as exc:
                bad.append(f"not evaluable: {exc}")
                break
            if factor * length < size:
                bad.append(f"len(password)={length}: {factor} repetitions give {factor * length} < {size} octets")
        rep.check(not bad, "C10-R5", site, "the repetition factor covers the full expansion for every password length 1..300 (and beyond)", "; ".join(bad[:3]), key=f"{fn.key}|repetition-factor")
    cached = any("lru_cache" in norm(d) or "cache" in norm(d) for d in fn.node.decorator_list)
    keyed_ok = set(fn.params) == {pw, eng}
    rep.check((not cached) or keyed_ok, "C10-R5", site, "the memoised derivation is keyed by everything it depends on (password and engine id; the hash is fixed per closure)", key=f"{fn.key}|memo-key")


def check_length_encoder(ctx: Ctx, rep: Report) -> None:
    """x690.util.encode_length must use the short form for 0..127 when messages are re-serialised for digest checks."""
    fn = ctx.u.maybe_func("x690.util:encode_length")
    if fn is None:
        rep.undecided("C10-R6", "x690/util.py", "x690.util.encode_length found", "x690 source not available")
        return
    param = fn.params[0]
    cfg = ctx.cfg(fn)
    for value in (0, 1, 126, 127, 128, 255, 256, 65535):
        def decide(expr: ast.expr) -> Optional[bool]:
            if isinstance(expr, ast.Compare) and "INDEFINITE" in norm(expr):
                return False
            return None

        run_ = run_int_cfg(ctx, fn, {param: value}, lambda n: "ret:" + norm(n.ast)[:40] if isinstance(n.ast, ast.Return) else ("loop" if n.kind == "test" and isinstance(getattr(n, "_stmt", None), ast.While) else None), lambda n, k: None, decide=decide)
        rets = [e for e, _ in run_.events if e.startswith("ret:")]
        short = bool(rets) and rets[-1].startswith(f"ret:return bytes([{param}])")
        want_short = value <= 127
        rep.check(
            short == want_short and run_.end == "return",
            "C10-R6",
            fn.site(),
            f"length {value} is encoded in the {'short (single octet)' if want_short else 'long'} form (minimal BER, as every peer emits it)",
            f"taken return: {rets[-1] if rets else run_.end}",
            key=f"x690.util:encode_length|non-minimal|{value}",
        )


def const_collection(ctx: Ctx, fn: FuncInfo, expr: ast.AST, depth: int = 0) -> Optional[List[Any]]:
    """Elements of a constant collection expression: literals, set()/frozenset()/tuple() of one, {c.ATTR for c in (K1, K2)}; classes stay ClassInfo."""
    if depth > 4:
        return None
    if isinstance(expr, ast.Name):
        got = ctx.r.resolve_name(fn.module, expr.id)
        if got is not None and got.kind == "value" and got.module is not None:
            return const_collection(ctx, FuncInfo(got.module, "<module>", fn.node), got.target, depth + 1)
        return None
    if isinstance(expr, (ast.Tuple, ast.List, ast.Set)):
        out = []
        for e in expr.elts:
            cls = ctx.r.resolve_class(fn.module, e) if isinstance(e, (ast.Name, ast.Attribute)) else None
            if cls is not None:
                out.append(cls)
                continue
            try:
                out.append(ctx.r.const(fn.module, e))
            except NotConstant:
                return None
        return out
    if isinstance(expr, ast.Call) and isinstance(expr.func, ast.Name) and expr.func.id in ("set", "frozenset", "tuple", "list") and len(expr.args) == 1:
        return const_collection(ctx, fn, expr.args[0], depth + 1)
    if isinstance(expr, (ast.SetComp, ast.ListComp, ast.GeneratorExp)) and len(expr.generators) == 1 and not expr.generators[0].ifs and isinstance(expr.generators[0].target, ast.Name):
        src = const_collection(ctx, fn, expr.generators[0].iter, depth + 1)
        if src is None:
            return None
        var = expr.generators[0].target.id
        out = []
        for item in src:
            if isinstance(item, ClassInfo) and isinstance(expr.elt, ast.Attribute) and isinstance(expr.elt.value, ast.Name) and expr.elt.value.id == var:
                try:
                    out.append(ctx.r.class_const(item, expr.elt.attr))
                except NotConstant:
                    return None
            elif isinstance(expr.elt, ast.Name) and expr.elt.id == var:
                out.append(item)
            else:
                return None
        return out
    return None


def eval_pred(ctx: Ctx, fn: FuncInfo, expr: ast.AST, subject: str, cls: ClassInfo) -> Optional[bool]:
    """Truth of a predicate over ``subject`` when subject is an instance of *cls* (class-table evaluation)."""
    if isinstance(expr, ast.BoolOp):
        vals = [eval_pred(ctx, fn, v, subject, cls) for v in expr.values]
        if isinstance(expr.op, ast.Or):
            return True if any(v is True for v in vals) else (None if any(v is None for v in vals) else False)
        return False if any(v is False for v in vals) else (None if any(v is None for v in vals) else True)
    if isinstance(expr, ast.UnaryOp) and isinstance(expr.op, ast.Not):
        v = eval_pred(ctx, fn, expr.operand, subject, cls)
        return None if v is None else not v
    if isinstance(expr, ast.Call) and isinstance(expr.func, ast.Name) and expr.func.id == "isinstance" and len(expr.args) == 2 and norm(expr.args[0]) == subject:
        coll = const_collection(ctx, fn, expr.args[1] if isinstance(expr.args[1], (ast.Tuple, ast.Name)) else ast.Tuple([expr.args[1]], ast.Load()))
        if coll is None:
            single = ctx.r.resolve_class(fn.module, expr.args[1])
            coll = [single] if single is not None else None
        if coll is None or not all(isinstance(c, ClassInfo) for c in coll):
            return None
        return any(ctx.r.is_subclass(cls, c) for c in coll)
    if isinstance(expr, ast.Attribute):
        t = norm(expr)
        for attr_prefix in (f"{subject}.", f"type({subject}).", f"{subject}.__class__."):
            if t.startswith(attr_prefix) and t[len(attr_prefix):].isidentifier():
                try:
                    return bool(ctx.r.class_const(cls, t[len(attr_prefix):]))
                except NotConstant:
                    return None
        return None
    if isinstance(expr, ast.Call) and isinstance(expr.func, ast.Name) and expr.func.id in ("bool", "getattr") and expr.args:
        if expr.func.id == "bool":
            return eval_pred(ctx, fn, expr.args[0], subject, cls)
        if len(expr.args) >= 2 and norm(expr.args[0]) == subject and isinstance(expr.args[1], ast.Constant):
            try:
                return bool(ctx.r.class_const(cls, expr.args[1].value))
            except NotConstant:
                if len(expr.args) == 3:
                    try:
                        return bool(ctx.r.const(fn.module, expr.args[2]))
                    except NotConstant:
                        return None
                return None
    if isinstance(expr, ast.Compare) and len(expr.ops) == 1:
        left, right = expr.left, expr.comparators[0]

        def subject_value(e: ast.AST) -> Any:
            t = norm(e)
            for attr_prefix in (f"{subject}.", f"type({subject}).", f"{subject}.__class__."):
                if t.startswith(attr_prefix) and t[len(attr_prefix):].isidentifier():
                    try:
                        return ("const", ctx.r.class_const(cls, t[len(attr_prefix):]))
                    except NotConstant:
                        return None
            if t in (f"type({subject})", f"{subject}.__class__"):
                return ("class", cls)
            return None

        lv = subject_value(left)
        if lv is None:
            return None
        if isinstance(expr.ops[0], (ast.In, ast.NotIn)):
            coll = const_collection(ctx, fn, right)
            if coll is None:
                return None
            hit = lv[1] in coll if lv[0] == "const" else any(c == lv[1] for c in coll)
            return hit if isinstance(expr.ops[0], ast.In) else not hit
        if isinstance(expr.ops[0], (ast.Eq, ast.NotEq, ast.Is, ast.IsNot)):
            if lv[0] == "class":
                rc = ctx.r.resolve_class(fn.module, right)
                if rc is None:
                    return None
                eq = rc == lv[1]
            else:
                try:
                    eq = ctx.r.const(fn.module, right) == lv[1]
                except NotConstant:
                    return None
            return eq if isinstance(expr.ops[0], (ast.Eq, ast.Is)) else not eq
    return None
