"""
C11 - USM privacy: the scoped PDU only ever travels as the plug-in's ciphertext.

R1  no plaintext out: with privacy credentials, every message the encryption
    step returns carries OctetString(<first component of encrypt_data(...)>) as
    scoped PDU; the plaintext reaches the result only as that call's ``data``
    argument; the surrounding handler converts failures into an exception (no
    plaintext fall-back).
R2  arguments by Protocol position: encrypt_data(localised key, engine id, boots,
    time, data) and decrypt_data(key, engine id, boots, time, salt, data) are
    bound to the right provenance; the plug-in's salt becomes
    msgPrivacyParameters; decryption uses the parameters found in the *message*.
R3  key: both directions call localise_key(credentials, engine id); it takes the
    privacy password and selects the hash by the authentication method (RFC 3414
    / C10-R4 table).
R4  selector agreement: the priv flag and the encryption branch use the same
    predicate on the credentials.
"""
from __future__ import annotations

import ast
from typing import Any, Dict, List, Optional, Tuple

from .. import rfc
from ..engine.context import Ctx, bind_call_args, dataclass_fields
from ..engine.exprs import norm, strip_casts
from ..engine.patterns import cfg_node_of, simulate, stmt_of
from ..engine.report import Report
from ..engine.resolve import NotConstant
from ..engine.universe import AnalysisError, FuncInfo, own_nodes
from .c09 import cred_params
from .common import handler_reraises, mpm_class, own_method, usm_class

ENC = "puresnmp.plugins.priv:TPriv.encrypt_data"
DEC = "puresnmp.plugins.priv:TPriv.decrypt_data"
LOCALISE = "puresnmp.util:localise_key"


def find_caller(ctx: Ctx, key: str) -> Tuple[FuncInfo, ast.Call]:
    for fn in ctx.u.functions.values():
        if fn.module.external or not fn.module.name.startswith("puresnmp"):
            continue
        for n in own_nodes(fn.node):
            if isinstance(n, ast.Call) and ctx.r.call_resolves_to(fn, n, key):
                return fn, n
    raise AnalysisError(f"no call site of {key}")


def localise_by_evaluation(ctx: Ctx, rep: Report, lk: FuncInfo) -> bool:
    """
    `localise_key(credentials, engine id)` evaluated with `password_to_key(hash, length)` modelled as "a function that
    tags (password, engine id) with that hash and length": for every authentication protocol of the RFC table the
    result must be the *privacy* password and the given engine id under that protocol's hash and digest length; an
    unknown protocol and missing auth / priv settings must raise.  False when the evaluator cannot follow.
    """
    from ..engine.minieval import Instance, MiniEval, PyModel, Raised, Sym, Unevaluable

    p2k = ctx.u.maybe_func("puresnmp.util:password_to_key")
    if p2k is None:
        return False
    v3, auth_cls, priv_cls = ctx.u.cls("puresnmp.credentials:V3"), ctx.u.cls("puresnmp.credentials:Auth"), ctx.u.cls("puresnmp.credentials:Priv")

    def p2k_model(args, kwargs):
        hash_fn, length = (list(args) + [kwargs.get("hash_implementation"), kwargs.get("padding_length")])[:2] if len(args) < 2 else args[:2]
        return PyModel(lambda a, k: ("localised", repr(hash_fn), length, a[0] if a else None, a[1] if len(a) > 1 else None), f"password_to_key({hash_fn!r}, {length})")

    def creds(method, with_auth=True, with_priv=True) -> Instance:
        c = Instance(v3, [], {})
        a = Instance(auth_cls, [], {})
        a.attrs.update(key=b"auth-password", method=method)
        p = Instance(priv_cls, [], {})
        p.attrs.update(key=b"priv-password", method="aes")
        c.attrs.update(username="operator", auth=a if with_auth else None, priv=p if with_priv else None)
        return c

    def run_one(c: Instance):
        try:
            return "return", MiniEval(ctx, externals={p2k.key: p2k_model}, max_steps=20000).call_function(lk, [c, b"engine-1"], {})
        except Raised as exc:
            return "raise", exc.value

    try:
        for method, spec in sorted(rfc.AUTH_PROTOCOLS.items()):
            kind, got = run_one(creds(method))
            ok = kind == "return" and isinstance(got, tuple) and len(got) == 5 and got[0] == "localised" and spec["hash"] in str(got[1]) and got[2] == spec["digest_len"] and got[3] == b"priv-password" and got[4] == b"engine-1"
            rep.check(ok, "C11-R3", lk.site(), f"auth method {method!r} localises the privacy key with {spec['hash']} / {spec['digest_len']} octets: hasher(<privacy password>, <engine id>) (evaluated)", f"{kind}: {got!r}"[:200], key=f"{lk.key}|hash-table|{method}")
        # the function keeps nothing between calls: the same evaluator (module-level containers persist in it) asked for
        # another privacy password / another authentication protocol / another engine under the same user name
        priv_by_password: Dict[bytes, Instance] = {}

        def creds2(method, password, username="operator") -> Instance:
            c = creds(method)
            c.attrs["username"] = username
            if password in priv_by_password:
                c.attrs["priv"] = priv_by_password[password]  # equal privacy settings are one (value-equal, hashable) object
            else:
                c.attrs["priv"].attrs["key"] = password
                priv_by_password[password] = c.attrs["priv"]
            return c

        ev = MiniEval(ctx, externals={p2k.key: p2k_model}, max_steps=40000)
        history = [("md5", b"first-password", b"engine-1"), ("md5", b"second-password", b"engine-1"), ("sha1", b"second-password", b"engine-1"), ("sha1", b"second-password", b"engine-2")]
        shared_priv = None
        stale = []
        for method, password, engine in history:
            c = creds2(method, password)
            if shared_priv is None:
                shared_priv = c.attrs["priv"]
            else:
                # the same Priv *object* re-used with a new password must not matter either (frozen or not)
                pass
            try:
                got = ev.call_function(lk, [c, engine], {})
            except Raised as exc:
                stale.append(f"{method}/{password!r}/{engine!r}: raises {exc.value!r}"[:90])
                continue
            spec = rfc.AUTH_PROTOCOLS[method]
            if not (isinstance(got, tuple) and len(got) == 5 and spec["hash"] in str(got[1]) and got[2] == spec["digest_len"] and got[3] == password and got[4] == engine):
                stale.append(f"{method}/{password!r}/{engine!r}: {got!r}"[:120])
        rep.check(not stale, "C11-R3", lk.site(), "the key is computed from the credentials and engine id of *this* call: a sequence of calls with a changed privacy password, authentication protocol or engine id never hands back an earlier call's key", "; ".join(stale), key=f"{lk.key}|stale-key-across-calls")
        bad = []
        for label, c in (("unknown protocol", creds("sha512-not-in-rfc3414")), ("no auth settings", creds("md5", with_auth=False)), ("no priv settings", creds("md5", with_priv=False))):
            kind, got = run_one(c)
            if kind != "raise":
                bad.append(f"{label}: {kind} {got!r}"[:90])
        rep.check(not bad, "C11-R3", lk.site(), "unknown authentication methods (and missing auth / priv settings) are refused, never defaulted (evaluated)", "; ".join(bad), key=f"{lk.key}|unknown-method")
    except Unevaluable as exc:
        rep.info(f"{lk.qualname} is not followed by the evaluator ({exc}); reading its structure instead")
        return False
    return True


def run(ctx: Ctx, rep: Report) -> None:
    rep.rule("C11-R1", "with privacy credentials only the plug-in's ciphertext is placed into the outgoing message", floor=2)
    rep.rule("C11-R2", "encrypt / decrypt arguments carry the localised key, engine id, boots, time, (salt,) data in Protocol order", floor=2)
    rep.rule("C11-R3", "the privacy key is the privacy password localised with the user's authentication hash", floor=2)
    rep.rule("C11-R4", "priv flag and encryption branch use the same predicate", floor=1)
    rep.rule("C11-R5", "the engine id, boots and time handed to the encryption step are the discovered authoritative ones (shared with C10-R2 / C12-R2)", floor=4)
    rep.assumptions += ["properties of any concrete cipher plug-in (only decrypt(encrypt(x)) = x is assumed by the property)", "incoming flag / payload-type disagreement ends in an exception (argued in DESIGN.md; not decided here)"]
    params_cls = ctx.u.cls("puresnmp_plugins.security.usm:USMSecurityParameters")
    # ------------------------------------------------------------ outgoing
    fn, call = find_caller(ctx, ENC)
    defs = ctx.defs(fn)
    creds = cred_params(ctx, fn)
    cred = creds[0] if creds else "credentials"
    msg_param = fn.params[0]
    st = stmt_of(call)
    enc_name = salt_name = None
    if isinstance(st, ast.Assign) and isinstance(st.targets[0], ast.Tuple) and len(st.targets[0].elts) == 2:
        enc_name, salt_name = norm(st.targets[0].elts[0]), norm(st.targets[0].elts[1])
    eb = bind_call_args(call, ctx.fn(ENC).params)
    got = {k: norm(ctx.xexpand(fn, v, depth=2, keep=[ctx.fn(LOCALISE).key])) for k, v in eb.items()}
    # roles of the encryption step's parameters, read off its call site in the security model
    eng = boots_p = time_p = None
    for caller, ccall in ctx.callers_of(fn):
        cdefs = ctx.defs(caller)
        for pname, arg in bind_call_args(ccall, fn.params, skip_self=False).items():
            txt = norm(cdefs.expand(arg))
            if txt.endswith("['authoritative_engine_boots']"):
                boots_p = pname
            elif txt.endswith("['authoritative_engine_time']"):
                time_p = pname
            elif txt in caller.params and "engine" in txt:
                eng = pname
    eng = eng or next((p for p in fn.params if "engine_id" in p), None)
    want = {
        "localised_key": f"localise_key({cred}, {eng})",
        "engine_id": eng,
        "engine_boots": boots_p or "engine_boots",
        "engine_time": time_p or "engine_time",
        "data": f"bytes({msg_param}.scoped_pdu)",
    }
    rep.check(got == want, "C11-R2", fn.site(call), "encrypt_data(localised key, engine id, boots, time, bytes(scoped PDU)) in Protocol order", f"{got}", key=f"{fn.key}|encrypt-args")
    cfg = ctx.cfg(fn)

    def priv_env(expr: ast.expr) -> Optional[bool]:
        txt = norm(defs.expand(expr))
        expr = defs.expand(expr)  # type: ignore[assignment]
        if isinstance(expr, ast.Compare) and len(expr.ops) == 1 and txt.startswith(f"{cred}.priv is"):
            return isinstance(expr.ops[0], ast.IsNot)
        if txt == f"{cred}.priv.method" or txt == f"{cred}.priv":
            return True
        return None

    outs = simulate(cfg, priv_env)
    ok = bool(outs)
    detail = []
    priv_paths = 0
    for o in outs:
        if o.kind == "raise":
            continue
        if o.kind != "return" or not isinstance(o.stmt, ast.Return) or o.stmt.value is None:
            ok = False
            detail.append(repr(o))
            continue
        exp = ctx.xexpand(fn, o.stmt.value, stop=[enc_name, salt_name] if enc_name else [])
        kw = {k.arg: k.value for k in exp.keywords} if isinstance(exp, ast.Call) else {}
        sp = kw.get("scoped_pdu")
        good = isinstance(exp, ast.Call) and norm(exp.func) == "replace" and exp.args and norm(exp.args[0]) == msg_param and sp is not None and norm(sp) == f"OctetString({enc_name})"
        if not good:
            ok = False
            detail.append(f"returns {norm(exp)[:100]}")
        sec = kw.get("security_parameters")
        sec_ok = False
        if isinstance(sec, ast.Call) and norm(sec.func) == "bytes" and isinstance(sec.args[0], ast.Call) and ctx.r.resolve_class(fn.module, sec.args[0].func) == params_cls:
            pb = bind_call_args(sec.args[0], dataclass_fields(params_cls), skip_self=False)
            sec_ok = norm(pb.get("priv_params", ast.Constant(None))) == salt_name
        if not sec_ok:
            ok = False
            detail.append("msgPrivacyParameters is not the plug-in's salt")
    rep.check(ok and enc_name is not None, "C11-R1", fn.site(), "privacy credentials: every returned message carries OctetString(ciphertext) and the plug-in's salt as privacy parameters", "; ".join(detail), key=f"{fn.key}|plaintext-out")
    # plaintext use: bytes(message.scoped_pdu) / message.scoped_pdu only as the data argument
    uses = [n for n in own_nodes(fn.node) if isinstance(n, ast.Attribute) and n.attr == "scoped_pdu" and norm(n.value) == msg_param and isinstance(n.ctx, ast.Load)]
    data_arg = eb.get("data")
    def only_feeds_data(use: ast.AST) -> bool:
        """The read sits in the data argument, or defines a local whose every read sits there."""
        if data_arg is not None and any(use is x for x in ast.walk(data_arg)):
            return True
        st_ = stmt_of(use)
        if isinstance(st_, ast.Assign) and len(st_.targets) == 1 and isinstance(st_.targets[0], ast.Name) and data_arg is not None:
            local = st_.targets[0].id
            reads = [n for n in own_nodes(fn.node) if isinstance(n, ast.Name) and n.id == local and isinstance(n.ctx, ast.Load)]
            return bool(reads) and all(any(r is x for x in ast.walk(data_arg)) for r in reads)
        return False

    inside = [u for u in uses if only_feeds_data(u)]
    rep.check(len(uses) == len(inside) == 1, "C11-R1", fn.site(), "the plaintext scoped PDU is read exactly once: as the data argument of encrypt_data", f"{len(uses)} read(s), {len(inside)} feeding only the call", key=f"{fn.key}|plaintext-use")
    from ..engine.cfg import enclosing_tries

    handlers = [h for tr, part in enclosing_tries(call, fn.node) if part == "body" for h in tr.handlers]
    ok = all(handler_reraises(h) for h in handlers)
    rep.check(ok, "C11-R1", fn.site(), "a failing encryption raises (EncryptionError); no handler falls back to sending plaintext", f"{len(handlers)} handler(s) around the call", key=f"{fn.key}|plaintext-fallback")
    # no-priv branch predicate
    branch_pred = None
    for n in own_nodes(fn.node):
        if isinstance(n, ast.If) and norm(defs.expand(n.test)) == f"{cred}.priv is None" and any(isinstance(s, ast.Return) for s in n.body):
            branch_pred = norm(defs.expand(n.test))
    v3 = mpm_class(ctx, 3)
    enc3 = own_method(ctx, v3, "encode")
    flag_pred = None
    for n in own_nodes(enc3.node):
        if isinstance(n, ast.keyword) and n.arg == "priv":
            flag_pred = norm(n.value)
    rep.check(branch_pred is not None and flag_pred is not None and flag_pred.replace("is not None", "is None").split(".")[-1] == branch_pred.split(".")[-1], "C11-R4", fn.site(), "the message is encrypted exactly when the priv flag is set (both test `credentials.priv is (not) None`)", f"flag: {flag_pred}; plaintext branch: {branch_pred}", key=f"{fn.key}|selector-mismatch")

    # ------------------------------------------------------------ incoming
    dfn, dcall = find_caller(ctx, DEC)
    ddefs = ctx.defs(dfn)
    dcreds = cred_params(ctx, dfn)
    dcred = dcreds[0] if dcreds else "credentials"
    dmsg = dfn.params[0]
    db = bind_call_args(dcall, ctx.fn(DEC).params)
    got = {k: norm(ctx.xexpand(dfn, v, depth=2, keep=[ctx.fn(LOCALISE).key])) for k, v in db.items()}
    sp = f"USMSecurityParameters.decode({dmsg}.security_parameters)"
    want = {
        "localised_key": f"localise_key({dcred}, {sp}.authoritative_engine_id)",
        "engine_id": f"{sp}.authoritative_engine_id",
        "engine_boots": f"{sp}.authoritative_engine_boots",
        "engine_time": f"{sp}.authoritative_engine_time",
        "salt": f"{sp}.priv_params",
        "data": f"{dmsg}.scoped_pdu.value",
    }
    rep.check(got == want, "C11-R2", dfn.site(dcall), "decrypt_data(localised key, engine id, boots, time, salt, ciphertext) all taken from the received message's own security parameters", f"{got}", key=f"{dfn.key}|decrypt-args")
    dst = stmt_of(dcall)
    dname = dst.targets[0].id if isinstance(dst, ast.Assign) and isinstance(dst.targets[0], ast.Name) else None
    ok = False
    detail = ""
    from .walkmodel import assigned_value, reaching_defs

    dcfg = ctx.cfg(dfn)
    msg_base = ctx.u.cls("puresnmp.adt:Message")
    ddefs2 = ctx.defs(dfn)
    for n in own_nodes(dfn.node):
        rebuilt = None
        if isinstance(n, ast.Call) and not (norm(n.func) == "replace"):
            kcls = ctx.r.resolve_class(dfn.module, n.func)
            if kcls is not None and ctx.r.is_subclass(kcls, msg_base):
                # PlainMessage(version=m.version, header=m.header, security_parameters=m.security_parameters, scoped_pdu=..):
                # the field-wise spelling of replace(m, scoped_pdu=..)
                fb = bind_call_args(n, dataclass_fields(kcls) or dataclass_fields(msg_base), skip_self=False)
                others = {k: v for k, v in fb.items() if k != "scoped_pdu"}
                if "scoped_pdu" in fb and others and all(norm(v) == f"{dmsg}.{k}" for k, v in others.items()):
                    rebuilt = {"scoped_pdu": fb["scoped_pdu"]}
        if (isinstance(n, ast.Call) and norm(n.func) == "replace" and n.args and norm(n.args[0]) == dmsg) or rebuilt is not None:
            kws = rebuilt if rebuilt is not None else {k.arg: k.value for k in n.keywords}
            sp_arg = kws.get("scoped_pdu")
            if isinstance(sp_arg, ast.Name) and ddefs2.single(sp_arg.id) is not None:
                sp_arg = ddefs2.single(sp_arg.id)  # scoped_pdu = ScopedPDU.decode(decrypted)
            if set(kws) != {"scoped_pdu"} or not (isinstance(sp_arg, ast.Call) and norm(sp_arg.func) == "ScopedPDU.decode" and len(sp_arg.args) == 1):
                detail = f"replace({', '.join(sorted(k or '**' for k in kws))})"
                continue
            src = strip_casts(sp_arg.args[0])
            if src is dcall:
                ok = True
            elif isinstance(src, ast.Name):
                # the octets parsed are the plug-in's output as it is: every definition reaching the parse is the decrypt call
                at = cfg_node_of(dcfg, n)
                rd = reaching_defs(dcfg, src.id, at) if at is not None else []
                vals = [assigned_value(d) for d in rd]
                ok = bool(rd) and all(v is not None and strip_casts(v) is dcall for v in vals)
                if not ok:
                    detail = f"`{src.id}` reaching the parse is defined by: {[norm(v)[:60] if v is not None else '?' for v in vals]}"
            else:
                detail = f"parsed expression: {norm(src)[:80]}"
    rep.check(ok, "C11-R2", dfn.site(), "the decrypted octets are parsed, unmodified, as scoped PDU and replace only the ciphertext in the message", detail, key=f"{dfn.key}|decrypt-result")

    from . import c10, c12

    sub = ctx.sub_run("c10", rep)
    rep.adopt_rules(sub, "C11-R5", ["C10-R2"])
    sub = ctx.sub_run("c12", rep)
    rep.adopt_rules(sub, "C11-R5", ["C12-R2"])

    # ------------------------------------------------------------ R3
    lk = ctx.fn(LOCALISE)
    ldefs = ctx.defs(lk)
    lcred, leng = lk.params[0], lk.params[1]
    if localise_by_evaluation(ctx, rep, lk):
        return
    rets = [n for n in own_nodes(lk.node) if isinstance(n, ast.Return) and n.value is not None]
    ok = len(rets) == 1
    if ok:
        exp = ldefs.expand(rets[0].value, stop=["hasher"])
        ok = isinstance(exp, ast.Call) and norm(exp.func) == "hasher" and [norm(a) for a in exp.args] == [f"{lcred}.priv.key", leng]
    rep.check(ok, "C11-R3", lk.site(), "the localised privacy key is hasher(<privacy password>, <engine id>)", f"{[norm(r.value) for r in rets]}", key=f"{lk.key}|key-material")
    table = {}
    for n in own_nodes(lk.node):
        if isinstance(n, ast.If) and isinstance(n.test, ast.Compare) and norm(n.test.left) == f"{lcred}.auth.method":
            try:
                method = ctx.r.const(lk.module, n.test.comparators[0])
            except NotConstant:
                continue
            for sub in n.body:
                if isinstance(sub, ast.Assign) and isinstance(sub.value, ast.Call) and norm(sub.value.func) == "password_to_key":
                    a0 = strip_casts(sub.value.args[0])
                    try:
                        table[method] = (norm(a0), ctx.r.const(lk.module, sub.value.args[1]))
                    except NotConstant:
                        table[method] = (norm(a0), None)
    for method, spec in sorted(rfc.AUTH_PROTOCOLS.items()):
        rep.check(table.get(method) == (f"hashlib.{spec['hash']}", spec["digest_len"]), "C11-R3", lk.site(), f"auth method {method!r} localises the privacy key with {spec['hash']} / {spec['digest_len']} octets", f"{table.get(method)}", key=f"{lk.key}|hash-table|{method}")
    raises_unknown = any(isinstance(n, ast.Raise) for n in own_nodes(lk.node))
    rep.check(raises_unknown, "C11-R3", lk.site(), "unknown authentication methods (and missing auth / priv settings) are refused, never defaulted", key=f"{lk.key}|unknown-method")
