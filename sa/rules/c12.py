"""
C12 - discovery happens first and timeliness is kept for the client's whole life.

R1  discovery dominates use: every read of the discovery cache in the v3 encode
    path is preceded, on every path, by the discover-if-missing step.
R2  engine-id provenance: the security engine id is the discovered one; the
    context engine id falls back to it when the caller supplied none.
R3  clock source: the engine time placed in a request depends on a local clock
    read taken relative to the moment of discovery (RFC 3414 2.3); a value that
    only originates in the cached discovery field would leave the 150 s window
    as the agent's clock advances.
R4  report table: usmStats 1.3.6.1.6.3.15.1.1.{1..6}.0 all surface as SnmpError.
R5  the discovery reply's message id is validated against the probe's (C07-R5).
R6  re-synchronisation: a notInTimeWindow report (agent reboot, clock jump)
    refreshes or invalidates the discovery cache.
"""
from __future__ import annotations

import ast
from typing import Any, Dict, List, Optional, Tuple

from .. import rfc
from ..engine.context import Ctx, bind_call_args
from ..engine.exprs import norm
from ..engine.patterns import cfg_node_of, simulate, stmt_of
from ..engine.report import Report
from ..engine.resolve import NotConstant
from ..engine.universe import AnalysisError, FuncInfo, own_nodes
from .common import mpm_class, own_method, usm_class
from .walkmodel import assigned_value, reaching_defs

CLOCKS = ("ext:time.monotonic", "ext:time.time", "ext:time.perf_counter", "ext:time.monotonic_ns")


def check_disco_provenance(ctx: Ctx, rep: Report, usm) -> None:
    """
    What discovery learns is what the reply's *security parameters* say (RFC 3414 section 4: msgAuthoritativeEngineID,
    -Boots, -Time of the Report): every `DiscoData(...)` built by the discovery exchange takes its engine id, boots and
    time from `USMSecurityParameters.decode(<reply>.security_parameters)` - not from the scoped PDU's contextEngineID,
    which an agent may legally leave empty.
    """
    fn = ctx.r.method(usm, "send_discovery_message")
    if fn is None:
        rep.undecided("C12-R7", f"{usm.module.path} ({usm.name})", "the discovery exchange exists", "send_discovery_message missing")
        return
    disco_cls = None
    for key in ("puresnmp_plugins.security.usm:DiscoData", "puresnmp.plugins.security:DiscoData"):
        disco_cls = disco_cls or ctx.u.classes.get(ctx.u.canonical(key))
    params_cls = ctx.u.classes.get(ctx.u.canonical("puresnmp_plugins.security.usm:USMSecurityParameters"))
    keep = [m.key for m in params_cls.methods.values()] if params_cls is not None else []
    view = ctx.inlined(fn, keep=keep)  # helpers of the exchange spliced in; the parameter decoder stays a call
    built = [n for n in own_nodes(view.node) if isinstance(n, ast.Call) and disco_cls is not None and ctx.r.resolve_class(view.module, n.func) == disco_cls]
    if not built:
        rep.undecided("C12-R7", fn.site(), "the discovery exchange builds its result (DiscoData)", "constructor call not found")
        return
    from ..engine.context import dataclass_fields

    for call in built:
        b = bind_call_args(call, dataclass_fields(disco_cls), skip_self=False)
        for fld in ("authoritative_engine_id", "authoritative_engine_boots", "authoritative_engine_time"):
            arg = b.get(fld)
            txt = norm(ctx.xexpand(view, arg, depth=2)) if arg is not None else ""
            ok = txt.endswith(f".{fld}") and "USMSecurityParameters.decode(" in txt and ".security_parameters)" in txt
            rep.check(ok, "C12-R7", view.site(call), f"discovery takes {fld} from the reply's USM security parameters (msgAuthoritativeEngine...)", f"{fld} = {txt[:120]}", key=f"{fn.key}|disco-provenance|{fld}")


def usmstats_by_evaluation(ctx: Ctx, rep: Report, val: FuncInfo):
    """
    `validate_usm_message` evaluated on messages whose scoped PDU is a Report / a GetResponse carrying an ordinary
    binding followed by one of the six usmStats counters of RFC 3414 section 5 (or by another ordinary binding):
    a Report with a usmStats counter raises SnmpError, everything else returns.  [(ok, text, detail, key)] or None.
    """
    from ..engine.minieval import Instance, MiniEval, OidVal, Raised, Unevaluable

    snmp_error = ctx.u.cls("puresnmp.exc:SnmpError")
    int_cls = ctx.u.cls("x690.types:Integer")
    vb_cls = ctx.u.cls("puresnmp.varbind:VarBind")

    def binding(oid: str, k: int) -> Instance:
        v = Instance(int_cls, [], {})
        v.attrs.update(value=k, pyvalue=k)
        vb = Instance(vb_cls, [], {})
        vb.attrs.update(oid=OidVal(tuple(int(x) for x in oid.split("."))), value=v)
        vb.attrs["__items__"] = [vb.attrs["oid"], v]
        return vb

    def message(payload_cls: str, oids: List[str]) -> Instance:
        content = Instance(ctx.u.cls("puresnmp.pdu:PDUContent"), [], {})
        content.attrs.update(request_id=1, varbinds=[binding(o, i) for i, o in enumerate(oids)], error_status=0, error_index=0)
        pdu = Instance(ctx.u.cls(f"puresnmp.pdu:{payload_cls}"), [], {})
        pdu.attrs.update(value=content, pyvalue=content)
        scoped = Instance(ctx.u.cls("puresnmp.adt:ScopedPDU"), [], {})
        scoped.attrs.update(data=pdu, context_engine_id=b"", context_name=b"")
        msg = Instance(ctx.u.cls("puresnmp.adt:PlainMessage"), [], {})
        msg.attrs.update(scoped_pdu=scoped, security_parameters=b"", version=3)
        return msg

    def run_one(payload_cls: str, oids: List[str]):
        try:
            return "return", MiniEval(ctx, max_steps=20000).call_function(val, [message(payload_cls, oids)], {})
        except Raised as exc:
            return "raise", exc.value

    ordinary = "1.3.6.1.2.1.1.3.0"
    out = []
    try:
        for oid, name in sorted(rfc.USM_STATS.items()):
            kind, got = run_one("Report", [ordinary, oid])
            ok = kind == "raise" and isinstance(got, Instance) and ctx.r.is_subclass(got.cls, snmp_error)
            out.append((ok, f"{name} ({oid}) is recognised as an error report (a Report carrying it after an ordinary binding raises SnmpError)", f"{kind}: {got!r}"[:160], f"usmstats|{oid}"))
        kind, got = run_one("Report", [ordinary, "1.3.6.1.2.1.1.5.0"])
        out.append((kind == "return", "every binding of the (report) PDU is looked up and a hit raises SnmpError; a Report without a usmStats counter passes", f"{kind}: {got!r}"[:160], "report-raise"))
        leaks = []
        for oid in sorted(rfc.USM_STATS):
            kind, got = run_one("GetResponse", [ordinary, oid])
            if kind != "return":
                leaks.append(oid)
        out.append((not leaks, "the usmStats OIDs count as error indication only in Report PDUs (an authentic response that carries them as data - a GET or walk below 1.3.6.1.6.3.15.1.1 - is delivered)", f"a GetResponse carrying {leaks} raises" if leaks else "", "usmstats-in-data"))
    except Unevaluable as exc:
        rep.info(f"{val.qualname} is not followed by the evaluator ({exc}); reading its structure instead")
        return None
    return out


def run(ctx: Ctx, rep: Report) -> None:
    rep.rule("C12-R1", "the discovery cache is filled before it is read, on every path of the v3 encode", floor=2)
    rep.rule("C12-R2", "security engine id and default context engine id come from discovery", floor=1)
    rep.rule("C12-R3", "the engine time sent advances with a local clock read relative to the moment of discovery", floor=2)
    rep.rule("C12-R7", "the discovered engine id, boots and time are read from the reply's USM security parameters", floor=2)
    rep.rule("C12-R4", "all six usmStats report OIDs surface as SnmpError", floor=4)
    rep.rule("C12-R5", "the discovery reply is matched to the probe by message id", floor=2)
    rep.rule("C12-R6", "a notInTimeWindow report leads to re-synchronisation (refresh / invalidation of the discovery cache)", floor=1)
    rep.assumptions += [
        "local and agent clocks advance at the same rate (drift arithmetic is not analysed)",
        "time.monotonic() is non-decreasing",
    ]
    v3 = mpm_class(ctx, 3)
    enc = ctx.inlined(own_method(ctx, v3, "encode"))  # small helpers of the class (lazy security model, local engine time) spliced in
    usm = usm_class(ctx)
    cfg = ctx.cfg(enc)
    defs = ctx.defs(enc)
    # the discovery cache attribute: assigned from send_discovery_message
    cache = None
    disco_assign = None
    for n in own_nodes(enc.node):
        if isinstance(n, ast.Assign) and isinstance(n.value, ast.Await) and isinstance(n.value.value, ast.Call) and isinstance(n.value.value.func, ast.Attribute) and n.value.value.func.attr == "send_discovery_message":
            tgt = n.targets[0]
            if isinstance(tgt, ast.Attribute) and norm(tgt.value) == "self":
                cache = tgt.attr
                disco_assign = n
    if cache is None:
        rep.violated("C12-R1", enc.site(), "the v3 encode performs engine discovery and caches the result", "no `self.<cache> = await ...send_discovery_message(...)` found", key=f"{enc.key}|no-discovery")
        return
    anode = cfg_node_of(cfg, disco_assign)
    aliases = {name for name, vals in defs.assigns.items() if vals and all(norm(v) == f"self.{cache}" for v, _ in vals)}
    reads = [
        n
        for n in own_nodes(enc.node)
        if isinstance(n, ast.Attribute)
        and isinstance(n.ctx, ast.Load)
        and ((isinstance(n.value, ast.Attribute) and norm(n.value) == f"self.{cache}") or (isinstance(n.value, ast.Name) and n.value.id in aliases))
    ]
    # taking the alias is itself a read of the cache
    reads += [v for name in aliases for v, _ in defs.assigns[name]]

    def missing_env(expr: ast.expr) -> Optional[bool]:
        txt = norm(expr)
        if txt == f"self.{cache}":
            return False  # cache empty on entry
        if isinstance(expr, ast.Compare) and norm(expr.left) == f"self.{cache}" and isinstance(expr.comparators[0], ast.Constant) and expr.comparators[0].value is None:
            return None  # after the discovery step this is decided by the assignment, keep both
        if isinstance(expr, ast.Call) and isinstance(expr.func, ast.Name) and expr.func.id == "isinstance":
            return True
        return None

    outs = simulate(cfg, missing_env, expand=defs.expand)
    read_nodes = {cfg_node_of(cfg, r).id for r in reads if cfg_node_of(cfg, r) is not None}
    bad = []
    for o in outs:
        ids = [t.id for t in o.trail]
        first_read = next((i for i, t in enumerate(ids) if t in read_nodes), None)
        if first_read is not None and (anode is None or anode.id not in ids[:first_read]):
            bad.append(repr(o.trail[first_read]))
    rep.check(bool(reads) and not bad, "C12-R1", enc.site(), f"with an empty cache every read of self.{cache} is preceded by the discovery exchange", f"{len(reads)} read(s); unguarded: {bad[:2]}", key=f"{enc.key}|read-before-discovery")
    # discover-once: the discovery step is guarded by "cache empty"
    guard_ok = False
    for n in own_nodes(enc.node):
        if isinstance(n, ast.If) and disco_assign in n.body and norm(n.test) in (f"not self.{cache}", f"self.{cache} is None"):
            guard_ok = True
    rep.check(guard_ok, "C12-R1", enc.site(disco_assign), "discovery runs exactly when the cache is empty (first request; repeated discovery is never skipped by a stale flag)", key=f"{enc.key}|discovery-guard")
    # the probe goes through the client's transport handler
    dcall = disco_assign.value.value
    rep.check(len(dcall.args) == 1 and norm(dcall.args[0]) == "self.transport_handler", "C12-R1", enc.site(disco_assign), "the discovery probe is sent through this client's transport handler", norm(dcall), key=f"{enc.key}|probe-transport")

    # ------------------------------------------------------------ R2
    gcalls = [n for n in own_nodes(enc.node) if isinstance(n, ast.Call) and isinstance(n.func, ast.Attribute) and n.func.attr == "generate_request_message"]
    ok = len(gcalls) == 1 and norm(defs.expand(gcalls[0].args[1])) == f"self.{cache}.authoritative_engine_id"
    rep.check(ok, "C12-R2", enc.site(), "the security engine id handed to the security model is the discovered engine id", key=f"{enc.key}|security-engine-id")
    spdu_cls = ctx.u.cls("puresnmp.adt:ScopedPDU")
    eng_param = enc.params[3]
    sp_calls = [n for n in own_nodes(enc.node) if isinstance(n, ast.Call) and ctx.r.resolve_class(enc.module, n.func) == spdu_cls]
    ok = False
    detail = ""
    if len(sp_calls) == 1:
        first = sp_calls[0].args[0]
        inner = first.args[0] if isinstance(first, ast.Call) and first.args else first
        spnode = cfg_node_of(cfg, sp_calls[0])

        def empty_env(expr: ast.expr) -> Optional[bool]:
            if isinstance(expr, ast.Compare) and norm(expr.left) == eng_param and isinstance(expr.comparators[0], ast.Constant) and expr.comparators[0].value == b"":
                return isinstance(expr.ops[0], ast.Eq)
            if norm(expr) == f"not {eng_param}":
                return True
            return None

        outs = simulate(cfg, lambda e: empty_env(e) if empty_env(e) is not None else missing_env(e), expand=defs.expand)
        ok = isinstance(inner, ast.Name) and inner.id == eng_param and bool(outs)
        for o in outs:
            ids = [t.id for t in o.trail]
            if spnode is None or spnode.id not in ids:
                continue
            upto = o.trail[: ids.index(spnode.id)]
            assigns = [t for t in upto if isinstance(t.ast, ast.Assign) and any(isinstance(x, ast.Name) and x.id == eng_param for x in t.ast.targets)]
            if not assigns or norm(defs.expand(assigns[-1].ast.value)) != f"self.{cache}.authoritative_engine_id":
                ok = False
                detail = "with an empty caller engine id the context engine id is not the discovered one"
    rep.check(ok, "C12-R2", enc.site(), "when the caller supplies no context engine id, the discovered engine id is used", detail, key=f"{enc.key}|default-context-engine")

    # ------------------------------------------------------------ R3
    tcalls = [n for n in own_nodes(enc.node) if isinstance(n, ast.Call) and isinstance(n.func, ast.Attribute) and n.func.attr == "set_engine_timing"]
    if len(tcalls) != 1:
        rep.undecided("C12-R3", enc.site(), "one set_engine_timing call", f"{len(tcalls)}")
    else:
        st = own_method(ctx, usm, "set_engine_timing")
        tb = bind_call_args(tcalls[0], st.params)
        targ = tb.get(st.params[3])
        tnode = cfg_node_of(cfg, tcalls[0])
        # collect, for the state "discovered earlier", the expression that reaches the time argument
        stamp_attr = None
        stamp_node = None
        for n in own_nodes(enc.node):
            if isinstance(n, ast.Assign) and isinstance(n.targets[0], ast.Attribute) and norm(n.targets[0].value) == "self" and isinstance(n.value, ast.Call) and any(c in CLOCKS for c in ctx.r.callee_names(enc, n.value)):
                stamp_attr = n.targets[0].attr
                stamp_node = n
        clock_dep = False
        origin = norm(targ) if targ is not None else None

        def stamped_env(expr: ast.expr) -> Optional[bool]:
            # state of interest: discovery has happened (now or earlier), so the reference stamp is set
            if stamp_attr is not None and isinstance(expr, ast.Compare) and norm(expr.left) == f"self.{stamp_attr}" and isinstance(expr.comparators[0], ast.Constant) and expr.comparators[0].value is None:
                return isinstance(expr.ops[0], (ast.IsNot, ast.NotEq))
            if isinstance(expr, ast.Call) and isinstance(expr.func, ast.Name) and expr.func.id == "isinstance":
                return True
            return None

        trails = [o.trail for o in simulate(cfg, stamped_env, expand=defs.expand)]

        def last_defs(name: str, at) -> List[ast.AST]:
            found = []
            for trail in trails:
                ids = [t.id for t in trail]
                if at.id not in ids:
                    continue
                for t in reversed(trail[: ids.index(at.id)]):
                    if isinstance(t.ast, ast.Assign) and any(isinstance(x, ast.Name) and x.id == name for x in t.ast.targets):
                        if t.ast.value not in found:
                            found.append(t.ast.value)
                        break
            return found

        def depends_on_clock(expr: ast.AST, at, depth: int = 0) -> bool:
            for sub in ast.walk(expr):
                if isinstance(sub, ast.Call) and any(c in CLOCKS for c in ctx.r.callee_names(enc, sub)):
                    return True
            if depth > 4:
                return False
            for sub in ast.walk(expr):
                if isinstance(sub, ast.Name) and sub.id not in enc.params:
                    vals = last_defs(sub.id, at)
                    if vals and all(depends_on_clock(v, at, depth + 1) for v in vals):
                        return True
            return False

        if targ is not None and tnode is not None:
            clock_dep = depends_on_clock(targ, tnode)
        # a local with several definitions (the return slot of a spliced helper): what reaches the call when a stamp exists
        if isinstance(targ, ast.Name) and tnode is not None and len(defs.all_values(targ.id)) > 1:
            reaching = last_defs(targ.id, tnode)
            if len(reaching) == 1:
                targ = reaching[0]
        base_ok = targ is not None and f"self.{cache}.authoritative_engine_time" in norm(defs.expand(targ, stop=["elapsed"]))
        rep.check(
            clock_dep and base_ok,
            "C12-R3",
            enc.site(tcalls[0]),
            "the engine time given to the security model = discovered time + locally elapsed time (depends on a local clock read)",
            f"time argument `{origin}`" + ("" if clock_dep else ": its only origin is the cached discovery field - it never advances, so any request later than 150 s after discovery is answered with notInTimeWindow"),
            key=f"{enc.key}|engine-time-constant",
        )
        # ... and it is their *sum*: the remote clock runs forwards (evaluated for three elapsed values)
        if targ is not None and tnode is not None and clock_dep and base_ok:
            from ..engine.exprs import Unevaluable, int_eval

            clock_locals = [n.id for n in ast.walk(defs.expand(targ, stop=[x.id for x in ast.walk(targ) if isinstance(x, ast.Name)])) if isinstance(n, ast.Name) and n.id not in enc.params and depends_on_clock(n, tnode)]
            exp_t = defs.expand(targ, stop=clock_locals)
            sums: List[Tuple[int, Any]] = []
            try:
                for probe in (1, 7, 200):

                    def atoms2(x: ast.AST, probe=probe):
                        if isinstance(x, ast.Attribute) and x.attr == "authoritative_engine_time":
                            return 1000
                        if isinstance(x, ast.Name) and x.id in clock_locals:
                            return probe
                        return None

                    sums.append((probe, int_eval(exp_t, atoms2)))
                forwards = bool(clock_locals) and all(got == 1000 + probe for probe, got in sums)
                rep.check(forwards, "C12-R3", enc.site(tcalls[0]), "the engine time sent = discovered time PLUS the locally elapsed seconds (the estimate of the remote clock runs forwards)", f"time argument `{norm(exp_t)}` evaluates to {[g for _, g in sums]} for elapsed = {[p for p, _ in sums]} and a discovered time of 1000", key=f"{enc.key}|engine-time-direction")
            except Unevaluable:
                rep.info(f"engine time expression `{norm(exp_t)}` is not an integer expression over the cached time and the elapsed seconds; direction not evaluated")
        # the reference stamp is taken from the same clock right after discovery, in the same block
        ok = stamp_node is not None and any(disco_assign in blk and stamp_node in blk and blk.index(stamp_node) == blk.index(disco_assign) + 1 for blk in _blocks(enc.node))
        rep.check(ok, "C12-R3", enc.site(stamp_node) if stamp_node is not None else enc.site(), "the local reference time is taken immediately after the discovery reply (same block)", key=f"{enc.key}|stamp-position")
        # the cached engine time and its local reference stamp belong together: whoever writes the cache anywhere in
        # the class (a "re-synchronisation" in decode, ...) re-stamps on the same path, or the elapsed time is counted
        # from the wrong moment
        if stamp_attr is not None:
            for meth in v3.methods.values():
                mcfg = ctx.cfg(meth)
                cache_stores = [n for n in own_nodes(meth.node) if isinstance(n, ast.Assign) and any(isinstance(t, ast.Attribute) and t.attr == "disco" and norm(t.value) == "self" for t in n.targets)]
                stamp_stores = [cfg_node_of(mcfg, n) for n in own_nodes(meth.node) if isinstance(n, ast.Assign) and any(isinstance(t, ast.Attribute) and t.attr == stamp_attr and norm(t.value) == "self" for t in n.targets)]
                stamp_stores = [n for n in stamp_stores if n is not None]
                for cs in cache_stores:
                    if meth is enc and cs is disco_assign:
                        continue  # decided above
                    if isinstance(cs.value, ast.Constant) and cs.value.value is None:
                        continue  # invalidation: the next request discovers (and stamps) again
                    cnode = cfg_node_of(mcfg, cs)
                    okp = cnode is not None and bool(stamp_stores) and mcfg.must_pass(cnode, [mcfg.exit], stamp_stores)
                    rep.check(okp, "C12-R3", meth.site(cs), f"{meth.qualname}: a new engine time written to the discovery cache comes with a new local reference stamp (self.{stamp_attr}) on every path", key=f"{meth.key}|cache-without-stamp")
            # ... also from outside the class (a client that hands the discovery data of one model to another)
            for fn_ in ctx.u.functions.values():
                if fn_.module.external or not fn_.module.name.startswith("puresnmp") or (fn_.cls is not None and fn_.cls.key == v3.key):
                    continue
                ocfg = None
                for n in own_nodes(fn_.node):
                    if not (isinstance(n, ast.Assign) and any(isinstance(t, ast.Attribute) and t.attr == "disco" for t in n.targets)):
                        continue
                    tgt = next(t for t in n.targets if isinstance(t, ast.Attribute) and t.attr == "disco")
                    if isinstance(n.value, ast.Constant) and n.value.value is None:
                        continue  # invalidation: the next request discovers (and stamps) again
                    ocfg = ocfg or ctx.cfg(fn_)
                    cnode = cfg_node_of(ocfg, n)
                    stamps = [cfg_node_of(ocfg, m) for m in own_nodes(fn_.node) if isinstance(m, ast.Assign) and any(isinstance(t, ast.Attribute) and t.attr == stamp_attr and norm(t.value) == norm(tgt.value) for t in m.targets)]
                    stamps = [x for x in stamps if x is not None]
                    okp = cnode is not None and bool(stamps) and ocfg.must_pass(cnode, [ocfg.exit], stamps)
                    rep.check(okp, "C12-R3", fn_.site(n), f"{fn_.qualname}: discovery data written into a message-processing model from outside (`{norm(n)[:60]}`) comes with its local reference stamp ({stamp_attr}) on every path; without it the engine time sent never advances", key=f"{fn_.key}|cache-without-stamp")
        elapsed_ok = False
        for n in own_nodes(enc.node):
            if isinstance(n, ast.BinOp) and isinstance(n.op, ast.Sub) and isinstance(n.left, ast.Call) and any(c in CLOCKS for c in ctx.r.callee_names(enc, n.left)) and stamp_attr and norm(n.right) == f"self.{stamp_attr}":
                same_clock = stamp_node is not None and norm(n.left.func) == norm(stamp_node.value.func)
                elapsed_ok = same_clock
        rep.check(elapsed_ok, "C12-R3", enc.site(), "elapsed time = now - reference stamp, both from the same clock (never negative, counts seconds)", key=f"{enc.key}|elapsed-formula")

    # ------------------------------------------------------------ R4
    val = None
    for fn in ctx.u.functions.values():
        if fn.module.name == "puresnmp_plugins.security.usm" and fn.name == "validate_usm_message":
            val = fn
    if val is None:
        rep.violated("C12-R4", "puresnmp_plugins/security/usm.py", "USM report validation exists", "validate_usm_message vanished", key="usm|no-report-validation")
    else:
        evaluated = usmstats_by_evaluation(ctx, rep, val)
        if evaluated is not None:
            for ok_, text_, detail_, key_ in evaluated:
                rep.check(ok_, "C12-R4", val.site(), text_, detail_, key=f"{val.key}|{key_}")
        if evaluated is None:
            # OID-keyed tables of the validator or of its module (one of them is the set of report OIDs that is tested)
            tables: Dict[str, Dict[str, ast.AST]] = {}

            def oid_table(value: ast.AST) -> Dict[str, ast.AST]:
                tab: Dict[str, ast.AST] = {}
                if isinstance(value, (ast.Dict, ast.Set, ast.Tuple, ast.List)):
                    keys = value.keys if isinstance(value, ast.Dict) else value.elts
                    for k in keys:
                        if isinstance(k, ast.Call) and k.args:
                            try:
                                tab[ctx.r.const(val.module, k.args[0])] = k
                            except NotConstant:
                                pass
                return tab

            for n in own_nodes(val.node):
                value = n.value if isinstance(n, (ast.Assign, ast.AnnAssign)) else None
                tgt = (n.targets[0] if isinstance(n, ast.Assign) else n.target) if value is not None else None
                if value is not None and isinstance(tgt, ast.Name) and oid_table(value):
                    tables[tgt.id] = oid_table(value)
            for name, binding in ctx.r.env(val.module).items():
                if binding.kind == "value" and binding.module is val.module and name not in tables and oid_table(binding.target):
                    tables[name] = oid_table(binding.target)
            vdefs = ctx.defs(val)
            snmp_error = ctx.u.cls("puresnmp.exc:SnmpError")
            tested: Optional[str] = None
            loop_ok = False
            detail = ""

            def hit_test(test: ast.AST, target: str) -> Optional[str]:
                """Name of the table a test looks the binding's OID up in:  <b>.oid in T  /  T.get(<b>.oid) is not None  /  T.get(..)."""
                test = vdefs.expand(test, stop=[target] + list(tables))
                if isinstance(test, ast.Compare) and len(test.ops) == 1:
                    left, right = test.left, test.comparators[0]
                    if isinstance(test.ops[0], ast.In) and norm(left) == f"{target}.oid":
                        if isinstance(right, ast.Call) and isinstance(right.func, ast.Attribute) and right.func.attr == "keys":
                            right = right.func.value
                        return norm(right) if norm(right) in tables else None
                    if isinstance(test.ops[0], ast.IsNot) and isinstance(right, ast.Constant) and right.value is None:
                        return hit_test(left, target)
                if isinstance(test, ast.Call) and isinstance(test.func, ast.Attribute) and test.func.attr == "get" and len(test.args) == 1 and norm(test.args[0]) == f"{target}.oid":
                    return norm(test.func.value) if norm(test.func.value) in tables else None
                return None

            for n in own_nodes(val.node):
                if isinstance(n, ast.For) and norm(vdefs.expand(n.iter)).endswith(".varbinds") and isinstance(n.target, ast.Name):
                    for sub in ast.walk(n):
                        if not isinstance(sub, ast.If):
                            continue
                        tname = hit_test(sub.test, n.target.id)
                        raises = None
                        if tname is None:
                            # the inverted form:  if <lookup> is None / not <lookup> / <oid> not in T: continue  - the hit is
                            # what follows in the loop body
                            t = vdefs.expand(sub.test, stop=[n.target.id] + list(tables))
                            inv = None
                            if isinstance(t, ast.Compare) and len(t.ops) == 1 and isinstance(t.ops[0], ast.Is) and isinstance(t.comparators[0], ast.Constant) and t.comparators[0].value is None:
                                inv = t.left
                            elif isinstance(t, ast.UnaryOp) and isinstance(t.op, ast.Not):
                                inv = t.operand
                            elif isinstance(t, ast.Compare) and len(t.ops) == 1 and isinstance(t.ops[0], ast.NotIn):
                                inv = ast.Compare(t.left, [ast.In()], t.comparators)
                            tname = hit_test(inv, n.target.id) if inv is not None else None
                            if tname is None or sub not in n.body or sub.orelse or not (sub.body and isinstance(sub.body[-1], ast.Continue)):
                                continue
                            raises = [s for s in n.body[n.body.index(sub) + 1:] if isinstance(s, ast.Raise)]
                        tested = tname
                        if raises is None:
                            raises = [s for s in sub.body if isinstance(s, ast.Raise)]
                        classes = ctx.exc_classes(val, raises[0].exc) if raises else None
                        loop_ok = bool(raises) and classes is not None and all(ctx.r.is_subclass(c, snmp_error) for c in classes)
                        detail = f"raises {[c.name for c in classes] if classes is not None else 'an unresolved class'}" if raises else "the hit does not raise unconditionally"
            # only Report PDUs carry USM error indications: in a GetResponse the usmStats counters are ordinary data
            def not_report_env(expr: ast.expr) -> Optional[bool]:
                expr = vdefs.expand(expr)  # type: ignore[assignment]
                if isinstance(expr, ast.Call) and isinstance(expr.func, ast.Name) and expr.func.id == "isinstance" and len(expr.args) == 2:
                    cls_ = ctx.r.resolve_class(val.module, expr.args[1])
                    if cls_ is not None and cls_.name == "Report":
                        return False
                return None

            nouts = simulate(ctx.cfg(val), not_report_env)
            callers_guard = []
            for caller, ccall in ctx.callers_of(val):
                ccfg = ctx.cfg(caller)
                cn = cfg_node_of(ccfg, ccall)
                conds = ccfg.conditions_to(cn) if cn is not None else []
                callers_guard.append(bool(conds) and all(any("isinstance(" in norm(c) and "Report" in norm(c) and pol for c, pol in path) for path in conds))
            only_reports = (bool(nouts) and all(o.kind != "raise" for o in nouts)) or (bool(callers_guard) and all(callers_guard))
            rep.check(only_reports, "C12-R4", val.site(), "the usmStats OIDs count as error indication only in Report PDUs (an authentic response that carries them as data - a GET or walk below 1.3.6.1.6.3.15.1.1 - is delivered)", "a PDU that is not a Report reaches the raising lookup" if not only_reports else "", key=f"{val.key}|usmstats-in-data")
            table = tables.get(tested, {}) if tested else {}
            for oid, name in sorted(rfc.USM_STATS.items()):
                rep.check(oid in table, "C12-R4", val.site(), f"{name} ({oid}) is recognised as an error report", f"tested table `{tested}`: {sorted(table)}", key=f"{val.key}|usmstats|{oid}")
            rep.check(loop_ok, "C12-R4", val.site(), "every binding of the (report) PDU is looked up and a hit raises SnmpError", detail, key=f"{val.key}|report-raise")
        proc = own_method(ctx, usm, "process_incoming_message")
        pcfg = ctx.cfg(proc)
        vnodes = [cfg_node_of(pcfg, n) for n in own_nodes(proc.node) if isinstance(n, ast.Call) and val in [c for c in ctx.r.callees(proc, n) if isinstance(c, FuncInfo)]]
        vnodes = [n for n in vnodes if n is not None]
        rep.check(bool(vnodes) and pcfg.must_pass(pcfg.entry, [pcfg.exit], vnodes), "C12-R4", proc.site(), "every accepted message passes the report validation", key=f"{proc.key}|report-validation-bypass")

    # ------------------------------------------------------------ R7
    check_disco_provenance(ctx, rep, usm)

    # ------------------------------------------------------------ R5
    from .c07 import check_discovery

    sub = Report(rep.prop, rep.tier)
    check_discovery(ctx, sub)
    rep.adopt(sub, "C12-R5")
    # ... and both ids are the ids on the wire (no clamping / masking in the header encoder or the message decoder)
    rep.adopt_rules(ctx.sub_run("c05", rep), "C12-R5", ["C05-R4"], containing="msgID")
    rep.adopt_rules(ctx.sub_run("c06", rep), "C12-R5", ["C06-R3"], containing="Message.from_sequence")

    # ------------------------------------------------------------ R6
    resync = []
    for fn in ctx.u.functions.values():
        if fn.module.external or not fn.module.name.startswith("puresnmp"):
            continue
        for n in own_nodes(fn.node):
            if isinstance(n, ast.Assign):
                for tgt in n.targets:
                    if isinstance(tgt, ast.Attribute) and tgt.attr == cache and fn != enc and not (fn.name == "__init__"):
                        resync.append(fn.site(n))
            if isinstance(n, ast.Assign) and fn == enc and n is not disco_assign:
                for tgt in n.targets:
                    if isinstance(tgt, ast.Attribute) and tgt.attr == cache:
                        resync.append(fn.site(n))
    rep.check(
        bool(resync),
        "C12-R6",
        enc.site(),
        "some path taken on a notInTimeWindow report (agent reboot / clock jump) refreshes or clears the discovery cache so that the client re-synchronises",
        "the discovery cache is written only by the initial discovery: after an agent reboot (engineBoots changes) every later request is answered notInTimeWindow for the rest of the client's life",
        key=f"{enc.key}|no-resynchronisation",
    )


def _blocks(fnode: ast.AST):
    for n in ast.walk(fnode):
        for fld in ("body", "orelse", "finalbody"):
            blk = getattr(n, fld, None)
            if isinstance(blk, list) and blk and isinstance(blk[0], ast.stmt):
                yield blk
