"""
C13 - UDP sender: bounded retries, exact timeout behaviour, no socket left open.

R1  release on all exits: the per-attempt future has a closed set of completion
    sites; for every completion kind in the property's outcome set (reply, no
    reply, OS/ICMP error, connection lost) the attempt's transport is released
    at the completion site on every path, or on the matching exit of the
    coroutine that awaits the future, or by definition (connection_lost).
R2  bounded retries: executing the retry loop's CFG with a concrete counter
    (retries 1..4) and every timeout/reply pattern: at most ``retries`` endpoints,
    Timeout after exactly ``retries`` unanswered attempts, return at the first reply.
R3  identical request, exact timeout, unmodified reply: value numbers of the
    datagram, the timeout and the returned bytes.
"""
from __future__ import annotations

import ast
from typing import Dict, List, Optional, Tuple

from ..engine.context import Ctx, bind_call_args
from ..engine.exprs import norm
from ..engine.patterns import cfg_node_of, run_int_cfg, simulate, stmt_of, value_number
from ..engine.report import Report
from ..engine.universe import AnalysisError, ClassInfo, FuncInfo, own_nodes


def default_sender(ctx: Ctx) -> FuncInfo:
    init = ctx.client().methods.get("__init__")
    if init is None:
        raise AnalysisError("Client.__init__ vanished")
    args = init.node.args
    names = [a.arg for a in args.args]
    defaults = dict(zip(names[len(names) - len(args.defaults):], args.defaults))
    expr = defaults.get("sender")
    if expr is None:
        raise AnalysisError("Client.__init__ has no default sender")
    got = ctx.r.resolve_expr(init.module, expr)
    if got is None or got.kind != "func":
        raise AnalysisError("default sender does not resolve to a function")
    return got.target


def self_attr_assigned_from(cls: ClassInfo, pred) -> Optional[str]:
    for meth in cls.methods.values():
        for node in own_nodes(meth.node):
            if isinstance(node, ast.Assign) and pred(meth, node.value):
                for tgt in node.targets:
                    if isinstance(tgt, ast.Attribute) and isinstance(tgt.value, ast.Name) and tgt.value.id == "self":
                        return tgt.attr
    return None


def sender_view(ctx: Ctx) -> FuncInfo:
    """The UDP sender with its module-level helper functions spliced in; methods of the protocol classes stay calls."""
    base = default_sender(ctx)
    keep = [m.key for c in ctx.u.classes.values() if c.module is base.module for m in c.methods.values()]
    return ctx.inlined(base, keep=keep)


def is_self_attr(expr: ast.AST, attr: str) -> bool:
    return isinstance(expr, ast.Attribute) and expr.attr == attr and isinstance(expr.value, ast.Name) and expr.value.id == "self"


def is_endpoint_call(ctx: Ctx, fn: FuncInfo, node: ast.AST) -> bool:
    """``<loop>.create_datagram_endpoint(..)``, also through a local alias of the bound method."""
    if not isinstance(node, ast.Call):
        return False
    func = node.func
    if isinstance(func, ast.Name):
        func = ctx.defs(fn).single(func.id) or func
    return isinstance(func, ast.Attribute) and func.attr == "create_datagram_endpoint"


def endpoint_factory(ctx: Ctx, fn: FuncInfo):
    """(protocol class, the constructor call of the factory, the endpoint-creating call) of a sender function."""
    for node in own_nodes(fn.node):
        if not is_endpoint_call(ctx, fn, node) or not node.args:
            continue
        fac = node.args[0]
        if isinstance(fac, ast.Name):
            if fac.id in fn.nested:
                rets = [n for n in own_nodes(fn.nested[fac.id].node) if isinstance(n, ast.Return)]
                fac = ast.Lambda(ast.arguments([], [], None, [], [], None, []), rets[0].value) if len(rets) == 1 and rets[0].value is not None and not fn.nested[fac.id].params else fac
            else:
                fac = ctx.defs(fn).single(fac.id) or fac
        body = None
        if isinstance(fac, ast.Lambda) and not fac.args.args and isinstance(fac.body, ast.Call):
            body = fac.body
        elif isinstance(fac, ast.Lambda) and not fac.args.args and isinstance(fac.body, ast.Name) and isinstance(ctx.defs(fn).single(fac.body.id), ast.Call):
            body = ctx.defs(fn).single(fac.body.id)  # lambda: protocol  - an object built elsewhere in the sender (fresh per attempt or not: C13-R3 / C14-R3)
        elif isinstance(fac, ast.Call) and norm(fac.func).split(".")[-1] == "partial" and fac.args:
            body = ast.Call(fac.args[0], list(fac.args[1:]), list(fac.keywords))
        if body is not None:
            cls = ctx.r.resolve_class(fn.module, body.func)
            if cls is not None:
                return cls, body, node
    return None, None, None


def run(ctx: Ctx, rep: Report) -> None:
    rep.rule("C13-R1", "every completion kind of the per-attempt future releases the attempt's transport", floor=4)
    rep.rule("C13-R2", "retry loop: at most `retries` endpoints; Timeout after exactly `retries` unanswered attempts; return at first reply", floor=7)
    rep.rule("C13-R4", "the retries and timeout the sender works with are the client's current settings, read when the request is sent (shared with C18-R3)", floor=2)
    rep.rule("C13-R3", "identical datagram per attempt, exact timeout, reply bytes returned unmodified, one sendto per endpoint", floor=4)
    rep.assumptions += [
        "precondition retries >= 1 (the property's quantifier)",
        "asyncio closes nothing by itself; close()/abort() on the DatagramTransport release the socket; connection_lost is only called for a transport that is already closed",
        "task cancellation is outside the property's outcome set (reported as information only)",
    ]
    send = sender_view(ctx)  # one attempt may live in a helper (_exchange_once)
    rep.analysed["sender"] = send.key
    rep.analysed["sender_helpers_inlined"] = getattr(send, "inlined_helpers", 0)
    # protocol class: created by the factory given to create_datagram_endpoint
    proto, factory_call, _ep_call = endpoint_factory(ctx, send)
    if proto is None or factory_call is None:
        raise AnalysisError("send_udp: protocol factory of create_datagram_endpoint not recognised")
    fut = self_attr_assigned_from(proto, lambda m, v: isinstance(v, ast.Call) and isinstance(v.func, ast.Attribute) and v.func.attr == "create_future")
    tr_attr = None
    cm = proto.methods.get("connection_made")
    if cm is not None:
        tparam = cm.params[1] if len(cm.params) > 1 else None
        for node in own_nodes(cm.node):
            if isinstance(node, ast.Assign) and isinstance(node.value, ast.Name) and node.value.id == tparam:
                for tgt in node.targets:
                    if isinstance(tgt, ast.Attribute):
                        tr_attr = tgt.attr
    if fut is None or tr_attr is None:
        raise AnalysisError("protocol: future / transport attributes not recognised")

    def releasing_method(meth: FuncInfo, depth: int = 0) -> bool:
        """A wrapper counts as a release when, with a transport present, all of its paths call close()/abort()."""
        if depth > 2:
            return False
        mcfg = ctx.cfg(meth)
        rel = {n.id for n in release_nodes(meth, depth + 1)}
        if not rel:
            return False
        outs = simulate(mcfg, transport_env)
        return bool(outs) and all(any(t.id in rel for t in o.trail) for o in outs)

    def release_nodes(fn: FuncInfo, depth: int = 0):
        cfg = ctx.cfg(fn)
        out = []
        for node in own_nodes(fn.node):
            if not isinstance(node, ast.Call) or not isinstance(node.func, ast.Attribute):
                continue
            recv = node.func.value
            if isinstance(recv, ast.Name) and ctx.defs(fn).single(recv.id) is not None:
                recv = ctx.defs(fn).single(recv.id)  # transport = self.transport; transport.abort()
            direct = node.func.attr in ("close", "abort") and is_self_attr(recv, tr_attr)
            wrapped = False
            if not direct and isinstance(node.func.value, ast.Name) and node.func.value.id == "self" and node.func.attr in proto.methods and proto.methods[node.func.attr] is not fn:
                wrapped = releasing_method(proto.methods[node.func.attr], depth)
            if direct or wrapped:
                n = cfg_node_of(cfg, node)
                if n is not None:
                    out.append(n)
        return out

    extra_views: List[FuncInfo] = []  # inlined views of protocol methods (their spliced locals are aliases too)

    def transport_env(expr: ast.expr) -> Optional[bool]:
        if is_self_attr(expr, tr_attr):
            return True
        if isinstance(expr, ast.Name):
            # a local alias of the transport attribute (in whichever method of the protocol it is defined)
            for m_ in list(proto.methods.values()) + extra_views:
                v_ = ctx.defs(m_).single(expr.id)
                if v_ is not None and is_self_attr(v_, tr_attr):
                    return True
        if isinstance(expr, ast.Compare) and len(expr.ops) == 1 and is_self_attr(expr.left, tr_attr) and isinstance(expr.comparators[0], ast.Constant) and expr.comparators[0].value is None:
            return isinstance(expr.ops[0], (ast.IsNot, ast.NotEq))
        if isinstance(expr, ast.Call) and norm(expr.func).endswith("isEnabledFor"):
            return False
        return None

    def releases_from(fn: FuncInfo, start_node) -> Tuple[bool, str]:
        cfg = ctx.cfg(fn)
        rel = {n.id for n in release_nodes(fn)}
        outs = simulate(cfg, transport_env, start=start_node)
        bad = [o for o in outs if not any(t.id in rel for t in o.trail)]
        return (bool(outs) and not bad), (f"path without close()/abort(): {bad[0].trail}" if bad else "")

    # completion sites
    sites: List[Tuple[FuncInfo, ast.Call, str]] = []
    for meth in proto.methods.values():
        for node in own_nodes(meth.node):
            if isinstance(node, ast.Call) and isinstance(node.func, ast.Attribute) and node.func.attr in ("set_result", "set_exception") and is_self_attr(node.func.value, fut):
                sites.append((meth, node, node.func.attr))
    rep.analysed["completion_sites"] = [f"{m.qualname}:{k}" for m, _, k in sites]
    # the coroutine awaiting the future
    waiter: Optional[FuncInfo] = None
    wait_call = None
    called_by_sender = {n.func.attr for n in own_nodes(send.node) if isinstance(n, ast.Call) and isinstance(n.func, ast.Attribute)}
    cands = []
    for meth0 in proto.methods.values():
        meth = ctx.inlined(meth0)  # the wait may sit in a private helper coroutine of the protocol (_await_response)
        for node in own_nodes(meth.node):
            if isinstance(node, ast.Call) and "ext:asyncio.wait_for" in ctx.r.callee_names(meth, node) and node.args and is_self_attr(node.args[0], fut):
                cands.append((meth, node))
    cands.sort(key=lambda c: c[0].name in called_by_sender)  # the coroutine the sender awaits wins
    if cands:
        waiter, wait_call = cands[-1]
        extra_views.append(waiter)
    if waiter is None or wait_call is None:
        raise AnalysisError("protocol: no coroutine awaits the future through asyncio.wait_for")
    from ..engine.cfg import enclosing_tries

    wtries = [t for t, part in enclosing_tries(wait_call, waiter.node) if part == "body"]
    wcfg = ctx.cfg(waiter)

    def handler_for(exc_expr: ast.expr) -> Optional[ast.ExceptHandler]:
        for tr in wtries:
            for h in tr.handlers:
                if ctx.exc_matches(waiter, exc_expr, h.type):
                    return h
        return None

    def generic_handler() -> Optional[ast.ExceptHandler]:
        for tr in wtries:
            for h in tr.handlers:
                if h.type is None or norm(h.type).split(".")[-1] in ("Exception", "BaseException"):
                    return h
            if tr.finalbody:
                return None
        return None

    def handler_releases(h: ast.ExceptHandler, caught: Optional[ast.expr] = None) -> Tuple[bool, str, List]:
        """Paths through handler *h*; with *caught* the class of the exception being handled decides isinstance tests on it."""
        hn = wcfg.node_of(h)
        rel = {n.id for n in release_nodes(waiter)}

        def env(expr: ast.expr) -> Optional[bool]:
            if caught is not None and h.name and isinstance(expr, ast.Call) and isinstance(expr.func, ast.Name) and expr.func.id == "isinstance" and len(expr.args) == 2:
                if isinstance(expr.args[0], ast.Name) and expr.args[0].id == h.name:
                    return ctx.exc_matches(waiter, caught, ctx.xexpand(waiter, expr.args[1], depth=1))  # a named tuple of exception classes is looked through
            return transport_env(expr)

        outs = simulate(wcfg, env, start=hn)
        bad = [o for o in outs if o.kind != "raise" or not any(t.id in rel for t in o.trail)]
        return (bool(outs) and not bad), (f"{bad[0]}" if bad else ""), outs

    # callbacks (error_received for a synchronous OS error, datagram_received) can run from inside sendto(): the
    # transport must already be stored so that whoever completes the future can release it
    if cm is not None:
        ccfg = ctx.cfg(cm)
        store_nodes = [cfg_node_of(ccfg, n) for n in own_nodes(cm.node) if isinstance(n, ast.Assign) and any(isinstance(t, ast.Attribute) and t.attr == tr_attr for t in n.targets)]
        store_nodes = [n for n in store_nodes if n is not None]
        send_nodes = [cfg_node_of(ccfg, n) for n in own_nodes(cm.node) if isinstance(n, ast.Call) and isinstance(n.func, ast.Attribute) and n.func.attr in ("sendto", "send", "write")]
        send_nodes = [n for n in send_nodes if n is not None]
        ok = bool(store_nodes) and bool(send_nodes) and ccfg.must_pass(ccfg.entry, send_nodes, store_nodes)
        rep.check(ok, "C13-R1", cm.site(), "connection_made stores the transport before it sends the datagram (an OS error reported from inside sendto() must find the transport to release)", key=f"{cm.key}|transport-stored-late")
    have_result = False
    for meth, call, kind in sites:
        site = meth.site(call)
        if kind == "set_result":
            have_result = True
            ok, detail = releases_from(meth, cfg_node_of(ctx.cfg(meth), call))
            if not ok:
                # alternatively the waiter releases on its normal exit (finally)
                pass
            rep.check(ok, "C13-R1", site, "reply: after completing the future with the reply the transport is closed on every path", detail, key=f"{meth.key}|reply-not-released")
        else:
            if meth.name == "connection_lost":
                rep.ok("C13-R1", site, "connection lost: the transport is already closed when asyncio calls connection_lost", "by definition of the callback")
                continue
            ok_site, detail = releases_from(meth, cfg_node_of(ctx.cfg(meth), call))
            gh = generic_handler()
            ok_waiter = False
            d2 = "the coroutine awaiting the future has no handler for arbitrary exceptions"
            if gh is not None:
                ok_waiter, d2, _ = handler_releases(gh)
            rep.check(
                ok_site or ok_waiter,
                "C13-R1",
                site,
                "OS/ICMP error: the transport is released at the completion site or by the awaiting coroutine's handler for that exception (then re-raised)",
                f"at site: {detail or 'released' if ok_site else detail}; in {waiter.qualname}: {d2}",
                key=f"{meth.key}|error-not-released",
            )
    rep.check(have_result, "C13-R1", f"{proto.module.path} ({proto.name})", "a reply completes the future", key=f"{proto.key}|no-set-result")
    # timeout
    timeout_expr = ast.parse("asyncio.TimeoutError", mode="eval").body
    th = handler_for(timeout_expr)
    if th is None:
        rep.violated("C13-R1", waiter.site(wait_call), "no reply: the timeout of wait_for is handled by releasing the transport", "no handler for asyncio.TimeoutError around the await", key=f"{waiter.key}|timeout-unhandled")
    else:
        ok, detail, outs = handler_releases(th, timeout_expr)
        rep.check(ok, "C13-R1", waiter.site(th), "no reply: the timeout handler releases the transport on every path and raises", detail, key=f"{waiter.key}|timeout-not-released")
        tcls = ctx.u.cls("puresnmp.exc:Timeout")
        from ..engine.patterns import raised_class

        okc = bool(outs) and all(raised_class(ctx, waiter, o) == tcls for o in outs if o.kind == "raise")
        rep.check(okc, "C13-R1", waiter.site(th), "no reply: the exception raised is puresnmp.exc.Timeout", key=f"{waiter.key}|timeout-class")
    rep.info("task cancellation (CancelledError) is outside the property's outcome set; it is not required to release the transport")

    # ------------------------------------------------------------ R2
    retries_param = "retries"
    if retries_param not in send.params:
        raise AnalysisError("send_udp has no retries parameter")
    get_data_nodes = []
    scfg = ctx.cfg(send)
    for node in own_nodes(send.node):
        if isinstance(node, ast.Call) and isinstance(node.func, ast.Attribute) and waiter in [c for c in ctx.r.callees(send, node) if isinstance(c, FuncInfo)] or (isinstance(node, ast.Call) and isinstance(node.func, ast.Attribute) and node.func.attr == waiter.name):
            n = cfg_node_of(scfg, node)
            if n is not None and n not in get_data_nodes:
                get_data_nodes.append(n)
    endpoint_nodes = []
    for node in own_nodes(send.node):
        if is_endpoint_call(ctx, send, node):
            n = cfg_node_of(scfg, node)
            if n is not None:
                endpoint_nodes.append(n)
    if len(get_data_nodes) != 1 or len(endpoint_nodes) != 1:
        rep.undecided("C13-R2", send.site(), "retry loop has one endpoint creation and one wait per attempt", f"{len(endpoint_nodes)} / {len(get_data_nodes)}")
    else:
        gnode, enode = get_data_nodes[0], endpoint_nodes[0]
        timeout_cls_expr = ast.Name("Timeout", ast.Load())

        def decide(expr: ast.expr) -> Optional[bool]:
            if isinstance(expr, ast.Compare) and isinstance(expr.ops[0], (ast.Is, ast.IsNot)):
                return isinstance(expr.ops[0], ast.Is)  # `loop is None` -> take the default loop
            return None

        for retries in (tuple(range(1, 13)) if rep.tier == "thorough" else (1, 2, 3, 4)):
            for timeouts in range(0, retries + 1):
                run_ = run_int_cfg(
                    ctx,
                    send,
                    {retries_param: retries},
                    lambda n: "endpoint" if n.id == enode.id else ("wait" if n.id == gnode.id else None),
                    lambda n, k, timeouts=timeouts: timeout_cls_expr if (n.id == gnode.id and k <= timeouts) else None,
                    decide=decide,
                )
                endpoints = sum(1 for e, _ in run_.events if e == "endpoint")
                if timeouts == retries:
                    rcls = ctx.exc_classes(send, run_.raised) if run_.raised is not None else None
                    tcls_ = ctx.u.cls("puresnmp.exc:Timeout")
                    is_timeout = ("Timeout" in run_.end) or bool(rcls and all(ctx.r.is_subclass(c, tcls_) for c in rcls))
                    ok = run_.end.startswith("raise:") and is_timeout and endpoints == retries
                    want = f"raises Timeout after exactly {retries} endpoint(s)"
                else:
                    ok = run_.end == "return" and endpoints == timeouts + 1
                    want = f"returns after {timeouts + 1} endpoint(s)"
                rep.check(ok, "C13-R2", send.site(), f"retries={retries}, first {timeouts} attempt(s) unanswered: {want}", f"run ended '{run_.end}' after {endpoints} endpoint(s)", key=f"{send.key}|retry-loop")

    # ------------------------------------------------------------ R3
    sdefs = ctx.defs(send)
    packet_param, timeout_param = "packet", "timeout"
    init = proto.methods.get("__init__")
    ok = bool(factory_call.args) and value_number(sdefs, factory_call.args[0]) == ("param", packet_param) and len(factory_call.args) == 1
    rep.check(ok, "C13-R3", send.site(factory_call), "every attempt's protocol object is given the caller's datagram unchanged", f"{norm(factory_call)}", key=f"{send.key}|datagram-per-attempt")
    # ... and it is a new object for every attempt: its future is cancelled by the attempt's timeout, so a second
    # attempt on the same object waits on a dead future (and the first attempt's socket is never released)
    from ..engine.universe import ancestors as _anc

    loops_around_ep = [a for a in _anc(_ep_call) if isinstance(a, (ast.While, ast.For))] if _ep_call is not None else []
    synthetic = getattr(factory_call, "_parent", None) is None  # partial(Cls, ..) / a factory function: the constructor runs when the endpoint calls the factory
    built_per_attempt = synthetic or any(isinstance(a, ast.Lambda) or (isinstance(a, (ast.FunctionDef, ast.AsyncFunctionDef)) and a is not send.node) for a in _anc(factory_call)) or not loops_around_ep or any(a in loops_around_ep for a in _anc(factory_call))
    rep.check(built_per_attempt, "C13-R3", send.site(factory_call), "every attempt gets a protocol object (and future) of its own", "the protocol object is constructed once, outside the retry loop, and handed to every endpoint", key=f"{send.key}|protocol-shared-between-attempts")
    pk_attr = None
    if init is not None:
        for node in own_nodes(init.node):
            if isinstance(node, ast.Assign) and isinstance(node.value, ast.Name) and node.value.id == init.params[1]:
                for tgt in node.targets:
                    if isinstance(tgt, ast.Attribute):
                        pk_attr = tgt.attr
    sendtos = []
    for meth in proto.methods.values():
        for node in own_nodes(meth.node):
            if isinstance(node, ast.Call) and isinstance(node.func, ast.Attribute) and node.func.attr == "sendto":
                sendtos.append((meth, node))
    ok = len(sendtos) == 1 and sendtos[0][0].name == "connection_made" and pk_attr is not None and len(sendtos[0][1].args) == 1 and is_self_attr(sendtos[0][1].args[0], pk_attr)
    in_loop = False
    if sendtos:
        from ..engine.universe import ancestors

        in_loop = any(isinstance(a, (ast.For, ast.While)) for a in ancestors(sendtos[0][1]))
    rep.check(ok and not in_loop, "C13-R3", f"{proto.module.path} ({proto.name})", "exactly one sendto per endpoint, in connection_made, of the stored datagram", f"sendto sites: {[(m.qualname, norm(c)) for m, c in sendtos]}", key=f"{proto.key}|sendto")
    # timeout
    gcalls = [n.ast for n in get_data_nodes]
    tm_ok = False
    for node in own_nodes(send.node):
        if isinstance(node, ast.Call) and isinstance(node.func, ast.Attribute) and node.func.attr == waiter.name:
            b = bind_call_args(node, waiter.params)
            arg = b.get(waiter.params[1])
            tm_ok = arg is not None and value_number(sdefs, arg) == ("param", timeout_param)
    rep.check(tm_ok, "C13-R3", send.site(), "each attempt waits for exactly the caller's timeout", key=f"{send.key}|timeout-arg")
    wdefs = ctx.defs(waiter)
    b = bind_call_args(wait_call, ["fut", "timeout"], skip_self=False)
    rep.check(b.get("timeout") is not None and value_number(wdefs, b["timeout"]) == ("param", waiter.params[1]), "C13-R3", waiter.site(wait_call), "wait_for is given the coroutine's timeout parameter unchanged", f"{norm(wait_call)}", key=f"{waiter.key}|wait-for-timeout")
    # reply bytes
    rets = [n for n in own_nodes(waiter.node) if isinstance(n, ast.Return) and n.value is not None]
    okr = bool(rets) and all(isinstance(r.value, ast.Await) and r.value.value is wait_call or (isinstance(r.value, ast.Name) and any(isinstance(v, ast.Await) and v.value is wait_call for v in wdefs.all_values(r.value.id))) for r in rets)
    rep.check(okr, "C13-R3", waiter.site(), "the coroutine returns the future's result unmodified", f"{[norm(r.value) for r in rets]}", key=f"{waiter.key}|reply-modified")
    for meth, call, kind in sites:
        if kind == "set_result":
            dparam = meth.params[1]
            okd = len(call.args) == 1 and value_number(ctx.defs(meth), call.args[0]) == ("param", dparam)
            rep.check(okd, "C13-R3", meth.site(call), "the future is completed with the received datagram unmodified", f"{norm(call)}", key=f"{meth.key}|reply-modified")
    srets = [n for n in own_nodes(send.node) if isinstance(n, ast.Return) and n.value is not None]
    oks = bool(srets)
    for r in srets:
        if not isinstance(r.value, ast.Name):
            oks = False
            continue
        vals = sdefs.all_values(r.value.id)
        if not vals or not all(isinstance(v, ast.Await) and isinstance(v.value, ast.Call) and cfg_node_of(scfg, v.value) in get_data_nodes for v in vals):
            oks = False
    rep.check(oks, "C13-R3", send.site(), "send_udp returns the bytes of the attempt that was answered, unmodified", f"{[norm(r.value) for r in srets]}", key=f"{send.key}|reply-modified")
    rep.adopt_rules(ctx.sub_run("c18", rep), "C13-R4", ["C18-R3"], containing="given to the sender")
