"""
C14 - concurrent operations on a shared client do not disturb one another.

Non-interference by effect analysis over everything reachable from the public
operations:

R1  no per-operation datum in shared state: every store (attribute store, item
    store, mutating method call, global / nonlocal) whose target is owned by the
    client, a message-processing model, a security model, a module or a closure
    cell must be one of the frozen, individually justified instances below, and
    its value must not depend on a parameter of the operation.
R2  no check-then-act across an await on the allowed shared locations (lazy
    construction is test-and-store without an await; the timing cache is
    written and read without an await in between).
R3  one exchange, one socket: every sender call creates its own endpoint,
    protocol object and future; no protocol state lives at class or module level.

If operations share no per-operation mutable state, each operation's result is a
function of its own exchanges only, under every interleaving.
"""
from __future__ import annotations

import ast
from typing import Any, Dict, List, Optional, Set, Tuple

from ..engine.context import Ctx
from ..engine.exprs import Defs, norm
from ..engine.patterns import cfg_node_of
from ..engine.report import Report
from ..engine.universe import AnalysisError, ClassInfo, FuncInfo, Module, Universe, ancestors, own_nodes, set_parents

MUTATORS = {"setdefault", "add", "append", "update", "pop", "extend", "insert", "remove", "clear", "popitem", "discard", "appendleft", "sort", "reverse"}
FRESH_CALLS = {"list", "dict", "set", "bytearray", "OrderedDict", "defaultdict", "deque", "tuple", "sorted"}
IGNORED_FUNCS = {"__init__", "__repr__", "pretty", "__init_subclass__", "__post_init__"}


class Store:
    def __init__(self, fn: FuncInfo, node: ast.AST, root: str, path: str, owner: str, value: Optional[ast.AST]) -> None:
        self.fn, self.node, self.root, self.path, self.owner, self.value = fn, node, root, path, owner, value

    def __repr__(self) -> str:
        return f"{self.fn.qualname}: {norm(self.node)[:70]} [{self.owner}]"


def root_name(expr: ast.AST) -> Optional[str]:
    cur = expr
    while isinstance(cur, (ast.Attribute, ast.Subscript)):
        cur = cur.value
    if isinstance(cur, ast.Name):
        return cur.id
    return None


def classify_owner(ctx: Optional[Ctx], fn: FuncInfo, defs: Defs, name: str, depth: int = 0) -> str:
    """local | self | param | module | closure | alias:self..."""
    if name == "self" or name == "cls":
        return "self"
    declared = [n for n in own_nodes(fn.node) if isinstance(n, (ast.Global, ast.Nonlocal)) and name in n.names]
    if declared:
        return "module" if isinstance(declared[0], ast.Global) else "closure"
    if name in fn.nested:
        return "local"  # a closure / nested function created by this very call
    vals = defs.all_values(name)
    unp = defs.unpack.get(name, [])
    if name in defs.params and not vals:
        fargs = fn.node.args  # type: ignore[attr-defined]
        if (fargs.kwarg is not None and fargs.kwarg.arg == name) or (fargs.vararg is not None and fargs.vararg.arg == name):
            return "local"  # **kwargs / *args are containers created for this very call
        return "param"
    if vals or unp or name in defs.other_defs:
        owners = set()
        for v in vals:
            owners.add(value_owner(ctx, fn, defs, v, depth))
        if name in defs.other_defs and not vals:
            # loop variables / with targets / unpacked names: elements of something
            owners.add("local")
        for v, _, _ in unp:
            owners.add(value_owner(ctx, fn, defs, v, depth))
        if "self" in owners:
            return "self"
        if "module" in owners:
            return "module"
        if owners <= {"local"}:
            return "local"
        return sorted(owners)[0]
    # not defined here: enclosing function local -> closure cell; else module global
    cur = fn.parent
    while cur is not None:
        pdefs = Defs(cur)
        if name in pdefs.params or pdefs.all_values(name) or name in pdefs.other_defs or name in cur.nested:
            return "closure-read"
        cur = cur.parent
    return "module"


def value_owner(ctx: Optional[Ctx], fn: FuncInfo, defs: Defs, v: ast.AST, depth: int) -> str:
    if depth > 5:
        return "local"
    if isinstance(v, ast.Await):
        v = v.value
    if isinstance(v, (ast.List, ast.Dict, ast.Set, ast.ListComp, ast.DictComp, ast.SetComp, ast.Constant, ast.Tuple, ast.JoinedStr, ast.BinOp)):
        return "local"
    if isinstance(v, ast.Call):
        f = v.func
        if isinstance(f, ast.Attribute) and f.attr in ("setdefault", "get") and root_name(f.value) is not None:
            return classify_owner(ctx, fn, defs, root_name(f.value), depth + 1)  # alias of an element of that container
        return "local"  # result of a call: a fresh object unless it is an accessor (handled above)
    if isinstance(v, (ast.Attribute, ast.Subscript)):
        r = root_name(v)
        if r is not None:
            return classify_owner(ctx, fn, defs, r, depth + 1)
    if isinstance(v, ast.Name):
        return classify_owner(ctx, fn, defs, v.id, depth + 1)
    return "local"


def shared_stores(ctx: Optional[Ctx], fn: FuncInfo) -> List[Store]:
    defs = Defs(fn)
    out: List[Store] = []
    for n in own_nodes(fn.node):
        targets: List[Tuple[ast.AST, Optional[ast.AST]]] = []
        if isinstance(n, ast.Assign):
            targets = [(t, n.value) for t in n.targets]
        elif isinstance(n, (ast.AugAssign, ast.AnnAssign)):
            if getattr(n, "value", None) is not None:
                targets = [(n.target, n.value)]
        elif isinstance(n, ast.Delete):
            targets = [(t, None) for t in n.targets]
        for tgt, value in targets:
            for x in ast.walk(tgt):
                if isinstance(x, (ast.Attribute, ast.Subscript)) and isinstance(x.ctx, (ast.Store, ast.Del)):
                    r = root_name(x)
                    if r is None:
                        continue
                    owner = classify_owner(ctx, fn, defs, r)
                    if owner not in ("local",):
                        out.append(Store(fn, n, r, norm(x), owner, value))
                if isinstance(x, ast.Name) and isinstance(x.ctx, ast.Store):
                    # re-binding a plain local never touches shared state, whatever the local aliases; only names
                    # declared global / nonlocal are shared cells
                    decl = [d for d in own_nodes(fn.node) if isinstance(d, (ast.Global, ast.Nonlocal)) and x.id in d.names]
                    if decl:
                        out.append(Store(fn, n, x.id, x.id, "module" if isinstance(decl[0], ast.Global) else "closure", value))
        if isinstance(n, ast.Call) and isinstance(n.func, ast.Attribute) and n.func.attr in MUTATORS:
            r = root_name(n.func.value)
            if r is None:
                continue
            owner = classify_owner(ctx, fn, defs, r)
            if owner not in ("local",):
                out.append(Store(fn, n, r, norm(n.func.value), owner, n.args[-1] if n.args else None))
    return out


POSITIVE_FIXTURE = '''
class Client:
    async def _send(self, pdu, request_id):
        self.last_request_id = request_id
        raw = await self.sender(self.endpoint, bytes(pdu))
        self.pending[request_id] = raw
        return self.mpm.decode(raw, self.last_request_id)
'''


def run(ctx: Ctx, rep: Report) -> None:
    rep.rule("C14-R1", "every store to state shared between operations is a justified, operation-independent instance", floor=10)
    rep.rule("C14-R2", "no check-then-act across an await on shared locations", floor=4)
    rep.rule("C14-R3", "every exchange owns its endpoint, protocol object and future", floor=2)
    rep.rule("C14-R5", "no coroutine function or generator is memoised (lru_cache / cache / cached_property hands the same, already awaited coroutine object to the second concurrent caller)", floor=10)
    rep.rule("C14-R4", "concurrent first use: whatever flags another task has set, a task reads the discovery cache only after it was filled (shared with C12-R1)", floor=2)
    rep.assumptions += [
        "asyncio runs one task at a time between awaits (cooperative scheduling)",
        "repeated engine discovery on concurrent first use is permitted by the property; the discovery data of one agent is interchangeable",
    ]
    # ---- self check of the rule on a positive fixture (zero-expected rule must be able to fire)
    tree = ast.parse(POSITIVE_FIXTURE)
    set_parents(tree)
    fmod = Module("fixture", "<fixture>", POSITIVE_FIXTURE, tree)
    ffn = FuncInfo(fmod, "Client._send", tree.body[0].body[0])
    fixture_hits = shared_stores(None, ffn)
    if len([s for s in fixture_hits if s.owner == "self"]) != 2:
        raise AnalysisError(f"C14 positive fixture: expected 2 shared stores to be flagged, found {fixture_hits}")
    rep.analysed["positive_fixture_flagged"] = len(fixture_hits)

    client = ctx.client()
    x690 = ctx.u.cls("x690.types:X690Type")
    scope = [fn for fn in ctx.u.functions.values() if not fn.module.external and fn.name not in IGNORED_FUNCS and not fn.name.startswith("generate_engine_id")]
    rep.analysed["functions_scanned"] = len(scope)
    stores: List[Store] = []
    for fn in scope:
        stores += shared_stores(ctx, fn)
    mpm_base = ctx.u.cls("puresnmp.plugins.mpm:MessageProcessingModel")
    sm_base = ctx.u.cls("puresnmp.plugins.security:SecurityModel")

    def owner_class(fn: FuncInfo) -> Optional[ClassInfo]:
        cur: Optional[FuncInfo] = fn
        while cur is not None:
            if cur.cls is not None:
                return cur.cls
            cur = cur.parent
        return None

    def mentions_params(fn: FuncInfo, value: Optional[ast.AST]) -> List[str]:
        if value is None:
            return []
        defs = ctx.defs(fn)
        exp = defs.expand(value)
        params = set(fn.params) - {"self", "cls"}
        return sorted({n.id for n in ast.walk(exp) if isinstance(n, ast.Name) and n.id in params})

    for st in sorted(stores, key=lambda s: (s.fn.key, getattr(s.node, "lineno", 0))):
        fn = st.fn
        cls = owner_class(fn)
        site = fn.site(st.node)
        text = f"`{norm(st.node)[:70]}` does not carry per-operation data into shared state"
        key = f"{fn.key}|shared-store|{st.path}"
        deps = mentions_params(fn, st.value)
        reason = None
        if st.owner == "param":
            # mutation of an object handed in by the caller: allowed when the callers hand in their own locals
            reason = param_owner_reason(ctx, fn, st.root)
        elif st.owner == "closure-read":
            reason = "attribute of a closure created by this call (function object naming), not read by operations" if st.path.endswith("__name__") else None
            if reason is None:
                # an object handed to the enclosing (public) function by its caller - a statistics / observer object of
                # the library user - mutated by the closure: the same ownership argument as for a mutated parameter
                enc_fn = fn.parent
                while enc_fn is not None and st.root not in enc_fn.params:
                    enc_fn = enc_fn.parent
                if enc_fn is not None and not Defs(enc_fn).all_values(st.root):
                    reason = param_owner_reason(ctx, enc_fn, st.root)
                    deps = [] if reason else deps
        elif cls is not None and cls == client and fn.name in ("configure", "reconfigure") and st.path in ("self.config", "self.mpm"):
            reason = "explicit (re)configuration API: changes settings for subsequent requests by design (C18), not per-request data"
            deps = []
        elif cls is not None and ctx.r.is_subclass(cls, mpm_base) and st.path == "self.security_model":
            ok_shape = isinstance(st.value, ast.Call) and "puresnmp.plugins.security:create" in ctx.r.callee_names(fn, st.value)
            reason = "lazy construction of the security model from a constant identifier; identical for every operation" if ok_shape else None
        elif cls is not None and ctx.r.is_subclass(cls, mpm_base) and st.path == "self.disco":
            ok_shape = isinstance(st.value, ast.Await) and isinstance(st.value.value, ast.Call) and isinstance(st.value.value.func, ast.Attribute) and st.value.value.func.attr == "send_discovery_message"
            reason = "discovery cache: derived from the agent only; repeated discovery is permitted by the property" if ok_shape else None
        elif cls is not None and ctx.r.is_subclass(cls, mpm_base) and st.path.startswith("self.") and isinstance(st.value, ast.Call) and not st.value.args and any(c.startswith("ext:time.") for c in ctx.r.callee_names(fn, st.value)):
            reason = "a local clock reading (the reference time of the discovery): derived from the clock only, whatever the attribute is called"
        elif cls is not None and st.path.startswith("self.") and st.path.count(".") == 1 and attribute_never_read(ctx, st.path.split(".", 1)[1]):
            reason = "write-only diagnostics: no code of the package ever reads this attribute, so nothing can travel through it from one operation to another"
            deps = []
        elif cls is not None and ctx.r.is_subclass(cls, sm_base) and fn.name == "set_engine_timing":
            reason = "timing cache keyed by engine id; its values are the discovery data handed in by the MPM (C10-R2), idempotent across operations"
            deps = []
        elif cls is not None and st.path.startswith("self.") and not class_instantiated_in_repo(ctx, cls) and cls.name not in ("Client", "PyWrapper"):
            reason = "method of a record class the library never instantiates itself (a statistics / observer object created and owned by the library user, handed in through an optional parameter)"
            deps = []
        elif callers_all_are_timing_setters(ctx, fn, sm_base):
            reason = "timing cache keyed by engine id, written through a helper that only the security model's set_engine_timing calls (C10-R2 decides what is stored and read back)"
            deps = []
        elif cls is not None and cls.name == "Loader" and st.path == "self.discovered_plugins":
            reason = "plug-in table of a Loader object created per factory call (never shared)"
            deps = []
        elif cls is not None and cls.name in ("SNMPClientProtocol", "SNMPTrapReceiverProtocol") and fn.name == "connection_made" and st.path == "self.transport":
            reason = "protocol object owned by one exchange / one listener (C14-R3)"
            deps = []
        if reason is None:
            rep.violated("C14-R1", site, text, f"store to {st.owner}-owned state `{st.path}` in {fn.qualname} is not one of the justified shared locations" + (f"; value depends on parameter(s) {deps}" if deps else ""), key=key)
        elif deps:
            rep.violated("C14-R1", site, text, f"allowed location, but the stored value depends on the operation's parameter(s) {deps}", key=key + "|op-dependent")
        else:
            rep.ok("C14-R1", site, text, reason)
    # memoised helpers
    memo = []
    for fn in scope:
        if any("lru_cache" in norm(d) or norm(d).endswith("cache") for d in fn.node.decorator_list):
            params = set(fn.params)
            free = {n.id for n in own_nodes(fn.node) if isinstance(n, ast.Name) and isinstance(n.ctx, ast.Load)} - params
            impure = [n for n in own_nodes(fn.node) if isinstance(n, ast.Call) and any(c.startswith("ext:time.") or c.startswith("ext:random") for c in ctx.r.callee_names(fn, n))]
            memo.append(fn)
            rep.check(not impure, "C14-R1", fn.site(), f"memoised function {fn.qualname} is pure and keyed by all of its arguments", f"impure calls: {[norm(i) for i in impure]}", key=f"{fn.key}|memo-impure")
    rep.analysed["shared_stores"] = len(stores)

    # ------------------------------------------------------------ R2
    for st in stores:
        fn = st.fn
        cls = owner_class(fn)
        if cls is not None and ctx.r.is_subclass(cls, mpm_base) and st.path == "self.security_model":
            guard = next((a for a in ancestors(st.node) if isinstance(a, ast.If)), None)
            ok = guard is not None and norm(guard.test) in ("self.security_model is None", "not self.security_model") and st.node in guard.body and not any(isinstance(x, ast.Await) for x in ast.walk(guard))
            rep.check(ok, "C14-R2", fn.site(st.node), "lazy construction: test and store happen without an await in between (atomic under asyncio)", key=f"{fn.key}|lazy-init-await")
    from .common import mpm_class, own_method

    enc = own_method(ctx, mpm_class(ctx, 3), "encode")
    cfg = ctx.cfg(enc)
    tcalls = [n for n in own_nodes(enc.node) if isinstance(n, ast.Call) and isinstance(n.func, ast.Attribute) and n.func.attr == "set_engine_timing"]
    gcalls = [n for n in own_nodes(enc.node) if isinstance(n, ast.Call) and isinstance(n.func, ast.Attribute) and n.func.attr == "generate_request_message"]
    ok = None
    if len(tcalls) == 1 and len(gcalls) == 1:
        tn, gn = cfg_node_of(cfg, tcalls[0]), cfg_node_of(cfg, gcalls[0])
        await_nodes = [n for n in cfg.nodes if n.ast is not None and any(isinstance(x, ast.Await) for x in ast.walk(n.ast)) and n.kind != "handler"]
        between = [a for a in await_nodes if tn is not None and gn is not None and a.id in cfg.reachable(tn) and gn.id in cfg.reachable(a) and a.id not in (tn.id,)]
        ok = not between
    rep.check(ok, "C14-R2", enc.site(), "the timing cache is written and read (set_engine_timing ... generate_request_message) without an await in between", key=f"{enc.key}|timing-cache-await")
    from . import c12

    sub = ctx.sub_run("c12", rep)
    rep.adopt_rules(sub, "C14-R4", ["C12-R1"])
    send = ctx.send_method()
    own_writes = [s for s in stores if s.fn == send]
    rep.check(not own_writes, "C14-R2", send.site(), "the sender-calling method keeps request id, PDU and response in locals only", f"{own_writes}", key=f"{send.key}|send-shared-write")

    # ------------------------------------------------------------ R5
    check_no_memoised_coroutines(ctx, rep)

    # ------------------------------------------------------------ R3
    from .c13 import default_sender

    from .c13 import endpoint_factory

    from .c13 import sender_view

    sender = sender_view(ctx)
    proto, _, ep_call = endpoint_factory(ctx, sender)
    inside_loop_or_fn = ep_call is not None  # the factory constructs a new protocol object on every call of the sender
    rep.check(proto is not None and inside_loop_or_fn, "C14-R3", sender.site(), "every call of the UDP sender creates its own endpoint with a freshly constructed protocol object", key=f"{sender.key}|shared-endpoint")
    if proto is not None:
        init = proto.methods.get("__init__")
        fut = init is not None and any(isinstance(n, ast.Assign) and isinstance(n.value, ast.Call) and isinstance(n.value.func, ast.Attribute) and n.value.func.attr == "create_future" for n in own_nodes(init.node))
        rep.check(fut, "C14-R3", init.site() if init else f"{proto.module.path} ({proto.name})", "the future that carries the reply is created per protocol object", key=f"{proto.key}|shared-future")
        mutable_cls = [name for name, v in proto.attrs.items() if isinstance(v, (ast.List, ast.Dict, ast.Set, ast.Call))]
        rep.check(not mutable_cls, "C14-R3", f"{proto.module.path}:{proto.node.lineno} ({proto.name})", "the protocol class has no mutable class-level state", f"{mutable_cls}", key=f"{proto.key}|class-level-state")
        mod_inst = []
        for stmt in proto.module.tree.body:
            if isinstance(stmt, ast.Assign) and isinstance(stmt.value, ast.Call) and ctx.r.resolve_class(proto.module, stmt.value.func) == proto:
                mod_inst.append(norm(stmt))
        rep.check(not mod_inst, "C14-R3", proto.module.path, "no protocol object lives at module level", f"{mod_inst}", key=f"{proto.key}|module-instance")
    # module level mutable globals written by functions were covered by R1 (owner 'module'); list them for the record
    rep.analysed["module_level_writes"] = [repr(s) for s in stores if s.owner == "module"]


MEMOISERS = ("lru_cache", "cache", "cached_property", "alru_cache", "memoize", "memoized")


def memoising_decorators(node: ast.AST) -> List[str]:
    out = []
    for d in getattr(node, "decorator_list", []):
        target = d.func if isinstance(d, ast.Call) else d
        name = ast.unparse(target).split(".")[-1]
        if name in MEMOISERS:
            out.append(ast.unparse(d))
    return out


def check_no_memoised_coroutines(ctx: Ctx, rep: Report) -> None:
    """
    `@lru_cache` on `async def f` caches the coroutine *object* f() returns, not its result: the first caller awaits
    it, every later (or concurrent) caller with the same arguments gets the same object and fails with "cannot reuse
    already awaited coroutine" / "coroutine is being awaited already".  The same holds for generator functions.
    One obligation per coroutine function / generator of the package; the matcher is exercised on a built-in example.
    """
    sample = ast.parse("import functools\n@functools.lru_cache(maxsize=None)\nasync def f(x):\n    return x\n").body[1]
    rep.check(bool(memoising_decorators(sample)), "C14-R5", "(built-in example)", "the matcher recognises `@functools.lru_cache(maxsize=None)` on an `async def`", key="selftest|memoiser-matcher")
    for fn in ctx.u.functions.values():
        if fn.module.external or not fn.module.name.startswith("puresnmp"):
            continue
        is_gen = any(isinstance(n, (ast.Yield, ast.YieldFrom)) for n in own_nodes(fn.node))
        if not (fn.is_async or is_gen):
            memo = memoising_decorators(fn.node)
            if memo:
                # a memoised factory hands the same *object* to every caller: a security model (its timing table), a
                # message-processing model (its discovery cache), any instance with state becomes shared by all clients
                shared = []
                if ctx.r.plugin_namespace(fn) is not None and not ctx.r.factory_returns_module(fn):
                    shared.append("the plug-in instance it creates")
                fdefs = ctx.defs(fn)
                for r_ in [n for n in own_nodes(fn.node) if isinstance(n, ast.Return) and n.value is not None]:
                    val = fdefs.expand(r_.value)
                    if isinstance(val, ast.Call):
                        for callee in ctx.r.callees(fn, val):
                            kls = callee if isinstance(callee, ClassInfo) else None
                            if kls is not None and not kls.module.external and (any(isinstance(n, ast.Assign) and any(isinstance(t, ast.Attribute) and norm(t.value) == "self" for t in n.targets) for m in kls.methods.values() for n in own_nodes(m.node)) or kls.attrs or kls.ann):
                                shared.append(f"an instance of {kls.name}")
                rep.check(not shared, "C14-R5", fn.site(), f"{fn.qualname} is memoised ({memo[0]}): what it returns carries no per-client state", f"every caller gets the same object: {', '.join(shared)}", key=f"{fn.key}|memoised-factory")
            continue
        memo = memoising_decorators(fn.node)
        rep.check(not memo, "C14-R5", fn.site(), f"{fn.qualname} ({'coroutine function' if fn.is_async else 'generator'}) is not memoised", f"decorated with {memo}", key=f"{fn.key}|memoised-coroutine")


def attribute_never_read(ctx: Ctx, attr: str) -> bool:
    """No `<anything>.<attr>` is loaded (and no getattr(.., '<attr>') written) anywhere in the repository's modules."""
    cache = ctx.__dict__.setdefault("_c14_never_read", {})
    if attr not in cache:
        read = False
        for mod in ctx.u.repo_modules():
            for n in ast.walk(mod.tree):
                if isinstance(n, ast.Attribute) and n.attr == attr and isinstance(n.ctx, ast.Load):
                    read = True
                elif isinstance(n, ast.Constant) and n.value == attr:
                    read = True  # getattr / __dict__ access by name: be careful
            if read:
                break
        cache[attr] = not read
    return cache[attr]


def class_instantiated_in_repo(ctx: Ctx, cls: ClassInfo) -> bool:
    """Is there any constructor call of *cls* (or of a subclass) in the repository's own code, plug-in factories included?"""
    cache = ctx.__dict__.setdefault("_c14_instantiated", {})
    if cls.key in cache:
        return cache[cls.key]
    found = False
    for fn in ctx.u.functions.values():
        if fn.module.external:
            continue
        for n in own_nodes(fn.node):
            if isinstance(n, ast.Call):
                k = ctx.r.resolve_class(fn.module, n.func)
                if k is not None and ctx.r.is_subclass(k, cls):
                    found = True
                    break
        if found:
            break
    if not found:
        # module-level constructor calls (defaults, singletons) and classes handed out by plug-in factories
        for mod in ctx.u.repo_modules():
            for n in ast.walk(mod.tree):
                if isinstance(n, ast.Call):
                    k = ctx.r.resolve_class(mod, n.func)
                    if k is not None and ctx.r.is_subclass(k, cls):
                        found = True
                        break
            if found:
                break
    cache[cls.key] = found
    return found


def callers_all_are_timing_setters(ctx: Ctx, fn: FuncInfo, sm_base: ClassInfo, depth: int = 0) -> bool:
    """Every call of *fn* inside the repository comes (through at most two helpers) from a security model's set_engine_timing."""
    if depth > 2:
        return False
    callers = [c for c, _ in ctx.callers_of(fn) if not c.module.external]
    if not callers:
        return False
    for c in callers:
        ccls = c.cls
        if c.name == "set_engine_timing" and ccls is not None and ctx.r.is_subclass(ccls, sm_base):
            continue
        if not callers_all_are_timing_setters(ctx, c, sm_base, depth + 1):
            return False
    return True


def param_owner_reason(ctx: Ctx, fn: FuncInfo, param: str) -> Optional[str]:
    """A mutated parameter is fine when every caller hands in an object it created itself (or the data being processed)."""
    callers = ctx.callers_of(fn)
    if not callers:
        return "no caller inside the repository; the object belongs to the library user"
    idx = fn.params.index(param) - (1 if fn.params and fn.params[0] in ("self", "cls") else 0)
    for caller, call in callers:
        arg = None
        if idx < len(call.args):
            arg = call.args[idx]
        for kw in call.keywords:
            if kw.arg == param:
                arg = kw.value
        if arg is None:
            continue
        r = root_name(arg) if not isinstance(arg, ast.Call) else None
        if r is None:
            continue
        owner = classify_owner(ctx, caller, ctx.defs(caller), r)
        if owner not in ("local", "param"):
            return None
    return "mutates an object owned by the calling operation (a local of the caller)"
