"""
C15 - the pythonic wrapper returns only built-in Python types, equal to the
element-wise pythonisation of the raw results.

R1  builtin-only results: an abstract interpreter over *kinds* evaluates every
    public method of the wrapper.  Raw results get their kind from the return
    annotation of the raw client method that produced them (x690 value, OID,
    VarBind, list / dict / table / bulk result of these); ``.pythonize()``,
    ``str()`` and ``PyVarBind.from_raw`` turn raw leaves into python leaves.  Every
    returned / yielded value must be free of raw leaves - dictionary keys
    included.
R2  shape preserved: conversions iterate the raw container once, unfiltered and
    in order; generators yield one converted item per raw item unconditionally.
R3  pythonize table: the python type wrapped by every SNMP value type is a
    builtin (generic base argument / pythonize() annotation).
"""
from __future__ import annotations

import ast
from typing import Any, Dict, List, Optional, Tuple

from ..engine.context import Ctx
from ..engine.exprs import norm, strip_casts
from ..engine.report import Report
from ..engine.universe import AnalysisError, ClassInfo, FuncInfo, own_nodes

# kinds --------------------------------------------------------------------
PY = ("py",)
STR = ("str",)
RAWVAL = ("rawval",)
RAWOID = ("rawoid",)
RAWVB = ("rawvb",)
UNKNOWN = ("unknown",)
NONE = ("none",)


def LIST(elem):
    return ("list", elem)


def TUPLE(*elems):
    return ("tuple",) + tuple(elems)


def DICT(key, val):
    return ("dict", key, val)


def ITER(elem):
    return ("iter", elem)


ROW = ("row",)  # Dict[str, x690 value] with "0" -> str   (util.tablify)
PYROW = ("pyrow",)
BULK = ("bulk", DICT(RAWOID, RAWVAL), DICT(RAWOID, RAWVAL))


def leaks(kind) -> List[str]:
    """Raw leaves inside a kind, as readable paths."""
    tag = kind[0]
    if tag in ("py", "str", "none", "pyrow"):
        return []
    if tag == "rawval":
        return ["an x690/SNMP value object"]
    if tag == "rawoid":
        return ["a raw ObjectIdentifier"]
    if tag == "rawvb":
        return ["a raw VarBind"]
    if tag == "row":
        return ["a raw table row (x690 cell values)"]
    if tag == "unknown":
        return ["a value of unknown provenance"]
    if tag in ("list", "iter"):
        return [f"list element: {x}" for x in leaks(kind[1])]
    if tag == "tuple":
        out = []
        for i, sub in enumerate(kind[1:]):
            out += [f"tuple[{i}]: {x}" for x in leaks(sub)]
        return out
    if tag == "dict":
        return [f"dictionary key: {x}" for x in leaks(kind[1])] + [f"dictionary value: {x}" for x in leaks(kind[2])]
    if tag == "bulk":
        return [f"BulkResult.scalars {x}" for x in leaks(kind[1])] + [f"BulkResult.listing {x}" for x in leaks(kind[2])]
    return [f"unrecognised kind {kind}"]


def join(a, b):
    if a == b:
        return a
    if a is None:
        return b
    if b is None:
        return a
    if not leaks(a) and not leaks(b):
        return PY
    return a if leaks(a) else b


class KindEval:
    def __init__(self, ctx: Ctx, wrapper: ClassInfo, client: ClassInfo) -> None:
        self.ctx = ctx
        self.wrapper = wrapper
        self.client = client
        self.client_attr = self._client_attr()
        self.method_kinds: Dict[str, Any] = {}
        self.notes: List[str] = []
        self.shape_issues: List[Tuple[FuncInfo, ast.AST, str]] = []

    def _client_attr(self) -> str:
        init = self.wrapper.methods.get("__init__")
        if init is not None:
            for node in own_nodes(init.node):
                if isinstance(node, ast.Assign) and isinstance(node.value, ast.Name) and node.value.id in init.params:
                    for tgt in node.targets:
                        if isinstance(tgt, ast.Attribute):
                            return tgt.attr
        raise AnalysisError("PyWrapper.__init__ does not store the raw client")

    # kinds of raw results, from the raw method's return annotation
    def annotation_kind(self, fn: FuncInfo, ann: Optional[ast.expr]):
        if ann is None:
            return UNKNOWN
        txt = norm(ann)
        mod = fn.module
        if isinstance(ann, ast.Constant) and isinstance(ann.value, str):
            try:
                return self.annotation_kind(fn, ast.parse(ann.value, mode="eval").body)
            except SyntaxError:
                return UNKNOWN
        if isinstance(ann, ast.Subscript):
            head = norm(ann.value).split(".")[-1]
            args = list(ann.slice.elts) if isinstance(ann.slice, ast.Tuple) else [ann.slice]
            if head in ("List", "list", "Sequence", "Iterable"):
                return LIST(self.annotation_kind(fn, args[0]))
            if head in ("Dict", "dict", "Mapping", "OrderedDict"):
                return DICT(self.annotation_kind(fn, args[0]), self.annotation_kind(fn, args[1]))
            if head in ("AsyncGenerator", "AsyncIterator", "Generator", "Iterator"):
                return ITER(self.annotation_kind(fn, args[0]))
            if head in ("Optional",):
                return self.annotation_kind(fn, args[0])
            cls = self.ctx.r.resolve_class(mod, ann.value)
            if cls is not None and cls.key == "x690.types:X690Type":
                return RAWVAL
            return UNKNOWN
        if isinstance(ann, (ast.Name, ast.Attribute)):
            cls = self.ctx.r.resolve_class(mod, ann)
            if cls is not None:
                x690 = self.ctx.u.cls("x690.types:X690Type")
                if cls.name == "ObjectIdentifier":
                    return RAWOID
                if self.ctx.r.is_subclass(cls, x690):
                    return RAWVAL
                if cls.key == "puresnmp.varbind:VarBind":
                    return RAWVB
                if cls.key == "puresnmp.varbind:PyVarBind":
                    return PY
                if cls.key == self.ctx.u.canonical("puresnmp.util:BulkResult"):
                    return BULK
            got = self.ctx.r.resolve_expr(mod, ann)
            if got is not None and got.kind == "value" and got.module is not None:
                # alias (TWalkResponse) or TypeVar (TTableRow, T)
                if isinstance(got.target, ast.Call) and norm(got.target.func).endswith("TypeVar"):
                    name = norm(ann)
                    if "Row" in name:
                        return ROW
                    return RAWVAL  # T bound to x690 Type: a value handed in by the caller
                pseudo = FuncInfo(got.module, "<alias>", fn.node)
                return self.annotation_kind(pseudo, got.target)
            if txt in ("str",):
                return STR
            if txt in ("int", "bytes", "float", "bool", "None", "Any"):
                return PY if txt != "Any" else UNKNOWN
        return UNKNOWN

    def raw_method_kind(self, name: str):
        meth = self.ctx.r.method(self.client, name)
        if meth is None:
            return UNKNOWN
        ann = getattr(meth.node, "returns", None)
        kind = self.annotation_kind(meth, ann)
        return kind

    # ------------------------------------------------------------ methods
    def method_kind(self, meth: FuncInfo):
        if meth.key in self.method_kinds:
            return self.method_kinds[meth.key]
        self.method_kinds[meth.key] = PY  # recursion: assume pythonic
        results = self.run_body(meth)
        kind = None
        for k, _ in results:
            kind = join(kind, k)
        self.method_kinds[meth.key] = kind if kind is not None else NONE
        return self.method_kinds[meth.key]

    def run_body(self, meth: FuncInfo) -> List[Tuple[Any, ast.AST]]:
        env: Dict[str, Any] = {}
        for name in meth.params[1:]:
            ann = self.ctx.r._param_annotation(meth, name)  # pylint: disable=protected-access
            txt = norm(ann) if ann is not None else ""
            if txt == "str":
                env[name] = STR
            elif txt.startswith("List[str]"):
                env[name] = LIST(STR)
            elif txt.startswith("Dict[str"):
                env[name] = DICT(STR, RAWVAL)
            elif "X690Type" in txt:
                env[name] = RAWVAL
            else:
                env[name] = PY
        results: List[Tuple[Any, ast.AST]] = []
        self.exec_block(meth, meth.node.body, env, results)
        return results

    def exec_block(self, meth: FuncInfo, stmts: List[ast.stmt], env: Dict[str, Any], results: List[Tuple[Any, ast.AST]]) -> None:
        for stmt in stmts:
            if isinstance(stmt, ast.Assign):
                kind = self.kind(meth, stmt.value, env)
                for tgt in stmt.targets:
                    self.bind(tgt, kind, env)
            elif isinstance(stmt, ast.AnnAssign):
                if stmt.value is not None:
                    self.bind(stmt.target, self.kind(meth, stmt.value, env), env)
            elif isinstance(stmt, ast.Return):
                if stmt.value is not None:
                    results.append((self.kind(meth, stmt.value, env), stmt))
            elif isinstance(stmt, ast.Expr):
                val = stmt.value
                if isinstance(val, (ast.Yield,)) and val.value is not None:
                    results.append((self.kind(meth, val.value, env), stmt))
                elif isinstance(val, ast.Call) and isinstance(val.func, ast.Attribute) and isinstance(val.func.value, ast.Name):
                    recv = val.func.value.id
                    if val.func.attr == "append" and val.args:
                        cur = env.get(recv)
                        elem = self.kind(meth, val.args[0], env)
                        prev = cur[1] if cur and cur[0] == "list" else None
                        env[recv] = LIST(join(prev, elem))
                    elif val.func.attr in ("update", "extend") and val.args:
                        env[recv] = join(env.get(recv), self.kind(meth, val.args[0], env))
            elif isinstance(stmt, (ast.For, ast.AsyncFor)):
                it = self.kind(meth, stmt.iter, env)
                elem = it[1] if it[0] in ("list", "iter") else (TUPLE(it[1], it[2]) if it[0] == "dict" else (UNKNOWN if leaks(it) else PY))  # a clean value iterated (a wrapper generator's items) stays clean
                if it[0] == "dict":
                    elem = it[1]
                if it[0] == "row":
                    elem = STR  # iterating a table row yields its column keys
                self.bind(stmt.target, elem, env)
                # shape: a loop over a raw container must convert unconditionally
                loops = self.__dict__.setdefault("_loops", [])
                loops.append(({n.id for n in ast.walk(stmt.target) if isinstance(n, ast.Name)}, {n.id for n in ast.walk(stmt.iter) if isinstance(n, ast.Name)}))
                self.exec_block(meth, stmt.body, env, results)
                self.exec_block(meth, stmt.body, env, results)  # second pass: joins of appended kinds
                loops.pop()
                if leaks(it):
                    for node in stmt.body:
                        if isinstance(node, (ast.If, ast.Break, ast.Continue)):
                            self.shape_issues.append((meth, node, "conditional processing inside the loop over the raw result (items may be dropped)"))
            elif isinstance(stmt, ast.If):
                self.exec_block(meth, stmt.body, env, results)
                self.exec_block(meth, stmt.orelse, env, results)
            elif isinstance(stmt, (ast.With, ast.AsyncWith, ast.Try)):
                for fld in ("body", "orelse", "finalbody"):
                    self.exec_block(meth, getattr(stmt, fld, []) or [], env, results)
                for h in getattr(stmt, "handlers", []) or []:
                    self.exec_block(meth, h.body, env, results)
            elif isinstance(stmt, ast.Subscript):
                pass
            if isinstance(stmt, ast.Assign) and len(stmt.targets) == 1 and isinstance(stmt.targets[0], ast.Subscript):
                tgt = stmt.targets[0]
                if isinstance(tgt.value, ast.Name):
                    recv = tgt.value.id
                    cur = env.get(recv)
                    k = self.kind(meth, tgt.slice, env)
                    v = self.kind(meth, stmt.value, env)
                    if cur and cur[0] == "dict":
                        env[recv] = DICT(join(cur[1], k), join(cur[2], v))
                    elif cur == PYROW or cur == PY:
                        if leaks(k) or leaks(v):
                            env[recv] = DICT(k, v)
                    elif cur is not None and leaks(cur) and not self._key_of(tgt.slice, recv):
                        pass  # one key of a raw row re-bound: the other cells stay raw (only a loop over the row's own keys converts it)
                    else:
                        env[recv] = DICT(k, v)
            if isinstance(stmt, ast.Assign) and len(stmt.targets) == 1 and isinstance(stmt.targets[0], ast.Name):
                src = strip_casts(stmt.value)
                if isinstance(src, ast.Call) and ((isinstance(src.func, ast.Name) and src.func.id in ("dict", "OrderedDict") and len(src.args) == 1 and isinstance(src.args[0], ast.Name)) or (isinstance(src.func, ast.Attribute) and src.func.attr == "copy" and isinstance(src.func.value, ast.Name))):
                    origin = src.args[0].id if isinstance(src.func, ast.Name) else src.func.value.id
                    self.__dict__.setdefault("_copy_of", {})[stmt.targets[0].id] = origin

    def _key_of(self, key: ast.AST, recv: str) -> bool:
        """Is *key* the variable of an enclosing loop over the container *recv* itself (or the one it was copied from)?"""
        if not isinstance(key, ast.Name):
            return False
        sources = {recv, self.__dict__.get("_copy_of", {}).get(recv, recv)}
        return any(key.id in targets and (iter_names & sources) for targets, iter_names in self.__dict__.get("_loops", []))

    def bind(self, tgt: ast.AST, kind, env: Dict[str, Any]) -> None:
        if isinstance(tgt, ast.Name):
            env[tgt.id] = kind
        elif isinstance(tgt, (ast.Tuple, ast.List)):
            for idx, elt in enumerate(tgt.elts):
                if kind[0] == "tuple" and idx + 1 < len(kind):
                    self.bind(elt, kind[idx + 1], env)
                elif kind[0] == "rawvb":
                    self.bind(elt, RAWOID if idx == 0 else RAWVAL, env)
                else:
                    self.bind(elt, UNKNOWN if leaks(kind) else PY, env)

    def kind(self, meth: FuncInfo, expr: ast.AST, env: Dict[str, Any]):
        expr = strip_casts(expr)
        if isinstance(expr, ast.Constant):
            if isinstance(expr.value, str):
                return STR
            return PY if expr.value is not None else NONE
        if isinstance(expr, ast.Name):
            return env.get(expr.id, UNKNOWN)
        if isinstance(expr, ast.Await):
            return self.kind(meth, expr.value, env)
        if isinstance(expr, (ast.List, ast.Set)):
            kind = None
            for elt in expr.elts:
                kind = join(kind, self.kind(meth, elt, env))
            return LIST(kind if kind is not None else PY)
        if isinstance(expr, ast.Tuple):
            return TUPLE(*[self.kind(meth, e, env) for e in expr.elts])
        if isinstance(expr, ast.Dict):
            k = v = None
            for key, val in zip(expr.keys, expr.values):
                k = join(k, self.kind(meth, key, env)) if key is not None else k
                v = join(v, self.kind(meth, val, env))
            return DICT(k or STR, v or PY)
        if isinstance(expr, (ast.ListComp, ast.GeneratorExp, ast.SetComp, ast.DictComp)):
            inner = dict(env)
            for gen in expr.generators:
                it = self.kind(meth, gen.iter, inner)
                if it[0] in ("list", "iter"):
                    elem = it[1]
                elif it[0] == "dict":
                    elem = it[1]
                elif it[0] == "row":
                    elem = STR
                else:
                    elem = UNKNOWN if leaks(it) else PY
                self.bind(gen.target, elem, inner)
                if gen.ifs and leaks(it) and not self._only_skips_index(gen):
                    self.shape_issues.append((meth, expr, "comprehension over the raw result filters items"))
            if isinstance(expr, ast.DictComp):
                return DICT(self.kind(meth, expr.key, inner), self.kind(meth, expr.value, inner))
            return LIST(self.kind(meth, expr.elt, inner))
        if isinstance(expr, ast.Subscript):
            base = self.kind(meth, expr.value, env)
            if base[0] == "dict":
                return base[2]
            if base[0] in ("list", "iter"):
                return base[1] if not isinstance(expr.slice, ast.Slice) else base
            if base[0] == "tuple" and isinstance(expr.slice, ast.Constant) and isinstance(expr.slice.value, int) and expr.slice.value + 1 < len(base):
                return base[expr.slice.value + 1]
            if base[0] == "rawvb":
                return RAWVAL
            if base[0] == "row":
                # util.tablify stores the row index (a str) under "0"; every other cell is an x690 value (C16-R2)
                return STR if isinstance(expr.slice, ast.Constant) and expr.slice.value == "0" else RAWVAL
            if base == PYROW or base == PY:
                return PY
            return UNKNOWN if leaks(base) else PY
        if isinstance(expr, ast.Attribute):
            base = self.kind(meth, expr.value, env)
            if base[0] == "bulk":
                if expr.attr == "scalars":
                    return base[1]
                if expr.attr == "listing":
                    return base[2]
            if base[0] == "rawvb":
                return RAWOID if expr.attr == "oid" else RAWVAL
            if isinstance(expr.value, ast.Name) and expr.value.id == "self":
                return UNKNOWN
            return UNKNOWN if leaks(base) else PY
        if isinstance(expr, ast.Call):
            return self.call_kind(meth, expr, env)
        if isinstance(expr, ast.BinOp) or isinstance(expr, ast.JoinedStr):
            return PY
        if isinstance(expr, ast.IfExp):
            return join(self.kind(meth, expr.body, env), self.kind(meth, expr.orelse, env))
        return UNKNOWN

    @staticmethod
    def _only_skips_index(gen: ast.comprehension) -> bool:
        """The only filter is `<key> != "0"`: the row-index entry, which is carried over separately (C16-R5)."""
        if len(gen.ifs) != 1:
            return False
        test = gen.ifs[0]
        if isinstance(test, ast.Compare) and len(test.ops) == 1 and isinstance(test.ops[0], ast.NotEq):
            sides = [test.left, test.comparators[0]]
            consts = [x for x in sides if isinstance(x, ast.Constant) and x.value == "0"]
            names = [x for x in sides if isinstance(x, ast.Name)]
            tgt_names = {n.id for n in ast.walk(gen.target) if isinstance(n, ast.Name)}
            return len(consts) == 1 and len(names) == 1 and names[0].id in tgt_names
        return False

    def helper_kind(self, helper: FuncInfo, arg_kinds: Dict[str, Any]):
        """Kind returned by a module-level helper of the wrapper's module for the given argument kinds."""
        key = (helper.key, tuple(sorted((k, repr(v)) for k, v in arg_kinds.items())))
        if key in self.method_kinds:
            return self.method_kinds[key]
        self.method_kinds[key] = UNKNOWN  # recursion guard
        env: Dict[str, Any] = dict(arg_kinds)
        results: List[Tuple[Any, ast.AST]] = []
        self.exec_block(helper, helper.node.body, env, results)
        kind = None
        for k, _ in results:
            kind = join(kind, k)
        self.method_kinds[key] = kind if kind is not None else NONE
        return self.method_kinds[key]

    def call_kind(self, meth: FuncInfo, call: ast.Call, env: Dict[str, Any]):
        func = call.func
        if isinstance(func, ast.Name):
            if func.id == "str":
                return STR
            if func.id in ("int", "bytes", "float", "bool", "len", "repr"):
                return PY
            if func.id in ("list", "tuple", "sorted", "reversed") and call.args:
                inner = self.kind(meth, call.args[0], env)
                if func.id in ("sorted", "reversed") and leaks(inner):
                    self.shape_issues.append((meth, call, f"{func.id}() reorders the raw result"))
                return LIST(inner[1]) if inner[0] in ("list", "iter") else inner
            if func.id == "map" and len(call.args) == 2 and not call.keywords:
                # map(f, xs) is (f(x) for x in xs)
                var = ast.Name(id="__map_item", ctx=ast.Load())
                gen = ast.GeneratorExp(
                    elt=ast.Call(func=call.args[0], args=[var], keywords=[]),
                    generators=[ast.comprehension(target=ast.Name(id="__map_item", ctx=ast.Store()), iter=call.args[1], ifs=[], is_async=0)],
                )
                ast.copy_location(gen, call)
                ast.fix_missing_locations(gen)
                return self.kind(meth, gen, env)
            if func.id == "zip" and call.args:
                elems = []
                roots = set()
                leaking = False
                for a in call.args:
                    k = self.kind(meth, a, env)
                    leaking = leaking or bool(leaks(k))
                    names = [n.id for n in ast.walk(a) if isinstance(n, ast.Name)]
                    roots.add(names[0] if names else norm(a))
                if leaking and len(roots) > 1:
                    # pairing parts of the raw result with another sequence by position replaces the association the
                    # agent sent (keys of the request with values of the response, ...)
                    self.shape_issues.append((meth, call, "zip() pairs the raw result with another sequence by position"))
                for a in call.args:
                    k = self.kind(meth, a, env)
                    elems.append(k[1] if k[0] in ("list", "iter") else (k[1] if k[0] == "dict" else (UNKNOWN if leaks(k) else PY)))
                return ITER(TUPLE(*elems))
            if func.id == "enumerate" and call.args:
                k = self.kind(meth, call.args[0], env)
                return ITER(TUPLE(PY, k[1] if k[0] in ("list", "iter") else (UNKNOWN if leaks(k) else PY)))
            if func.id in ("dict", "OrderedDict") :
                if not call.args:
                    return DICT(STR, PY)
                inner = self.kind(meth, call.args[0], env)
                if inner[0] in ("list", "iter") and inner[1][0] == "tuple" and len(inner[1]) == 3:
                    return DICT(inner[1][1], inner[1][2])
                if inner[0] == "dict":
                    return inner
                return UNKNOWN
            cls = self.ctx.r.resolve_class(meth.module, func)
            if cls is not None:
                if cls.name == "ObjectIdentifier":
                    return RAWOID
                if cls.key == self.ctx.u.canonical("puresnmp.util:BulkResult") and len(call.args) == 2:
                    return ("bulk", self.kind(meth, call.args[0], env), self.kind(meth, call.args[1], env))
                if cls.key == "puresnmp.varbind:PyVarBind":
                    kinds = [self.kind(meth, a, env) for a in call.args]
                    return PY if not any(leaks(k) for k in kinds) else TUPLE(*kinds)
            # a helper function of the repository: evaluate its body for these argument kinds
            for callee in self.ctx.r.callees(meth, call):
                if isinstance(callee, FuncInfo) and not callee.module.external and callee.cls is None:
                    from ..engine.context import bind_call_args

                    bound = bind_call_args(call, callee.params, skip_self=False)
                    return self.helper_kind(callee, {p: self.kind(meth, a, env) for p, a in bound.items()})
            return UNKNOWN
        if isinstance(func, ast.Attribute):
            # self.client.<raw method>(...)
            if isinstance(func.value, ast.Attribute) and func.value.attr == self.client_attr and isinstance(func.value.value, ast.Name) and func.value.value.id == "self":
                return self.raw_method_kind(func.attr)
            # self.<wrapper method>(...)
            if isinstance(func.value, ast.Name) and func.value.id == "self":
                other = self.ctx.r.method(self.wrapper, func.attr)
                if other is not None:
                    return self.method_kind(other)
                return UNKNOWN
            recv = self.kind(meth, func.value, env)
            if func.attr == "pythonize":
                if recv[0] in ("rawval", "rawoid"):
                    return PY
                return UNKNOWN
            if func.attr == "from_raw":
                cls = self.ctx.r.resolve_class(meth.module, func.value)
                if cls is not None and cls.key == "puresnmp.varbind:PyVarBind" and call.args:
                    arg = self.kind(meth, call.args[0], env)
                    return PY if arg[0] == "rawvb" else UNKNOWN
            if func.attr == "items":
                if recv[0] == "dict":
                    return ITER(TUPLE(recv[1], recv[2]))
                if recv[0] == "row":
                    return ITER(TUPLE(STR, RAWVAL))
                if recv == PYROW:
                    return ITER(TUPLE(STR, PY))
            if func.attr == "values":
                if recv[0] == "dict":
                    return ITER(recv[2])
                if recv[0] == "row":
                    return ITER(RAWVAL)
            if func.attr == "keys":
                if recv[0] == "dict":
                    return ITER(recv[1])
                if recv[0] == "row":
                    return ITER(STR)
            if func.attr == "pop" and recv[0] == "row":
                # the row index stored under "0" is a str (util.tablify, see C16-R2)
                if call.args and isinstance(call.args[0], ast.Constant) and call.args[0].value == "0":
                    return STR
                return RAWVAL
            if func.attr in ("lstrip", "rstrip", "strip", "encode", "decode", "format", "join", "split") and not leaks(recv):
                return PY
            if func.attr in ("get", "pop", "setdefault") and recv[0] == "dict":
                # the fallback given by the caller is a possible result too
                out = recv[2]
                for extra in call.args[1:]:
                    out = join(out, self.kind(meth, extra, env))
                return out
        return UNKNOWN


BUILTIN_WRAPPED = {"int", "bytes", "str", "None", "bool", "float", "IPv4Address", "timedelta", "datetime", "Optional[timedelta]"}


def run(ctx: Ctx, rep: Report) -> None:
    rep.rule("C15-R1", "every value returned or yielded by a public wrapper method is free of raw (x690 / ObjectIdentifier / VarBind) leaves, keys included", floor=8)
    rep.rule("C15-R2", "conversions iterate the raw result once, unfiltered and in order", floor=6)
    rep.rule("C15-R3", "every SNMP value type wraps a builtin python type", floor=7)
    rep.rule("C15-R5", "values are sliced out of immutable bytes: no bytearray / memoryview is handed to the x690 decoder (lazily decoded OCTET STRINGs would come out as bytearray)", floor=3)
    rep.rule("C15-R7", "pythonize() is total and exact for every SNMP value type, the zero values included (shared with C17-R2)", floor=2)
    rep.rule("C15-R6", "what a wrapper method returns or yields is computed from what the raw client handed back (not from the request, a constant or a stale local)", floor=5)
    rep.rule("C15-R4", "the wrapper hands its arguments to the raw client one-to-one: OIDs converted element by element (complete, in order), same-named options forwarded unchanged", floor=5)
    rep.assumptions += ["BulkResult (a plain dataclass of two dicts) is the documented container of bulkget and is accepted as such; its fields must be builtin"]
    wrapper = ctx.wrapper()
    client = ctx.client()
    ev = KindEval(ctx, wrapper, client)
    public = [m for name, m in sorted(wrapper.methods.items()) if not name.startswith("_")]
    rep.analysed["wrapper_methods"] = [m.name for m in public]
    for meth in public:
        results = ev.run_body(meth)
        site = meth.site()
        if not results:
            rep.undecided("C15-R1", site, f"{meth.name}: returns or yields something", "no return / yield found")
            continue
        for kind, stmt in results:
            found = leaks(kind)
            rep.check(
                not found,
                "C15-R1",
                meth.site(stmt),
                f"{meth.name}: `{norm(stmt)[:70]}` consists of builtin types only",
                "; ".join(sorted(set(found))),
                key=f"{meth.key}|raw-leak|{'/'.join(sorted(set(found)))[:80]}",
            )
        issues = [(n, msg) for m, n, msg in ev.shape_issues if m == meth]
        rep.check(not issues, "C15-R2", site, f"{meth.name}: the raw result is converted item by item, unfiltered and in order", "; ".join(f"line {getattr(n, 'lineno', '?')}: {msg}" for n, msg in issues), key=f"{meth.key}|shape")
    check_forwarding(ctx, rep, wrapper, client, ev.client_attr)
    check_result_provenance(ctx, rep, wrapper, ev.client_attr)
    check_no_carried_values(ctx, rep, wrapper)
    # the conversion itself: pythonize() of every SNMP value type is total and exact (TimeTicks(0) is timedelta(0), not None)
    rep.adopt_rules(ctx.sub_run("c17", rep), "C15-R7", ["C17-R2"])
    # R5: buffers given to the decoder
    checked = 0
    for fn in ctx.u.functions.values():
        if fn.module.external:
            continue
        fdefs = ctx.defs(fn)
        for node in own_nodes(fn.node):
            if not (isinstance(node, ast.Call) and node.args and ctx.r.call_resolves_to(fn, node, "x690.types:decode")):
                continue
            checked += 1
            arg = strip_casts(node.args[0])
            sources = fdefs.all_values(arg.id) if isinstance(arg, ast.Name) else [arg]
            mutable = [v for v in sources if isinstance(strip_casts(v), ast.Call) and norm(strip_casts(v).func).split(".")[-1] in ("bytearray", "memoryview")]
            rep.check(not mutable, "C15-R5", fn.site(node), f"{fn.qualname}: the buffer decoded is the received bytes object (or bytes derived from it)", f"`{norm(arg)}` may be {[norm(v)[:40] for v in mutable]}", key=f"{fn.key}|mutable-decode-buffer")
    rep.analysed["decode_calls_checked"] = checked
    # from_raw
    pyvb = ctx.u.cls("puresnmp.varbind:PyVarBind")
    fr = pyvb.methods.get("from_raw")
    if fr is None:
        rep.undecided("C15-R1", f"{pyvb.module.path} (PyVarBind)", "PyVarBind.from_raw exists", "missing")
    else:
        rets = [n for n in own_nodes(fr.node) if isinstance(n, ast.Return) and n.value is not None]
        ok = len(rets) == 1 and isinstance(rets[0].value, ast.Call) and [norm(a) for a in rets[0].value.args] == [f"{fr.params[0]}.oid.pythonize()", f"{fr.params[0]}.value.pythonize()"]
        rep.check(ok, "C15-R1", fr.site(), "PyVarBind.from_raw pythonises both the OID and the value of the raw binding, in that order", f"{[norm(r.value) for r in rets]}", key=f"{fr.key}|from-raw")

    # ------------------------------------------------------------ R3
    x690 = ctx.u.cls("x690.types:X690Type")
    classes = [c for c in ctx.u.classes.values() if c.module.name in ("puresnmp.types", "puresnmp.pdu") and ctx.r.is_subclass(c, x690) and not ctx.r.is_subclass(c, ctx.u.cls("puresnmp.pdu:PDU"))]
    classes += [ctx.u.cls(f"x690.types:{n}") for n in ("Integer", "OctetString", "Null", "ObjectIdentifier")]
    for cls in sorted(classes, key=lambda c: c.key):
        site = f"{cls.module.path}:{cls.node.lineno} ({cls.name})"
        wrapped = None
        pz = ctx.r.method(cls, "pythonize")
        if pz is not None and pz.cls is not None and pz.cls.key != "x690.types:X690Type" and getattr(pz.node, "returns", None) is not None:
            wrapped = norm(pz.node.returns)
        else:
            for klass in ctx.r.mro(cls):
                for base in klass.node.bases:
                    if isinstance(base, ast.Subscript) and ctx.r.resolve_class(klass.module, base.value) == x690:
                        wrapped = norm(base.slice)
                        break
                if wrapped:
                    break
        ok = wrapped is not None and wrapped.split(".")[-1] in BUILTIN_WRAPPED
        rep.check(ok, "C15-R3", site, f"{cls.name} pythonises to a builtin type", f"wrapped python type: {wrapped}", key=f"{cls.key}|wrapped-type")


RAW_TYPE_MARKERS = ("ObjectIdentifier", "X690Type", "x690.types", "puresnmp.varbind.VarBind", "puresnmp.types", "puresnmp.pdu")


def thorough(ctx: Ctx, rep: Report) -> None:
    """Cross-check of R1 with the types mypy infers for every returned / yielded expression (repository's own mypy)."""
    import json
    import os
    import subprocess

    rep.rule("C15-T1", "mypy's inferred type of every returned / yielded expression of the wrapper mentions no raw SNMP type", floor=1)
    tool = os.path.join(os.path.dirname(os.path.dirname(os.path.abspath(__file__))), "tools", "mypy_types.py")
    try:
        res = subprocess.run(["/venv/bin/python", tool, ctx.u.repo], capture_output=True, text=True, timeout=180)
        data = json.loads(res.stdout.strip().splitlines()[-1]) if res.stdout.strip() else {"error": res.stderr[-200:]}
    except Exception as exc:  # pylint: disable=broad-except
        data = {"error": f"{type(exc).__name__}: {exc}"}
    if "error" in data:
        rep.info(f"mypy cross-check skipped: {data['error']}")
        rep.ok("C15-T1", "puresnmp/api/pythonic.py", "mypy cross-check", f"skipped: {data['error']}")
        return
    rep.trusted.append("mypy (repository's own environment), used as a library for inferred expression types")
    rep.analysed["mypy_expressions"] = len(data["types"])
    for item in data["types"]:
        typ = item["type"]
        raw = [m for m in RAW_TYPE_MARKERS if m in typ and "PyVarBind" not in typ.replace("puresnmp.varbind.PyVarBind", "")]
        # a BulkResult container is accepted; its arguments are listed separately as return-arg<i>
        ok = not raw
        rep.check(ok, "C15-T1", f"puresnmp/api/pythonic.py:{item['line']} (PyWrapper.{item['method']})", f"{item['kind']} of {item['method']}: inferred type `{typ}` is builtin-only", f"mentions {raw}", key=f"PyWrapper.{item['method']}|mypy-type|{item['kind']}")


def check_result_provenance(ctx: Ctx, rep: Report, wrapper: ClassInfo, client_attr: str) -> None:
    """
    Data-flow from the raw result to the wrapper's result: every `return <value>` / `yield <value>` of a public
    wrapper method that talks to the raw client (or to another wrapper method) mentions the awaited raw result, a
    local derived from it, or the loop variable of an iteration over it.  A result rebuilt from the *request*
    (PyWrapper.multiset echoing the values it was given) has clean types and the right shape but is not what the
    agent answered.
    """
    from ..engine.patterns import derived_names, mentions

    def is_source(n: ast.AST) -> bool:
        if not (isinstance(n, ast.Call) and isinstance(n.func, ast.Attribute)):
            return False
        recv = n.func.value
        if isinstance(recv, ast.Attribute) and recv.attr == client_attr and isinstance(recv.value, ast.Name) and recv.value.id == "self":
            return True  # self.client.<operation>(...)
        return isinstance(recv, ast.Name) and recv.id == "self" and n.func.attr in wrapper.methods and not n.func.attr.startswith("_")  # another public wrapper method

    for name, meth0 in sorted(wrapper.methods.items()):
        if name.startswith("_"):
            continue
        meth = ctx.inlined(meth0)
        sources = [n for n in own_nodes(meth.node) if is_source(n)]
        if not sources:
            continue
        defs = ctx.defs(meth)
        roots = set()
        for n in own_nodes(meth.node):
            if isinstance(n, ast.Assign) and any(is_source(x) for x in ast.walk(n.value)):
                roots |= {t.id for tg in n.targets for t in ast.walk(tg) if isinstance(t, ast.Name)}
            if isinstance(n, (ast.For, ast.AsyncFor)) and any(is_source(x) for x in ast.walk(n.iter)):
                roots |= {t.id for t in ast.walk(n.target) if isinstance(t, ast.Name)}
            if isinstance(n, ast.comprehension) and any(is_source(x) for x in ast.walk(n.iter)):
                roots |= {t.id for t in ast.walk(n.target) if isinstance(t, ast.Name)}
        known = derived_names(defs, roots, meth.node) if roots else set()
        # containers filled from derived values (out.append(f(x)), out[k] = v, out.update(..))
        changed = True
        while changed:
            changed = False
            for n in own_nodes(meth.node):
                tgt = None
                if isinstance(n, ast.Call) and isinstance(n.func, ast.Attribute) and n.func.attr in ("append", "extend", "update", "add", "insert", "setdefault") and isinstance(n.func.value, ast.Name) and any(mentions(a, known) for a in n.args):
                    tgt = n.func.value.id
                if isinstance(n, ast.Assign) and isinstance(n.targets[0], ast.Subscript) and isinstance(n.targets[0].value, ast.Name) and (mentions(n.value, known) or mentions(n.targets[0].slice, known)):
                    tgt = n.targets[0].value.id
                if tgt is not None and tgt not in known:
                    known.add(tgt)
                    changed = True
            more = derived_names(defs, known, meth.node)
            if more - known:
                known |= more
                changed = True
        outs = [(n, n.value) for n in own_nodes(meth.node) if isinstance(n, ast.Return) and n.value is not None and not (isinstance(n.value, ast.Constant) and n.value.value is None)]
        outs += [(n, n.value) for n in own_nodes(meth.node) if isinstance(n, (ast.Yield, ast.YieldFrom)) and n.value is not None]
        for node, val in outs:
            ok = mentions(val, known) or any(is_source(x) for x in ast.walk(val))
            rep.check(ok, "C15-R6", meth.site(node), f"{name}: the value handed to the caller derives from the raw client's result", f"`{norm(val)[:80]}` mentions none of {sorted(known)[:8]}", key=f"{meth0.key}|result-not-from-raw")


def check_no_carried_values(ctx: Ctx, rep: Report, wrapper: ClassInfo) -> None:
    """
    Inside a loop of the wrapper (or of a helper of its module) every local that the emitted value is built from is
    assigned on *every* path of the current iteration before the emission, or is not assigned in the loop at all (loop
    variables, containers created before).  A local assigned only under a condition carries the converted value of
    an earlier item into a later one ("reuse the previous conversion while the raw value compares equal").
    """
    from ..engine.patterns import cfg_node_of

    fns = [m for n, m in sorted(wrapper.methods.items())] + [f for f in ctx.u.functions.values() if f.module is wrapper.module and f.cls is None and f.parent is None]
    for fn in fns:
        loops = [n for n in own_nodes(fn.node) if isinstance(n, (ast.For, ast.AsyncFor))]
        if not loops:
            continue
        cfg = ctx.cfg(fn)
        for loop in loops:
            inner = [n for st in loop.body for n in ast.walk(st)]
            emissions = []
            for n in inner:
                if isinstance(n, (ast.Yield, ast.YieldFrom)) and n.value is not None:
                    emissions.append((n, n.value))
                if isinstance(n, ast.Call) and isinstance(n.func, ast.Attribute) and n.func.attr in ("append", "extend", "add", "update", "insert") and n.args:
                    emissions.append((n, ast.Tuple(elts=list(n.args), ctx=ast.Load())))
                if isinstance(n, ast.Assign) and isinstance(n.targets[0], ast.Subscript):
                    emissions.append((n, ast.Tuple(elts=[n.value, n.targets[0].slice], ctx=ast.Load())))
            if not emissions:
                continue
            lnode = cfg.node_of(loop)
            entry = [cfg.nodes[nid] for nid, lab in cfg.succ[lnode.id] if lab == "iter"] if lnode is not None else []
            target_names = {n.id for n in ast.walk(loop.target) if isinstance(n, ast.Name)}
            stored_in_loop: Dict[str, List[ast.AST]] = {}
            for n in inner:
                if isinstance(n, (ast.Assign, ast.AnnAssign, ast.AugAssign)):
                    tgts = n.targets if isinstance(n, ast.Assign) else [n.target]
                    for t in tgts:
                        for x in ast.walk(t):
                            if isinstance(x, ast.Name) and isinstance(x.ctx, ast.Store):
                                stored_in_loop.setdefault(x.id, []).append(n)
            for enode, expr in emissions:
                used = {n.id for n in ast.walk(expr) if isinstance(n, ast.Name) and isinstance(n.ctx, ast.Load)} - target_names
                en = cfg_node_of(cfg, enode)
                for name in sorted(used & set(stored_in_loop)):
                    defs_n = [cfg_node_of(cfg, d) for d in stored_in_loop[name]]
                    defs_n = [d for d in defs_n if d is not None]
                    ok = bool(entry) and en is not None and bool(defs_n) and cfg.must_pass(entry[0], [en], defs_n)
                    rep.check(ok, "C15-R6", fn.site(enode), f"{fn.qualname}: `{name}`, part of what is handed out for this item, is computed from this item on every path of the iteration", f"`{name}` is assigned only on some paths inside the loop: the value of an earlier item can be handed out again", key=f"{fn.key}|carried-value|{name}")


def check_forwarding(ctx: Ctx, rep: Report, wrapper: ClassInfo, client: ClassInfo, client_attr: str) -> None:
    """
    C15-R4: what the wrapper asks the raw client for is what its caller asked for.  For every public method that
    calls `self.<client>.<op>(...)`: an argument that derives from a wrapper parameter is that parameter itself or
    its element-wise ObjectIdentifier conversion (no filter, no helper that may drop or reorder elements); a wrapper
    parameter that has the name of a raw parameter is passed on unchanged; no wrapper parameter is left unused.
    """
    from ..engine.context import bind_call_args

    for name, meth in sorted(wrapper.methods.items()):
        if name.startswith("_"):
            continue
        calls = [
            n for n in own_nodes(meth.node)
            if isinstance(n, ast.Call) and isinstance(n.func, ast.Attribute) and isinstance(n.func.value, ast.Attribute) and n.func.value.attr == client_attr and isinstance(n.func.value.value, ast.Name) and n.func.value.value.id == "self"
        ]
        if len(calls) != 1:
            continue  # delegates to another wrapper method (set -> multiset) or does not talk to the client
        call = calls[0]
        raw = ctx.r.method(client, call.func.attr)
        if raw is None:
            rep.undecided("C15-R4", meth.site(call), f"{name}: the raw operation exists", call.func.attr)
            continue
        defs = ctx.defs(meth)
        params = [p for p in meth.params if p != "self"]
        bound = bind_call_args(call, raw.params, skip_self=True)
        expanded = {q: ctx.xexpand(meth, a, depth=2, stop=params) for q, a in bound.items()}  # small conversion helpers are looked through
        problems = []
        used = set()
        for q, exp in expanded.items():
            mentioned = [p for p in params if any(isinstance(n, ast.Name) and n.id == p for n in ast.walk(exp))]
            used.update(mentioned)
            for p in mentioned:
                if not faithful_conversion(exp, p):
                    problems.append(f"{q} = {norm(exp)[:70]} is not `{p}` or its element-wise ObjectIdentifier conversion")
        for p in params:
            if p in raw.params:
                arg = expanded.get(p)
                if arg is None or not faithful_conversion(arg, p):
                    problems.append(f"`{p}` is not forwarded to the raw parameter of the same name ({norm(arg)[:60] if arg is not None else 'not passed'})")
                used.add(p)
        for p in params:
            if p not in used:
                problems.append(f"parameter `{p}` never reaches the raw client")
        rep.check(not problems, "C15-R4", meth.site(call), f"{name}: arguments reach client.{call.func.attr} one-to-one", "; ".join(problems), key=f"{meth.key}|argument-forwarding")


def faithful_conversion(exp: ast.AST, param: str) -> bool:
    """`p`, `ObjectIdentifier(p)`, `[ObjectIdentifier(x) for x in p]`, `{ObjectIdentifier(k): v for k, v in p.items()}`, `[ObjectIdentifier(p)]`."""
    exp = strip_casts(exp)

    def is_param(e: ast.AST) -> bool:
        e = strip_casts(e)
        if isinstance(e, ast.Name):
            return e.id == param
        if isinstance(e, ast.Call) and isinstance(e.func, ast.Name) and e.func.id in ("list", "tuple", "iter") and len(e.args) == 1 and not e.keywords:
            return is_param(e.args[0])
        return False

    def oid_of(e: ast.AST, name: str) -> bool:
        e = strip_casts(e)
        if isinstance(e, ast.Name):
            return e.id == name
        return isinstance(e, ast.Call) and norm(e.func).split(".")[-1] == "ObjectIdentifier" and len(e.args) == 1 and isinstance(strip_casts(e.args[0]), ast.Name) and strip_casts(e.args[0]).id == name

    if is_param(exp) or oid_of(exp, param):
        return True
    if isinstance(exp, ast.Call) and isinstance(exp.func, ast.Name) and exp.func.id in ("list", "tuple") and len(exp.args) == 1 and not exp.keywords:
        return faithful_conversion(exp.args[0], param)
    if isinstance(exp, ast.Call) and isinstance(exp.func, ast.Name) and exp.func.id == "map" and len(exp.args) == 2:
        return norm(exp.args[0]).split(".")[-1] == "ObjectIdentifier" and is_param(exp.args[1])
    if isinstance(exp, (ast.List, ast.Tuple)) and len(exp.elts) == 1:
        return oid_of(exp.elts[0], param)
    if isinstance(exp, (ast.ListComp, ast.GeneratorExp)) and len(exp.generators) == 1:
        gen = exp.generators[0]
        return not gen.ifs and is_param(gen.iter) and isinstance(gen.target, ast.Name) and oid_of(exp.elt, gen.target.id)
    if isinstance(exp, ast.DictComp) and len(exp.generators) == 1:
        gen = exp.generators[0]
        it = gen.iter
        items = isinstance(it, ast.Call) and isinstance(it.func, ast.Attribute) and it.func.attr == "items" and is_param(it.func.value)
        if gen.ifs or not items or not (isinstance(gen.target, ast.Tuple) and len(gen.target.elts) == 2 and all(isinstance(t, ast.Name) for t in gen.target.elts)):
            return False
        k, v = gen.target.elts[0].id, gen.target.elts[1].id
        return oid_of(exp.key, k) and isinstance(strip_casts(exp.value), ast.Name) and strip_casts(exp.value).id == v
    return False
