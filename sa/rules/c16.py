"""
C16 - table fetches: one row per index, every cell exactly once, both variants agree.

R1  base-node agreement: table() (addressed by the entry OID) splits at len(oid),
    bulktable() (addressed by the table OID) at len(oid) + 1.
R2  the split is a partition: symbolic slice algebra over the OID's arcs shows
    column = arc[base], row index = arcs[base+1:] joined with ".", stored under "0".
R3  rows accumulate: get-or-create per row id, then the cell store into that row.
R4  both variants consume the single-root walk / bulk walk (C01 / C02) completely.
R5  the wrapper keeps "0" and pythonises every other cell.
"""
from __future__ import annotations

import ast
from typing import Any, Dict, List, Optional, Tuple

from ..engine.context import Ctx, bind_call_args
from ..engine.exprs import Unevaluable, int_eval, norm, strip_casts
from ..engine.report import Report
from ..engine.universe import AnalysisError, FuncInfo, ancestors, own_nodes

TABLIFY = "puresnmp.util:tablify"


class Lin:
    """c + k * N   (N = number of base nodes)."""

    def __init__(self, c: int = 0, k: int = 0) -> None:
        self.c, self.k = c, k

    def __add__(self, other: "Lin") -> "Lin":
        return Lin(self.c + other.c, self.k + other.k)

    def __eq__(self, other: object) -> bool:
        return isinstance(other, Lin) and (self.c, self.k) == (other.c, other.k)

    def __repr__(self) -> str:
        if self.k == 0:
            return str(self.c)
        return f"N{self.c:+d}" if self.c else "N"


def lin_of(expr: ast.AST, nvar: str) -> Optional[Lin]:
    if isinstance(expr, ast.Constant) and isinstance(expr.value, int):
        return Lin(expr.value, 0)
    if isinstance(expr, ast.Name) and expr.id == nvar:
        return Lin(0, 1)
    if isinstance(expr, ast.BinOp) and isinstance(expr.op, (ast.Add, ast.Sub)):
        a, b = lin_of(expr.left, nvar), lin_of(expr.right, nvar)
        if a is None or b is None:
            return None
        return a + b if isinstance(expr.op, ast.Add) else Lin(a.c - b.c, a.k - b.k)
    if isinstance(expr, ast.UnaryOp) and isinstance(expr.op, ast.USub):
        a = lin_of(expr.operand, nvar)
        return None if a is None else Lin(-a.c, -a.k)
    return None


def sym(expr: ast.AST, env: Dict[str, Any], oid_var: str, nvar: str) -> Any:
    """Symbolic value: ('seq', start) = arcs[start:], ('elem', idx), ('str', x), ('joined', seq), ('tuple', ...)."""
    expr = strip_casts(expr)
    if isinstance(expr, ast.Name):
        return env.get(expr.id, ("opaque", expr.id))
    if isinstance(expr, ast.Attribute) and expr.attr == "nodes" and isinstance(expr.value, ast.Name) and expr.value.id == oid_var:
        return ("seq", Lin(0, 0))
    if isinstance(expr, ast.Tuple):
        return ("tuple",) + tuple(sym(e, env, oid_var, nvar) for e in expr.elts)
    if isinstance(expr, ast.Subscript):
        base = sym(expr.value, env, oid_var, nvar)
        # the ObjectIdentifier itself supports indexing like its arcs
        if isinstance(expr.value, ast.Name) and expr.value.id == oid_var:
            base = ("seq", Lin(0, 0))
        if base[0] != "seq":
            return ("opaque", norm(expr))
        if isinstance(expr.slice, ast.Slice):
            if expr.slice.upper is not None or expr.slice.step is not None:
                return ("opaque", norm(expr))
            low = Lin(0, 0) if expr.slice.lower is None else lin_of(expr.slice.lower, nvar)
            if low is None or (low.k == 0 and low.c < 0):
                return ("opaque", norm(expr))
            return ("seq", base[1] + low)
        idx = lin_of(expr.slice, nvar)
        if idx is None:
            return ("opaque", norm(expr))
        if idx.k == 0 and idx.c < 0:
            return ("elem-from-end", idx.c) if base[1] == Lin(0, 0) else ("opaque", norm(expr))
        return ("elem", base[1] + idx)
    if isinstance(expr, ast.Call):
        if isinstance(expr.func, ast.Name) and expr.func.id == "str" and len(expr.args) == 1:
            inner = sym(expr.args[0], env, oid_var, nvar)
            return inner if inner[0] in ("str", "joined") else ("str", inner)
        if isinstance(expr.func, ast.Attribute) and expr.func.attr == "join" and isinstance(expr.func.value, ast.Constant) and expr.func.value.value == "." and len(expr.args) == 1:
            arg = expr.args[0]
            if isinstance(arg, (ast.ListComp, ast.GeneratorExp)) and len(arg.generators) == 1 and not arg.generators[0].ifs:
                gen = arg.generators[0]
                src = sym(gen.iter, env, oid_var, nvar)
                if src[0] == "seq" and isinstance(gen.target, ast.Name) and norm(arg.elt) == f"str({gen.target.id})":
                    return ("joined", src[1])
            if isinstance(arg, ast.Call) and isinstance(arg.func, ast.Name) and arg.func.id == "map" and len(arg.args) == 2 and norm(arg.args[0]) == "str":
                src = sym(arg.args[1], env, oid_var, nvar)
                if src[0] == "seq":
                    return ("joined", src[1])
    return ("opaque", norm(expr))


def bind_sym(tgt: ast.AST, val: Any, env: Dict[str, Any]) -> None:
    if isinstance(tgt, ast.Name):
        env[tgt.id] = val
    elif isinstance(tgt, (ast.Tuple, ast.List)) and val[0] == "tuple" and len(val) - 1 == len(tgt.elts):
        for elt, sub in zip(tgt.elts, val[1:]):
            bind_sym(elt, sub, env)


def run(ctx: Ctx, rep: Report) -> None:
    rep.rule("C16-R1", "table() splits at len(oid), bulktable() at len(oid)+1 (entry vs table addressing)", floor=1)
    rep.rule("C16-R2", "column = arc[base], row index = remaining arcs joined by '.', stored under '0'", floor=1)
    rep.rule("C16-R3", "rows accumulate: get-or-create per row id, then the cell store", floor=1)
    rep.rule("C16-R4", "both variants consume the single-root (bulk) walk completely and in order", floor=2)
    rep.rule("C16-R5", "the wrapper keeps '0' and pythonises the other cells", floor=1)
    rep.rule("C16-R6", "no cell from outside the table: the walk's containment / once-only filter (shared with C01-R1/R2)", floor=4)
    rep.rule("C16-R9", "the pythonic table methods hand the OID, bulk size and row type to the raw table fetches one-to-one (shared with C15-R4)", floor=1)
    rep.rule("C16-R10", "an SNMPv3 report (usmStats counter) arriving instead of a table row raises; it cannot end the fetch as an OID outside the table (shared with C12-R4)", floor=3)
    rep.rule("C16-R8", "a table at the end of an SNMPv1 agent's MIB: the class construct() builds for noSuchName is the one the walk loop ends quietly on", floor=1)
    rep.rule("C16-R7", "the GETBULK walk used by bulktable delivers what the GETNEXT walk delivers (shared with C02-R1..R5)", floor=30)
    rep.assumptions += ["the walk delivers exactly the instances below the root (C01 / C02)", "table() is addressed by the entry OID and bulktable() by the table OID, as documented"]
    client = ctx.client()
    tab = ctx.fn(TABLIFY)
    from .c01 import check_filter
    from .walkmodel import WalkModel

    check_filter(ctx, rep, WalkModel(ctx), r1="C16-R6", r2="C16-R6")
    # ------------------------------------------------------------ R1 / R4
    variants: List[Tuple[FuncInfo, ast.Call]] = []
    for meth in client.methods.values():
        for node in own_nodes(meth.node):
            if isinstance(node, ast.Call) and ctx.r.call_resolves_to(meth, node, TABLIFY):
                variants.append((meth, node))
    for meth, call in variants:
        defs = ctx.defs(meth)
        bound = bind_call_args(call, tab.params, skip_self=False)
        base = bound.get("num_base_nodes")
        oid_param = meth.params[1]
        # which walk feeds it
        walk_calls = [n for n in own_nodes(meth.node) if isinstance(n, ast.Call) and isinstance(n.func, ast.Attribute) and isinstance(n.func.value, ast.Name) and n.func.value.id == "self" and n.func.attr in ("walk", "bulkwalk", "multiwalk")]
        is_bulk = any(c.func.attr == "bulkwalk" for c in walk_calls)
        want_offset = 1 if is_bulk else 0
        ok = None
        detail = ""
        foreign = sorted({n.id for n in ast.walk(defs.expand(base)) if isinstance(n, ast.Name) and n.id not in (oid_param, "len")}) if base is not None else []
        if foreign:
            ok = False
            detail = f"the split position `{norm(base)}` depends on {foreign}, not only on the length of the OID given: fetched data can shift column and index"
        elif base is not None:
            ok = True
            for length in range(1, 14):
                def atom(expr: ast.AST, length=length):
                    if isinstance(expr, ast.Call) and isinstance(expr.func, ast.Name) and expr.func.id == "len" and len(expr.args) == 1 and norm(expr.args[0]) == oid_param:
                        return length
                    return None
                try:
                    got = int_eval(defs.expand(base), atom)
                except Unevaluable:
                    ok = None
                    detail = f"cannot evaluate {norm(base)}"
                    break
                if got != length + want_offset:
                    ok = False
                    detail = f"len(oid)={length}: num_base_nodes={got}, expected {length + want_offset}"
                    break
        rep.check(ok, "C16-R1", meth.site(call), f"{meth.name}: num_base_nodes == len(oid){'+1' if want_offset else ''}", detail or f"num_base_nodes = {norm(base) if base is not None else None}", key=f"{meth.key}|base-nodes")
        # R4: the walk is over exactly the caller's OID, everything it yields is collected in order
        okw = len(walk_calls) == 1
        if okw:
            wc = walk_calls[0]
            arg0 = wc.args[0] if wc.args else None
            if wc.func.attr == "walk":
                okw = arg0 is not None and norm(arg0) == oid_param
            else:
                okw = isinstance(arg0, ast.List) and len(arg0.elts) == 1 and norm(arg0.elts[0]) == oid_param
                bs = {kw.arg: kw.value for kw in wc.keywords}.get("bulk_size") or (wc.args[1] if len(wc.args) > 1 else None)
                okw = okw and bs is not None and norm(bs) == "bulk_size" and "bulk_size" in meth.params
        rep.check(okw, "C16-R4", meth.site(), f"{meth.name}: walks exactly the caller's OID as single root{' with the caller bulk size' if is_bulk else ''}", f"{[norm(c) for c in walk_calls]}", key=f"{meth.key}|walk-root")
        loops = [n for n in own_nodes(meth.node) if isinstance(n, ast.AsyncFor)]
        okc = False
        if len(loops) == 1:
            loop = loops[0]
            body = [s for s in loop.body if not (isinstance(s, ast.Expr) and isinstance(s.value, ast.Constant))]
            if len(body) == 1 and isinstance(body[0], ast.Expr) and isinstance(body[0].value, ast.Call):
                c = body[0].value
                if isinstance(c.func, ast.Attribute) and c.func.attr == "append" and len(c.args) == 1 and norm(c.args[0]) == norm(loop.target):
                    lst = norm(c.func.value)
                    vb = bound.get("varbinds")
                    okc = vb is not None and norm(vb) == lst and not loop.orelse
        if not okc:
            # [x async for x in <the walk>] handed to tablify (directly or through a local)
            vb = bound.get("varbinds")
            comp = ctx.defs(meth).expand(vb) if vb is not None else None
            if isinstance(comp, ast.ListComp) and len(comp.generators) == 1:
                gen = comp.generators[0]
                src = ctx.defs(meth).expand(gen.iter)
                okc = not gen.ifs and norm(comp.elt) == norm(gen.target) and any(norm(src) == norm(wc) for wc in walk_calls)
        if not okc:
            okc = drains_through_helper(ctx, meth, bound.get("varbinds"), walk_calls)
        rep.check(okc, "C16-R4", meth.site(), f"{meth.name}: every binding the walk yields is collected, in order, and handed to tablify", key=f"{meth.key}|collects-all")
    from . import c02

    sub = ctx.sub_run("c02", rep)
    rep.adopt_rules(sub, "C16-R7", ["C02-R1", "C02-R2", "C02-R3", "C02-R4", "C02-R5"])
    rep.adopt_rules(ctx.sub_run("c15", rep), "C16-R9", ["C15-R4"], containing="table")
    # a usmStats report in the middle of a table fetch surfaces as an error: it is never taken for an answer that left
    # the table (which would end the fetch quietly with a truncated table)
    rep.adopt_rules(ctx.sub_run("c12", rep), "C16-R10", ["C12-R4"])
    if len(variants) < 2:
        rep.undecided("C16-R1", f"{client.module.path} (Client)", "both table variants call tablify", f"{len(variants)} call site(s)")
    check_v1_end(ctx, rep)

    # ------------------------------------------------------------ R2 / R3 (tablify)
    from .walkeval import eval_tablify

    if not eval_tablify(ctx, rep, tab, "C16-R2", "C16-R3"):
        tablify_structurally(ctx, rep, tab)

    # ------------------------------------------------------------ R5
    wrapper = ctx.wrapper()
    for name in ("table", "bulktable"):
        meth = wrapper.methods.get(name)
        if meth is None:
            rep.undecided("C16-R5", f"{wrapper.module.path} (PyWrapper)", f"wrapper has {name}", "missing")
            continue
        from .walkeval import eval_wrapper_table

        if eval_wrapper_table(ctx, rep, wrapper, name, "C16-R5"):
            continue  # decided by evaluation of the conversion on small tables
        view = ctx.inlined(meth)  # the conversion may live in a module helper (_pythonize_rows)
        vdefs = ctx.defs(view)

        def is_raw_index(expr: ast.AST) -> bool:
            """<row>.pop('0') / <row>['0'] / <row>.get('0') of a row the method iterates over."""
            expr = vdefs.expand(expr)
            if isinstance(expr, ast.Call) and isinstance(expr.func, ast.Attribute) and expr.func.attr in ("pop", "get") and expr.args and isinstance(expr.args[0], ast.Constant) and expr.args[0].value == "0":
                return isinstance(expr.func.value, ast.Name)
            if isinstance(expr, ast.Subscript) and isinstance(expr.slice, ast.Constant) and expr.slice.value == "0":
                return isinstance(expr.value, ast.Name)
            return False

        puts = []
        for n in own_nodes(view.node):
            if isinstance(n, ast.Assign) and isinstance(n.targets[0], ast.Subscript) and isinstance(n.targets[0].slice, ast.Constant) and n.targets[0].slice.value == "0":
                puts.append(n.value)
            if isinstance(n, ast.Dict):
                for k, v in zip(n.keys, n.values):
                    if isinstance(k, ast.Constant) and k.value == "0":
                        puts.append(v)
        ok = len(puts) == 1 and is_raw_index(puts[0])
        rep.check(ok, "C16-R5", meth.site(), f"wrapper {name}: the row index under '0' is carried over unchanged", key=f"{meth.key}|index-kept")


def drains_through_helper(ctx: Ctx, meth: FuncInfo, vb_arg, walk_calls) -> bool:
    """``rows = await self._helper(<walk>)`` where the helper appends every item of its async-iterable argument and returns the list."""
    if not isinstance(vb_arg, ast.Name) or len(walk_calls) != 1:
        return False
    defs = ctx.defs(meth)
    val = defs.single(vb_arg.id)
    if isinstance(val, ast.Await):
        val = val.value
    if not isinstance(val, ast.Call) or len(val.args) != 1:
        return False
    arg = val.args[0]
    if isinstance(arg, ast.Name):
        arg = defs.single(arg.id) or arg
    if arg is not walk_calls[0]:
        return False
    for helper in [c for c in ctx.r.callees(meth, val) if isinstance(c, FuncInfo)]:
        params = [p for p in helper.params if p not in ("self", "cls")]
        loops = [n for n in own_nodes(helper.node) if isinstance(n, (ast.AsyncFor, ast.For))]
        rets = [n for n in own_nodes(helper.node) if isinstance(n, ast.Return) and n.value is not None]
        if len(params) == 1 and len(loops) == 1 and len(rets) == 1 and norm(loops[0].iter) == params[0] and not loops[0].orelse:
            body = loops[0].body
            if len(body) == 1 and isinstance(body[0], ast.Expr) and isinstance(body[0].value, ast.Call):
                c = body[0].value
                if isinstance(c.func, ast.Attribute) and c.func.attr == "append" and len(c.args) == 1 and norm(c.args[0]) == norm(loops[0].target) and norm(rets[0].value) == norm(c.func.value):
                    return True
    return False


def check_v1_end(ctx: Ctx, rep: Report, rule: str = "C16-R8") -> None:
    """
    GETNEXT tables are also fetched from SNMPv1 agents, which signal the end of the MIB with error-status
    noSuchName(2).  ErrorResponse.construct() instantiates the *direct* subclass whose IDENTIFIER is 2; the
    continuation request of the walk must end quietly on exactly that class.
    """
    from ..engine.patterns import enclosing_tries_of
    from ..engine.resolve import NotConstant
    from .c01 import all_paths_reraise
    from .walkmodel import WalkModel

    wm = WalkModel(ctx)
    base = ctx.u.cls("puresnmp.exc:ErrorResponse")
    owners = []
    for cls in ctx.r.subclasses(base, direct=True):
        try:
            if ctx.r.class_const(cls, "IDENTIFIER") == 2:
                owners.append(cls)
        except NotConstant:
            continue
    site = f"{base.module.path} (ErrorResponse subclasses)"
    rep.check(len(owners) == 1, rule, site, "exactly one direct ErrorResponse subclass carries error-status 2 (noSuchName)", f"{[c.name for c in owners]}", key="noSuchName|owner")
    if len(owners) != 1:
        return
    produced = owners[0]
    w = wm.walk
    loop_calls = [c for c in wm.fetch_calls if any(isinstance(a, (ast.While, ast.For, ast.AsyncFor)) for a in ancestors(c))]
    if not loop_calls:
        rep.undecided(rule, w.site(), "the walk has a continuation request inside a loop", "none found")
        return
    for call in loop_calls:
        quiet = False
        for tr, part in enclosing_tries_of(call, w):
            if part != "body":
                continue
            for h in tr.handlers:
                types = [] if h.type is None else (h.type.elts if isinstance(h.type, ast.Tuple) else [h.type])
                catches = h.type is None or any((ctx.r.resolve_class(w.module, t) is not None and ctx.r.is_subclass(produced, ctx.r.resolve_class(w.module, t))) for t in types)
                if catches:
                    quiet = quiet or not all_paths_reraise(h)
                    break
            if quiet:
                break
        rep.check(quiet, rule, w.site(call), f"the continuation request ends the walk quietly when the agent answers noSuchName (construct() builds {produced.name})", f"no handler around the request catches {produced.name} without re-raising", key=f"{w.key}|noSuchName-ends-walk")


def tablify_structurally(ctx: Ctx, rep: Report, tab: FuncInfo) -> None:
    """Fallback: the symbolic reading of tablify's loop (column = arc[base], row = arcs[base+1:])."""
    # ------------------------------------------------------------ R2 / R3 (tablify)
    nvar = "num_base_nodes"
    loops = [n for n in own_nodes(tab.node) if isinstance(n, ast.For)]
    if nvar not in tab.params or len(loops) != 1:
        rep.undecided("C16-R2", tab.site(), "tablify has one loop over the bindings and a num_base_nodes parameter", f"{len(loops)} loops")
        return
    loop = loops[0]
    if not (isinstance(loop.target, ast.Tuple) and len(loop.target.elts) == 2 and all(isinstance(e, ast.Name) for e in loop.target.elts)):
        rep.undecided("C16-R2", tab.site(loop), "loop unpacks (oid, value)", norm(loop.target))
        return
    oid_var, val_var = loop.target.elts[0].id, loop.target.elts[1].id
    # take the branch for a given base-node count
    env: Dict[str, Any] = {}
    stores: List[Tuple[ast.AST, ast.AST, ast.stmt]] = []
    creates: List[ast.stmt] = []

    def exec_block(stmts: List[ast.stmt]) -> None:
        for stmt in stmts:
            if isinstance(stmt, ast.If):
                test = norm(stmt.test)
                if test == nvar:
                    exec_block(stmt.body)
                elif test == f"not {nvar}":
                    exec_block(stmt.orelse)
                else:
                    exec_block(stmt.body)
                    exec_block(stmt.orelse)
            elif isinstance(stmt, ast.Assign):
                if len(stmt.targets) == 1 and isinstance(stmt.targets[0], ast.Subscript):
                    stores.append((stmt.targets[0], stmt.value, stmt))
                else:
                    val = sym(stmt.value, env, oid_var, nvar)
                    for tgt in stmt.targets:
                        bind_sym(tgt, val, env)
            elif isinstance(stmt, ast.AnnAssign) and stmt.value is not None:
                bind_sym(stmt.target, sym(stmt.value, env, oid_var, nvar), env)

    exec_block(loop.body)
    site = tab.site(loop)
    # cell store: <row>[str(col)] = value
    cell = [(t, v, s) for t, v, s in stores if norm(v) == val_var]
    defs = ctx.defs(tab)
    if len(cell) != 1:
        rep.violated("C16-R2", site, "exactly one cell store `row[column] = value` per binding", f"{[norm(s) for _, _, s in stores]}", key=f"{tab.key}|cell-store")
        return
    tgt, _, cstmt = cell[0]
    col = sym(tgt.slice, env, oid_var, nvar)
    rep.check(col == ("str", ("elem", Lin(0, 1))), "C16-R2", tab.site(cstmt), "the column key is str(arc[num_base_nodes])", f"column key = {col}", key=f"{tab.key}|column-arc")
    # the row object: obtained by get-or-create keyed by the row id
    row_name = norm(tgt.value)
    row_def = None
    for node in loop.body:
        for sub in ast.walk(node):
            if isinstance(sub, ast.Assign) and any(isinstance(t, ast.Name) and t.id == row_name for t in sub.targets):
                row_def = sub
    row_key = None
    init_dict = None
    accumulate = None
    if row_def is not None and isinstance(row_def.value, ast.Call) and isinstance(row_def.value.func, ast.Attribute):
        c = row_def.value
        if c.func.attr == "setdefault" and len(c.args) == 2:
            row_key = sym(c.args[0], env, oid_var, nvar)
            init_expr = c.args[1]
            if isinstance(init_expr, ast.Name):
                cand = [v for v in defs.all_values(init_expr.id)]
                init_expr = cand[0] if len(cand) == 1 else init_expr
            init_dict = init_expr
            accumulate = True
    elif row_def is not None and isinstance(row_def.value, ast.Subscript):
        # rows[row_id] after an `if row_id not in rows: rows[row_id] = {...}` guard
        row_key = sym(row_def.value.slice, env, oid_var, nvar)
        guards = [n for n in loop.body if isinstance(n, ast.If) and "not in" in norm(n.test)]
        for g in guards:
            for sub in g.body:
                if isinstance(sub, ast.Assign) and isinstance(sub.targets[0], ast.Subscript) and isinstance(sub.value, ast.Dict):
                    init_dict = sub.value
                    accumulate = True
    want_row = ("joined", Lin(1, 1))
    rep.check(row_key == want_row, "C16-R2", tab.site(row_def) if row_def is not None else site, "the row is looked up by '.'.join(str(arc) for arc in arcs[num_base_nodes+1:]) - the complete index", f"row key = {row_key}", key=f"{tab.key}|row-key")
    rep.check(bool(accumulate), "C16-R3", tab.site(row_def) if row_def is not None else site, "the row is obtained by get-or-create (an existing row is reused for further columns)", f"row definition: {norm(row_def) if row_def is not None else None}", key=f"{tab.key}|row-accumulation")
    idx_ok = False
    if isinstance(init_dict, ast.Dict) and len(init_dict.keys) == 1 and isinstance(init_dict.keys[0], ast.Constant) and init_dict.keys[0].value == "0":
        idx_ok = sym(init_dict.values[0], env, oid_var, nvar) == want_row
    rep.check(idx_ok, "C16-R2", site, "a new row starts as {'0': <complete row index>}", f"initial row = {norm(init_dict) if init_dict is not None else None}", key=f"{tab.key}|index-under-0")
    # column and row slices are complementary: arc[N] and arcs[N+1:] cover arcs[N:] exactly once
    rep.check(col == ("str", ("elem", Lin(0, 1))) and row_key == want_row, "C16-R2", site, "column arc and row arcs partition the arcs after the base (no arc dropped or shared)", f"column {col}, row {row_key}", key=f"{tab.key}|partition")
    rets = [n for n in own_nodes(tab.node) if isinstance(n, ast.Return) and n.value is not None]
    rows_name = norm(row_def.value.func.value) if row_def is not None and isinstance(row_def.value, ast.Call) and isinstance(row_def.value.func, ast.Attribute) else None
    okr = len(rets) == 1 and rows_name is not None and norm(rets[0].value) in (f"list({rows_name}.values())", f"[*{rows_name}.values()]")
    rep.check(okr, "C16-R3", tab.site(), "tablify returns every accumulated row exactly once", f"{[norm(r.value) for r in rets]}", key=f"{tab.key}|returns-rows")

