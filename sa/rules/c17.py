"""
C17 - SNMP application types keep their numeric and conversion semantics.

R1  wrap / clamp: the constructors of Counter32 / Counter64 are executed over
    their CFG with concrete integers at and around every region boundary
    (v < 0, 0 <= v < 2^b, v >= 2^b); the value handed to the base constructor
    must be 0 for negative input and v mod 2^b otherwise; threshold and mask
    constants fold to 2^b and 2^b - 1.
R2  numeric kind: the timedelta -> ticks conversion never truncates an inexact
    float; both directions use 100 ticks per second.
R3  IPv4: 4 octets, the same byte order in both directions.
R4  unsigned application types resolve decode_raw to a version that passes
    signed=cls.SIGNED with SIGNED evaluating to False; tags per RFC 2578.
"""
from __future__ import annotations

import ast
from typing import Any, Dict, List, Optional, Tuple

from .. import rfc
from ..engine.context import Ctx
from ..engine.exprs import norm
from ..engine.patterns import cfg_node_of, run_int_cfg
from ..engine.report import Report
from ..engine.resolve import EnumMember, NotConstant
from ..engine.universe import AnalysisError, ClassInfo, FuncInfo, own_nodes


def app_class(ctx: Ctx, tag: int) -> Optional[ClassInfo]:
    x690 = ctx.u.cls("x690.types:X690Type")
    for cls in ctx.u.classes.values():
        if cls.module.name != "puresnmp.types" or not ctx.r.is_subclass(cls, x690):
            continue
        try:
            tc = ctx.r.class_const(cls, "TYPECLASS")
            tg = ctx.r.class_const(cls, "TAG")
        except NotConstant:
            continue
        if isinstance(tc, EnumMember) and tc.name == "APPLICATION" and tg == tag:
            return cls
    return None


DECODE_HOOKS = ("from_bytes", "decode", "decode_raw", "validate", "value", "pyvalue", "pythonize")

# numeric kinds for the tick conversion
INT, TD, FLOAT, TRUNC, ROUNDED, OTHER = "int", "timedelta", "inexact-float", "truncated-float", "rounded", "other"


def num_kind(ctx: Ctx, fn: FuncInfo, expr: ast.AST, td_names) -> str:
    if isinstance(expr, ast.Constant):
        return INT if isinstance(expr.value, int) else (FLOAT if isinstance(expr.value, float) else OTHER)
    if isinstance(expr, ast.Name):
        return TD if expr.id in td_names else INT
    if isinstance(expr, ast.Attribute):
        base = num_kind(ctx, fn, expr.value, td_names)
        if base == TD and expr.attr in ("days", "seconds", "microseconds"):
            return INT
        return OTHER
    if isinstance(expr, ast.Call):
        f = expr.func
        if isinstance(f, ast.Attribute) and f.attr == "total_seconds":
            return FLOAT
        if isinstance(f, ast.Name):
            if f.id == "timedelta" or norm(f).endswith("timedelta"):
                return TD
            if f.id == "int" and expr.args:
                inner = num_kind(ctx, fn, expr.args[0], td_names)
                return TRUNC if inner == FLOAT else inner
            if f.id == "round" and expr.args:
                inner = num_kind(ctx, fn, expr.args[0], td_names)
                return ROUNDED if inner == FLOAT else inner
            if f.id in ("floor", "trunc") or norm(f) in ("math.floor", "math.trunc"):
                inner = num_kind(ctx, fn, expr.args[0], td_names) if expr.args else OTHER
                return TRUNC if inner == FLOAT else inner
        return OTHER
    if isinstance(expr, ast.BinOp):
        a, b = num_kind(ctx, fn, expr.left, td_names), num_kind(ctx, fn, expr.right, td_names)
        if isinstance(expr.op, ast.FloorDiv):
            if a == TD and b == TD:
                return INT
            if FLOAT in (a, b):
                return TRUNC
            return INT if a in (INT, ROUNDED) and b in (INT, ROUNDED) else OTHER
        if isinstance(expr.op, ast.Div):
            return FLOAT
        if FLOAT in (a, b):
            return FLOAT
        if TRUNC in (a, b):
            return TRUNC
        if a in (INT, ROUNDED) and b in (INT, ROUNDED):
            return INT
        if TD in (a, b):
            return TD
        return OTHER
    return OTHER


def ticks_per_second(ctx: Ctx, fn: FuncInfo, expr: ast.AST) -> Optional[float]:
    """Scale of a conversion expression: multiplier applied to seconds, or 1/(divisor in seconds)."""
    for node in ast.walk(expr):
        if isinstance(node, ast.BinOp):
            if isinstance(node.op, ast.Mult):
                for side in (node.left, node.right):
                    try:
                        val = ctx.r.const(fn.module, side)
                        if isinstance(val, (int, float)) and val not in (0, 1):
                            return float(val)
                    except NotConstant:
                        pass
            if isinstance(node.op, (ast.Div, ast.FloorDiv)):
                right = node.right
                if isinstance(right, ast.Call) and norm(right.func).endswith("timedelta"):
                    secs = td_seconds(ctx, fn, right)
                    if secs:
                        return 1.0 / secs
                try:
                    val = ctx.r.const(fn.module, right)
                    if isinstance(val, (int, float)) and val:
                        return 1.0 / float(val)
                except NotConstant:
                    pass
    return None


def td_seconds(ctx: Ctx, fn: FuncInfo, call: ast.Call) -> Optional[float]:
    unit = {"days": 86400.0, "seconds": 1.0, "microseconds": 1e-6, "milliseconds": 1e-3, "minutes": 60.0, "hours": 3600.0, "weeks": 604800.0}
    total = 0.0
    names = ["days", "seconds", "microseconds", "milliseconds", "minutes", "hours", "weeks"]
    try:
        for idx, arg in enumerate(call.args):
            total += unit[names[idx]] * ctx.r.const(fn.module, arg)
        for kw in call.keywords:
            if kw.arg not in unit:
                return None
            total += unit[kw.arg] * ctx.r.const(fn.module, kw.value)
    except (NotConstant, TypeError):
        return None
    return total


def check_lazy_default(ctx: Ctx, rep: Report, rule: str) -> None:
    """
    x690 decodes lazily: ``X690Type.from_bytes`` creates the object with ``cls()`` - no argument - stores the raw
    octets and relies on ``pyvalue`` being the UNINITIALISED sentinel, so that ``.value`` decodes on first access.
    A constructor of a type of the repository whose no-argument call hands anything else to the base constructor
    (a plain ``0`` default) makes every value of that type received from an agent read as that default.
    """
    from ..engine.minieval import Instance, MiniEval, Raised, Unevaluable

    base = ctx.u.classes.get("x690.types:X690Type")
    sentinel_cls = ctx.u.classes.get("x690.types:_SENTINEL_UNINITIALISED")
    fb = ctx.r.method(base, "from_bytes") if base is not None else None
    no_arg = fb is not None and any(isinstance(n, ast.Call) and isinstance(n.func, ast.Name) and n.func.id == fb.params[0] and not n.args and not n.keywords for n in own_nodes(fb.node))
    if base is None or sentinel_cls is None or not no_arg:
        rep.undecided(rule, "x690/types.py (X690Type.from_bytes)", "x690 creates decoded objects with cls() and the UNINITIALISED sentinel", "not recognised in the installed x690")
        return
    for cls in sorted(ctx.u.classes.values(), key=lambda c: c.key):
        if cls.module.external or not cls.module.name.startswith("puresnmp") or not ctx.r.is_subclass(cls, base):
            continue
        init = cls.methods.get("__init__")
        if init is None:
            continue  # the x690 constructor is used as it is
        a_ = init.node.args  # type: ignore[attr-defined]
        if len(a_.args) - 1 > len(a_.defaults) or any(d is None for d in a_.kw_defaults):
            continue  # cannot be created without arguments: x690 refuses to decode it (X690Error) instead of handing out a default
        text = f"{cls.name}() - how x690 creates a decoded value - hands the lazy-decoding sentinel to the base constructor (the wire octets are decoded on access, not replaced by a default)"
        inst = Instance(cls, [], {})
        try:
            MiniEval(ctx).call_function(init, [inst])
        except Unevaluable as exc:
            rep.undecided(rule, init.site(), text, f"not evaluable: {exc}")
            continue
        except Raised as exc:
            rep.violated(rule, init.site(), text, f"raises {exc.value!r}", key=f"{init.key}|lazy-default")
            continue
        calls = [c for c in inst.attrs.get("__super_calls__", []) if c[0] == "__init__"]
        got = (calls[-1][1][0] if calls[-1][1] else calls[-1][2].get("value", "<x690 default>")) if calls else None
        ok = len(calls) == 1 and (got == "<x690 default>" or (isinstance(got, Instance) and got.cls.key == sentinel_cls.key))
        rep.check(ok, rule, init.site(), text, f"the base constructor receives {got!r} ({len(calls)} call(s))", key=f"{init.key}|lazy-default")


def run(ctx: Ctx, rep: Report) -> None:
    rep.rule("C17-R1", "Counter32 / Counter64 constructors: negative -> 0, otherwise v mod 2^bits (boundary evaluation of the constructor CFG)", floor=15)
    rep.rule("C17-R2", "TimeTicks <-> timedelta at 100 ticks per second with no truncation of an inexact float", floor=3)
    rep.rule("C17-R3", "IpAddress: 4 octets, same byte order in both directions", floor=2)
    rep.rule("C17-R6", "every application type value up to the top of its range can be carried in a PDU (the PDU encoder takes Counter64 up to 2^64-1 etc.; shared with C05-R1)", floor=2)
    rep.rule("C17-R5", "the pythonic view goes through pythonize(): PyVarBind.from_raw and the wrapper never hand out the bare tick count (shared with C15-R1)", floor=5)
    rep.rule("C17-R4", "application types: RFC 2578 tags, unsigned decode on every decode hook", floor=5)
    rep.rule("C17-R7", "a type created without an argument (how x690 creates every decoded value) keeps the lazy-decoding sentinel: what the agent sent is decoded on access, not replaced by a constructor default", floor=1)
    rep.assumptions += [
        "x690.types.Integer encodes/decodes arbitrary Python integers (its codec over full ranges is not analysed here)",
        "timedelta(seconds=n/100.0) is exact for n < 2**32: the float error (< 5e-9 s) is far below the half microsecond to which timedelta rounds",
    ]
    # ------------------------------------------------------------ R1
    for tag, (name, kind, bits) in sorted(rfc.APPLICATION_TYPES.items()):
        if name not in ("Counter32", "Counter64"):
            continue
        cls = app_class(ctx, tag)
        if cls is None:
            rep.violated("C17-R1", "puresnmp/types.py", f"an application class with tag {tag} ({name}) exists", "not found", key=f"app-type|{tag}|missing")
            continue
        init = cls.methods.get("__init__")
        if init is None:
            rep.violated("C17-R1", f"{cls.module.path}:{cls.node.lineno} ({cls.name})", f"{name} wraps / clamps in its constructor", "no constructor: out-of-range values are stored as given", key=f"{cls.key}|no-constructor")
            continue
        vparam = init.params[1]
        mod = 2**bits
        samples = [-(2**70), -42, -1, 0, 1, 42, mod - 1, mod, mod + 1, mod + 42, 2 * mod + 42, 3 * mod - 1, mod * 256 + 5, mod * mod + 7]
        # negative values far below the range (more bits than the type has): still clamped to 0, never wrapped
        samples += [-mod - 1, -mod, -mod + 1, -2 * mod - 1, -(2 ** (bits + 8)) - 12345, -3 * mod + 7]
        if rep.tier == "thorough":
            for k in range(0, 2 * bits + 9):
                samples += [2**k - 1, 2**k, 2**k + 1, -(2**k), mod + 2**k, 5 * mod + 2**k - 1]
            samples = sorted(set(samples))

        def decide(expr: ast.expr) -> Optional[bool]:
            if isinstance(expr, ast.Call) and isinstance(expr.func, ast.Name) and expr.func.id == "isinstance":
                target = norm(expr.args[1]) if len(expr.args) == 2 else ""
                if "SENTINEL" in target or "UNINITIALISED" in target:
                    return False
                if target == "int":
                    return True
            if isinstance(expr, ast.Compare) and isinstance(expr.ops[0], (ast.Is, ast.IsNot)) and "UNINITIALISED" in norm(expr):
                return isinstance(expr.ops[0], ast.IsNot)
            if isinstance(expr, ast.UnaryOp) and isinstance(expr.op, ast.Not):
                inner = decide(expr.operand)
                return None if inner is None else not inner
            return None

        supers = [n for n in own_nodes(init.node) if isinstance(n, ast.Call) and isinstance(n.func, ast.Attribute) and n.func.attr == "__init__" and norm(n.func.value).startswith("super(")]
        # the constructor is evaluated at and around every boundary (engine/minieval.py); what matters is the value
        # that reaches the x690 base constructor, however the clamp / wrap is written (inline, shared helper, ...)
        from ..engine.minieval import Instance, MiniEval, Raised, Unevaluable

        for v in samples:
            inst = Instance(cls, [], {})
            want = 0 if v < 0 else v % mod
            text = f"{cls.name}({v if abs(v) < 10**12 else hex(v)}) stores {want if want < 10**12 else hex(want)}"
            try:
                MiniEval(ctx).call_function(init, [inst, v])
            except Unevaluable as exc:
                rep.undecided("C17-R1", init.site(), text, f"not evaluable: {exc}")
                continue
            except Raised as exc:
                rep.violated("C17-R1", init.site(), text, f"raises {exc.value!r}", key=f"{init.key}|wrap-clamp")
                continue
            calls = [c for c in inst.attrs.get("__super_calls__", []) if c[0] == "__init__"]
            got = (calls[-1][1][0] if calls[-1][1] else calls[-1][2].get("value")) if calls else None
            rep.check(
                len(calls) == 1 and got == want and type(got) is int,
                "C17-R1",
                init.site(),
                text,
                f"the base constructor receives {got!r} ({len(calls)} call(s))",
                key=f"{init.key}|wrap-clamp",
            )
    # every value inside the type's range is stored as given (Gauge32 / TimeTicks have no wrap: a constructor that
    # "normalises" must leave the whole range alone)
    from ..engine.minieval import Instance as _Inst, MiniEval as _ME, Raised as _Raised, Unevaluable as _Unev

    for tag, (name, kind, bits) in sorted(rfc.APPLICATION_TYPES.items()):
        if kind != "unsigned":
            continue
        cls = app_class(ctx, tag)
        if cls is None:
            continue
        cinit = ctx.r.method(cls, "__init__")
        site = f"{cls.module.path}:{cls.node.lineno} ({cls.name})"
        if cinit is None or cinit.module.external:
            rep.ok("C17-R1", site, f"{name}: values are stored as given (x690's Integer constructor)", "no constructor in the repository")
            continue
        top = 2**bits - 1
        inrange = sorted({0, 1, 2, 127, 128, 255, 256, 2 ** (bits - 1) - 1, 2 ** (bits - 1), 2 ** (bits - 1) + 1, top - 1, top, top // 3, 2 * (top // 3)})
        bad = []
        undecided = None
        for v in inrange:
            inst = _Inst(cls, [], {})
            try:
                _ME(ctx).call_function(cinit, [inst, v])
            except _Unev as exc:
                undecided = str(exc)
                break
            except _Raised as exc:
                bad.append(f"{v}: raises {exc.value!r}")
                continue
            calls = [c for c in inst.attrs.get("__super_calls__", []) if c[0] == "__init__"]
            got = (calls[-1][1][0] if calls[-1][1] else calls[-1][2].get("value")) if calls else None
            if got != v:
                bad.append(f"{v if v < 10**12 else hex(v)} -> {got if not isinstance(got, int) or got < 10**12 else hex(got)}")
        if undecided is not None:
            rep.undecided("C17-R1", cinit.site(), f"{name}: every value of 0..2^{bits}-1 is stored unchanged", f"not evaluable: {undecided}")
        else:
            rep.check(not bad, "C17-R1", cinit.site(), f"{name}: every value of 0..2^{bits}-1 is stored unchanged ({len(inrange)} values at and around the byte and range boundaries evaluated)", "; ".join(bad[:4]), key=f"{cinit.key}|in-range-identity")

    # ------------------------------------------------------------ R2
    tt = app_class(ctx, 3)
    if tt is None:
        raise AnalysisError("TimeTicks class (application tag 3) not found")
    init = tt.methods.get("__init__")
    site = init.site() if init else f"{tt.module.path} ({tt.name})"
    conv: List[Tuple[ast.AST, ast.AST]] = []
    if init is not None:
        vparam = init.params[1]
        for node in own_nodes(init.node):
            if isinstance(node, ast.If) and "timedelta" in norm(node.test) and "isinstance" in norm(node.test):
                for sub in ast.walk(node):
                    if isinstance(sub, ast.Assign) and any(isinstance(t, ast.Name) and t.id == vparam for t in sub.targets):
                        conv.append((sub.value, sub))
    if not conv:
        rep.violated("C17-R2", site, "TimeTicks accepts a timedelta and converts it to ticks", "no conversion found", key=f"{tt.key}|no-timedelta-conversion")
    for expr, stmt in conv:
        kind = num_kind(ctx, init, expr, {init.params[1]})
        rep.check(kind in (INT, ROUNDED), "C17-R2", init.site(stmt), "timedelta -> ticks is exact integer arithmetic or rounds the float; it never truncates an inexact float", f"`{norm(expr)}` has numeric kind {kind}", key=f"{init.key}|tick-truncation")
        scale = ticks_per_second(ctx, init, expr)
        rep.check(scale is not None and abs(scale - 100.0) < 1e-9, "C17-R2", init.site(stmt), "timedelta -> ticks uses 100 ticks per second", f"scale = {scale}", key=f"{init.key}|tick-scale")
    pz = tt.methods.get("pythonize")
    if pz is None:
        rep.violated("C17-R2", site, "TimeTicks.pythonize converts ticks to timedelta", "method missing", key=f"{tt.key}|no-pythonize")
    else:
        pdefs = ctx.defs(pz)
        rets = [n for n in own_nodes(pz.node) if isinstance(n, ast.Return) and isinstance(n.value, ast.Call) and norm(n.value.func).endswith("timedelta")]
        ok = False
        detail = "no timedelta(...) return"
        for ret in rets:
            call = pdefs.expand(ret.value)
            unit = {"seconds": 1.0, "milliseconds": 1e-3, "microseconds": 1e-6}
            for kw in call.keywords:
                if kw.arg in unit:
                    scale = ticks_per_second(ctx, pz, kw.value)
                    # value * k (unit u) or value / d (unit u): ticks per second = 1 / (factor * u)
                    factor = None
                    for node in ast.walk(kw.value):
                        if isinstance(node, ast.BinOp) and "value" in norm(node.left):
                            try:
                                c = float(ctx.r.const(pz.module, node.right))
                            except NotConstant:
                                continue
                            if isinstance(node.op, ast.Div):
                                factor = 1.0 / c
                            elif isinstance(node.op, ast.Mult):
                                factor = c
                            elif isinstance(node.op, ast.FloorDiv):
                                factor = None
                                detail = "floor division loses ticks"
                    if factor is not None:
                        tps = 1.0 / (factor * unit[kw.arg])
                        ok = abs(tps - 100.0) < 1e-6
                        detail = f"{norm(kw.value)} in {kw.arg}: {tps} ticks per second"
        rep.check(ok, "C17-R2", pz.site(), "ticks -> timedelta uses 100 ticks per second without integer division", detail, key=f"{pz.key}|pythonize-scale")
        # every tick value converts: only a missing value (None) may yield None
        from ..engine.patterns import simulate
        from .common import concrete_env

        pcfg = ctx.cfg(pz)
        for v in (0, 1, 2**32 - 1):
            def atom(expr: ast.AST, v=v):
                if norm(expr) == "self.value":
                    return v
                return None

            base = concrete_env(atom, pdefs.expand)

            def env(expr: ast.expr, base=base):
                if isinstance(expr, ast.Compare) and isinstance(expr.ops[0], (ast.Is, ast.IsNot)) and norm(expr.left) == "self.value":
                    return isinstance(expr.ops[0], ast.IsNot)
                return base(expr)

            outs = simulate(pcfg, env)
            good = bool(outs) and all(o.kind == "return" and isinstance(o.stmt, ast.Return) and isinstance(pdefs.expand(o.stmt.value), ast.Call) and norm(pdefs.expand(o.stmt.value).func).endswith("timedelta") for o in outs)
            rep.check(good, "C17-R2", pz.site(), f"TimeTicks({v}).pythonize() yields a timedelta (only a missing value may yield None)", f"{outs}", key=f"{pz.key}|value-dropped")
    # ------------------------------------------------------------ R3
    ip = app_class(ctx, 0)
    if ip is None:
        raise AnalysisError("IpAddress class (application tag 0) not found")
    enc, dec = ip.methods.get("encode_raw"), ip.methods.get("decode_raw")
    width = order_enc = order_dec = None
    if enc is not None:
        for node in own_nodes(enc.node):
            if isinstance(node, ast.Call) and isinstance(node.func, ast.Attribute) and node.func.attr == "to_bytes" and len(node.args) >= 2:
                try:
                    width = ctx.r.const(enc.module, node.args[0])
                    order_enc = ctx.r.const(enc.module, node.args[1])
                except NotConstant:
                    pass
    if dec is not None:
        for node in own_nodes(dec.node):
            if isinstance(node, ast.Call) and isinstance(node.func, ast.Attribute) and node.func.attr == "from_bytes" and len(node.args) >= 2:
                try:
                    order_dec = ctx.r.const(dec.module, node.args[1])
                except NotConstant:
                    pass
                signed = [kw for kw in node.keywords if kw.arg == "signed"]
                rep.check(not signed or norm(signed[0].value) == "False", "C17-R3", dec.site(node), "the address integer is read unsigned", key=f"{dec.key}|signed")
    site = f"{ip.module.path}:{ip.node.lineno} ({ip.name})"
    rep.check(width == 4, "C17-R3", site, "IpAddress is encoded as exactly 4 octets", f"width = {width}", key=f"{ip.key}|width")
    rep.check(order_enc is not None and order_enc == order_dec == "big", "C17-R3", site, "network byte order in both directions", f"encode: {order_enc!r} decode: {order_dec!r}", key=f"{ip.key}|byte-order")
    if dec is not None:
        rets = [n for n in own_nodes(dec.node) if isinstance(n, ast.Return) and n.value is not None]
        ddefs = ctx.defs(dec)
        ok = bool(rets) and all("ip_address(" in norm(ddefs.expand(r.value)) or "IPv4Address(" in norm(ddefs.expand(r.value)) for r in rets)
        sl = any(isinstance(n, ast.Subscript) and norm(n) == f"{dec.params[0]}[{dec.params[1]}]" for n in own_nodes(dec.node))
        rep.check(ok and sl, "C17-R3", dec.site(), "decode builds the address from exactly the value's octets (data[slc])", key=f"{dec.key}|decode-shape")
    # ------------------------------------------------------------ R4
    integer = ctx.u.cls("x690.types:Integer")
    for tag, (name, kind, bits) in sorted(rfc.APPLICATION_TYPES.items()):
        cls = app_class(ctx, tag)
        site = f"puresnmp/types.py ({name})"
        if cls is None:
            rep.violated("C17-R4", site, f"application tag {tag} is registered for {name}", "no class with that tag", key=f"app-type|{tag}|missing")
            continue
        site = f"{cls.module.path}:{cls.node.lineno} ({cls.name})"
        if kind == "unsigned":
            try:
                signed = ctx.r.class_const(cls, "SIGNED")
            except NotConstant:
                signed = None
            dr = ctx.r.method(cls, "decode_raw")
            uses = dr is not None and any(isinstance(n, ast.keyword) and n.arg == "signed" and norm(n.value) == "cls.SIGNED" for n in ast.walk(dr.node))
            rep.check(ctx.r.is_subclass(cls, integer) and signed is False and uses, "C17-R4", site, f"{name} (tag {tag}) is an Integer decoded with signed=cls.SIGNED and SIGNED is False", f"SIGNED={signed!r} decode_raw={dr.key if dr else None}", key=f"{cls.key}|unsigned-decode")
            # every decode hook x690 dispatches to (resolved along the MRO) that the repository overrides must
            # reach decode_raw through cls / self / super(): naming another class reads the octets with that
            # class's signedness
            foreign = []
            for hook in DECODE_HOOKS:
                m = ctx.r.method(cls, hook)
                if m is None or m.module.external:
                    continue
                for n in own_nodes(m.node):
                    if isinstance(n, ast.Call) and isinstance(n.func, ast.Attribute) and n.func.attr in DECODE_HOOKS and isinstance(n.func.value, (ast.Name, ast.Attribute)):
                        if isinstance(n.func.value, ast.Name) and n.func.value.id in ("cls", "self"):
                            continue
                        other = ctx.r.resolve_class(m.module, n.func.value)
                        if other is None:
                            continue
                        try:
                            osigned = ctx.r.class_const(other, "SIGNED")
                        except NotConstant:
                            osigned = None
                        if osigned is not False:
                            foreign.append(f"{m.qualname} line {n.lineno}: {norm(n.func)} (SIGNED={osigned!r})")
            rep.check(not foreign, "C17-R4", site, f"{name}: the decode hooks overridden in the repository read the octets with the class's own signedness", "; ".join(foreign), key=f"{cls.key}|foreign-decode")
        else:
            rep.ok("C17-R4", site, f"{name} (tag {tag}) is registered", "")
    check_lazy_default(ctx, rep, "C17-R7")
    rep.adopt_rules(ctx.sub_run("c15", rep), "C17-R5", ["C15-R1"])
    rep.adopt_rules(ctx.sub_run("c05", rep), "C17-R6", ["C05-R1"])
