"""
C18 - temporary reconfiguration applies inside its block and is undone exactly.

R1  save / restore pairing: W (attributes of self that the override step may
    write, through the call graph) is a subset of the attributes restored in a
    ``finally`` that covers the ``yield``, each from a local saved from the same
    attribute before the ``try``.
R2  atomic configure: the call that validates the settings (dataclasses.replace
    with the caller's keyword arguments) dominates every store to self, and no
    call that may raise follows a store to self.
R3  read at send time: timeout, retries, credentials, context and the message
    processing model reach the sender / the MPM through attribute reads rooted at
    ``self`` in the calling frame (never a value captured at construction).
R4  family switch: when the credential type changes, an MPM built from the *new*
    credentials' identifier is installed; credential classes carry the MPM
    identifiers of the plug-ins (RFC 3411 msgProcessingModel numbers).
"""
from __future__ import annotations

import ast
from typing import Dict, List, Optional, Set, Tuple

from .. import rfc
from ..engine.context import Ctx, bind_call_args
from ..engine.exprs import attr_chain, is_log_call, norm
from ..engine.patterns import cfg_node_of, simulate, stmt_of
from ..engine.report import Report
from ..engine.resolve import NotConstant
from ..engine.universe import AnalysisError, ClassInfo, FuncInfo, ancestors, own_nodes


def self_stores(fn: FuncInfo) -> List[Tuple[str, ast.Assign]]:
    out = []
    for node in own_nodes(fn.node):
        targets = []
        if isinstance(node, ast.Assign):
            targets = node.targets
        elif isinstance(node, (ast.AugAssign, ast.AnnAssign)):
            targets = [node.target]
        for tgt in targets:
            for t in ast.walk(tgt):
                if isinstance(t, ast.Attribute) and isinstance(t.value, ast.Name) and t.value.id == "self" and isinstance(t.ctx, ast.Store):
                    out.append((t.attr, node))
    return out


def written_attrs(ctx: Ctx, fn: FuncInfo, seen: Optional[Set[str]] = None) -> Set[str]:
    """Attributes of self that *fn* may write, following self.method(...) calls."""
    seen = seen or set()
    if fn.key in seen:
        return set()
    seen.add(fn.key)
    out = {a for a, _ in self_stores(fn)}
    for node in own_nodes(fn.node):
        if isinstance(node, ast.Call) and isinstance(node.func, ast.Attribute) and isinstance(node.func.value, ast.Name) and node.func.value.id == "self":
            for callee in ctx.r.callees(fn, node):
                if isinstance(callee, FuncInfo) and callee.cls is not None:
                    out |= written_attrs(ctx, callee, seen)
        if isinstance(node, ast.Call) and isinstance(node.func, ast.Name) and node.func.id == "setattr" and node.args and norm(node.args[0]) == "self":
            out.add("*")
    return out


def run(ctx: Ctx, rep: Report) -> None:
    rep.rule("C18-R1", "everything the override step may write on the client is saved before and restored in a finally covering the yield", floor=3)
    rep.rule("C18-R2", "configure validates its settings before the first store to self and cannot fail after one", floor=1)
    rep.rule("C18-R3", "settings reach the sender and the message layer through attribute reads at send time", floor=5)
    rep.rule("C18-R7", "the retries value in force reaches the UDP sender and is honoured exactly: that many attempts, none more (shared with C13-R2)", floor=7)
    rep.rule("C18-R6", "the context engine id and name given to the message-processing model reach the scoped PDU of the request (shared with C05-R4)", floor=1)
    rep.rule("C18-R5", "requests issued inside an override block leave nothing behind: every store to state shared between requests is a justified, request-independent instance (shared with C14-R1)", floor=6)
    rep.rule("C18-R4", "a change of credential family installs the MPM of the new credentials", floor=3)
    rep.level = "proof"
    rep.assumptions += [
        "contextlib.contextmanager runs the code after `yield` exactly once when the block is left, normally or by exception",
        "ClientConfig is a frozen dataclass (checked): saved references cannot be mutated in place",
    ]
    client = ctx.client()
    # the override context manager: generator method of Client decorated with contextmanager
    recon: Optional[FuncInfo] = None
    for meth in client.methods.values():
        decos = [norm(d).split(".")[-1] for d in meth.node.decorator_list]
        if "contextmanager" in decos and any(isinstance(n, ast.Yield) for n in own_nodes(meth.node)):
            recon = meth
    if recon is None:
        raise AnalysisError("Client has no @contextmanager generator method (reconfigure vanished)")
    yields = [n for n in own_nodes(recon.node) if isinstance(n, ast.Yield)]
    site = recon.site()
    rep.check(len(yields) == 1, "C18-R1", site, "the context manager yields exactly once", f"{len(yields)} yields", key=f"{recon.key}|yield-count")
    y = yields[0]
    cover: Optional[ast.Try] = None
    for anc in ancestors(y):
        if isinstance(anc, ast.Try) and anc.finalbody and any(y in list(ast.walk(s)) for s in anc.body):
            cover = anc
            break
    if cover is None:
        rep.violated("C18-R1", site, "the yield is covered by a try/finally", "no enclosing try with a finally clause: an exception in the block skips the restore", key=f"{recon.key}|no-finally")
        return
    # restored attributes
    restored: Dict[str, ast.expr] = {}
    for stmt in cover.finalbody:
        if isinstance(stmt, ast.Assign):
            for tgt in stmt.targets:
                if isinstance(tgt, ast.Attribute) and isinstance(tgt.value, ast.Name) and tgt.value.id == "self":
                    restored[tgt.attr] = stmt.value
    # saved locals: assigned from self.<attr> before the try, at the top level of the function
    saved: Dict[str, str] = {}
    for stmt in recon.node.body:
        if stmt is cover:
            break
        if isinstance(stmt, ast.Assign) and len(stmt.targets) == 1 and isinstance(stmt.targets[0], ast.Name):
            chain = attr_chain(stmt.value)
            if chain and len(chain) == 2 and chain[0] == "self":
                saved[stmt.targets[0].id] = chain[1]
    defs = ctx.defs(recon)
    # what may be written inside the try (before and after the yield)
    written: Set[str] = set()
    for stmt in cover.body:
        for node in ast.walk(stmt):
            if isinstance(node, ast.Call) and isinstance(node.func, ast.Attribute) and isinstance(node.func.value, ast.Name) and node.func.value.id == "self":
                for callee in ctx.r.callees(recon, node):
                    if isinstance(callee, FuncInfo):
                        written |= written_attrs(ctx, callee)
            if isinstance(node, ast.Attribute) and isinstance(node.ctx, ast.Store) and isinstance(node.value, ast.Name) and node.value.id == "self":
                written.add(node.attr)
    rep.analysed["written_by_override"] = sorted(written)
    rep.analysed["restored"] = sorted(restored)
    if not written:
        rep.violated("C18-R1", site, "the override step applies the settings inside the try", "nothing is written inside the try block: the override has no effect", key=f"{recon.key}|no-override")
    for attr in sorted(written):
        val = restored.get(attr)
        ok = False
        detail = "not restored in the finally clause"
        if val is not None:
            if isinstance(val, ast.Name) and saved.get(val.id) == attr and defs.single(val.id) is not None:
                ok = True
                detail = f"restored from {val.id}, saved from self.{attr} before the try"
            else:
                detail = f"restored from {norm(val)}, which is not a local saved from self.{attr} before the try"
        rep.check(ok, "C18-R1", site, f"self.{attr} (written by the override) is saved before the try and restored in the finally", detail, key=f"{recon.key}|restore|{attr}")
    # stores before the try (outside protection)
    early = []
    for stmt in recon.node.body:
        if stmt is cover:
            break
        for node in ast.walk(stmt):
            if isinstance(node, ast.Call) and isinstance(node.func, ast.Attribute) and isinstance(node.func.value, ast.Name) and node.func.value.id == "self":
                for callee in ctx.r.callees(recon, node):
                    if isinstance(callee, FuncInfo) and written_attrs(ctx, callee):
                        early.append(norm(node))
    rep.check(not early, "C18-R1", site, "nothing modifies the client before the try/finally is entered", f"{early}", key=f"{recon.key}|write-before-try")
    # the dataclass is frozen
    cfg_cls = None
    init = client.methods.get("__init__")
    for cand in ctx.u.classes.values():
        if cand.module is client.module and cand.name == "ClientConfig":
            cfg_cls = cand
    if cfg_cls is not None:
        frozen = any("frozen=True" in norm(d) for d in cfg_cls.node.decorator_list)
        rep.check(frozen, "C18-R1", f"{cfg_cls.module.path}:{cfg_cls.node.lineno} (ClientConfig)", "the configuration object is immutable, so the saved reference is the saved state", key="ClientConfig|not-frozen")

    # ------------------------------------------------------------ R2
    conf: Optional[FuncInfo] = None
    for node in ast.walk(cover):
        if isinstance(node, ast.Call) and isinstance(node.func, ast.Attribute) and isinstance(node.func.value, ast.Name) and node.func.value.id == "self":
            for callee in ctx.r.callees(recon, node):
                if isinstance(callee, FuncInfo) and written_attrs(ctx, callee):
                    conf = callee
    if conf is None:
        raise AnalysisError("override step (configure) not found")
    ccfg = ctx.cfg(conf)
    stores = self_stores(conf)
    store_nodes = [cfg_node_of(ccfg, st) for _, st in stores]
    store_nodes = [n for n in store_nodes if n is not None]
    kwarg = conf.node.args.kwarg.arg if conf.node.args.kwarg else None
    validators = []
    for node in own_nodes(conf.node):
        if isinstance(node, ast.Call) and "ext:dataclasses.replace" in ctx.r.callee_names(conf, node):
            if any(kw.arg is None and isinstance(kw.value, ast.Name) and kw.value.id == kwarg for kw in node.keywords):
                n = cfg_node_of(ccfg, node)
                if n is not None:
                    validators.append(n)
    ok = bool(validators) and all(ccfg.must_pass(ccfg.entry, [sn], validators) for sn in store_nodes)
    rep.check(ok, "C18-R2", conf.site(), "replace(self.config, **kwargs) - which refuses unknown settings - precedes every store to self", f"validators at {[n.lineno for n in validators]}, stores at {[n.lineno for n in store_nodes]}", key=f"{conf.key}|store-before-validation")
    # after a store, no further call that may raise (except logging); a call on the RHS of the store itself is before the store
    bad = []
    for sn in store_nodes:
        reach = ccfg.reachable(sn)
        for nid in reach:
            if nid == sn.id:
                continue
            node = ccfg.nodes[nid]
            if node.ast is None or (isinstance(node.ast, ast.stmt) and is_log_call(node.ast)):
                continue
            calls = [c for c in ast.walk(node.ast) if isinstance(c, ast.Call)]
            calls = [c for c in calls if not (isinstance(c.func, ast.Name) and c.func.id in ("type", "isinstance", "len"))]
            # a store node's own RHS call happens before its store; but it happens after the *earlier* store
            if calls:
                bad.append(f"line {node.lineno}: {norm(calls[0])[:50]} after the store at line {sn.lineno}")
    rep.check(not bad, "C18-R2", conf.site(), "no call that may raise follows a store to self (a failing configure changes nothing)", "; ".join(bad[:3]), key=f"{conf.key}|call-after-store")

    # ------------------------------------------------------------ R3
    send = ctx.send_method()
    sender_attr = ctx.sender_attr()

    def rooted_at_self(expr: ast.AST) -> bool:
        chain = attr_chain(expr)
        return bool(chain) and chain[0] == "self" and len(chain) >= 2

    def prop_target(cls: ClassInfo, name: str) -> Optional[List[str]]:
        meth = cls.methods.get(name)
        if meth is None or not any(norm(d) == "property" for d in meth.node.decorator_list):
            return None
        rets = [n for n in own_nodes(meth.node) if isinstance(n, ast.Return) and n.value is not None]
        if len(rets) == 1:
            return attr_chain(rets[0].value)
        return None

    def reads_config(expr: ast.AST, field: str, fn: Optional[FuncInfo] = None, at: Optional[ast.AST] = None) -> bool:
        """
        expr is self.config.<field> or a property chain that resolves to it; a local that was bound to such a read
        counts when no suspension point lies between the binding and the use (nothing can reconfigure in between).
        """
        if fn is not None and at is not None:
            fdefs = ctx.defs(fn)
            roots = [n for n in ast.walk(expr) if isinstance(n, ast.Name) and n.id != "self"]
            for r in roots:
                d = fdefs.single(r.id)
                if d is None:
                    continue
                dline = getattr(stmt_of(d), "lineno", None) if stmt_of(d) is not None else None
                uline = getattr(at, "lineno", None)
                if dline is None or uline is None:
                    return False
                awaits_between = [n for n in own_nodes(fn.node) if isinstance(n, ast.Await) and dline < n.lineno < uline]
                if awaits_between:
                    return False
            expr = fdefs.expand(expr)
        chain = attr_chain(expr)
        if not chain or chain[0] != "self":
            return False
        cur = chain[1:]
        for _ in range(3):
            if cur[:1] == ["config"]:
                return field in cur[1:2] or (len(cur) > 2 and cur[1] == field)
            tgt = prop_target(client, cur[0])
            if tgt is None or tgt[0] != "self":
                return False
            cur = tgt[1:] + cur[1:]
        return False

    def closure_behind(fn_: FuncInfo, expr: Optional[ast.AST], depth: int = 0) -> Optional[FuncInfo]:
        """The nested function an expression denotes: a local def, a local / self attribute bound to one, or what a factory method returns."""
        if expr is None or depth > 4:
            return None
        if isinstance(expr, ast.Name):
            cur: Optional[FuncInfo] = fn_
            while cur is not None:
                if expr.id in cur.nested:
                    return cur.nested[expr.id]
                cur = cur.parent
            return closure_behind(fn_, ctx.defs(fn_).single(expr.id), depth + 1)
        if isinstance(expr, ast.Attribute) and isinstance(expr.value, ast.Name) and expr.value.id == "self":
            for n in own_nodes(fn_.node):
                if isinstance(n, ast.Assign) and any(isinstance(t, ast.Attribute) and norm(t) == norm(expr) for t in n.targets):
                    got = closure_behind(fn_, n.value, depth + 1)
                    if got is not None:
                        return got
            return None
        if isinstance(expr, ast.Call):
            from .common import bound_method_as_closure

            as_closure = bound_method_as_closure(ctx, fn_, expr)  # Cls(self, sender, ..) with __call__
            if as_closure is not None:
                return as_closure
            for callee in ctx.r.callees(fn_, expr):
                if isinstance(callee, FuncInfo) and not callee.module.external:
                    for r in own_nodes(callee.node):
                        if isinstance(r, ast.Return) and r.value is not None:
                            got = closure_behind(callee, r.value, depth + 1)
                            if got is not None:
                                return got
        return None

    init = client.methods["__init__"]
    handler_fn = init.nested.get("handler")
    if handler_fn is None:
        # what the message-processing model is given as its transport handler
        for n in own_nodes(init.node):
            if isinstance(n, ast.Call) and ctx.r.call_resolves_to(init, n, "puresnmp.plugins.mpm:create") and len(n.args) >= 2:
                handler_fn = handler_fn or closure_behind(init, n.args[1])

    def is_sender_call(fn_: FuncInfo, n: ast.AST) -> bool:
        if not isinstance(n, ast.Call):
            return False
        if (isinstance(n.func, ast.Attribute) and n.func.attr == sender_attr) or (isinstance(n.func, ast.Name) and n.func.id == "sender"):
            return True
        if isinstance(n.func, ast.Name):
            # a captured alias of the sender (send = self.sender in the enclosing function)
            cur: Optional[FuncInfo] = fn_
            while cur is not None:
                d = ctx.defs(cur)
                vals = [d.single(n.func.id)] + [v.elts[i] for v, i, _ in d.unpack.get(n.func.id, []) if isinstance(v, ast.Tuple) and isinstance(i, int) and i < len(v.elts)]
                for v in vals:
                    if v is not None and (norm(v) in (f"self.{sender_attr}", "sender")):
                        return True
                cur = cur.parent
        return False

    for fn, what in [(send, "sender-calling method"), (handler_fn, "transport handler closure")]:
        if fn is None:
            rep.undecided("C18-R3", client.methods["__init__"].site(), "transport handler closure exists", "closure not found")
            continue
        calls = [n for n in own_nodes(fn.node) if is_sender_call(fn, n)]
        for call in calls:
            kws = {kw.arg: kw.value for kw in call.keywords}
            for field in ("timeout", "retries"):
                val = kws.get(field)
                ok = val is not None and reads_config(val, field, fn, call)
                rep.check(ok, "C18-R3", fn.site(call), f"{what}: {field} given to the sender is read from self.config.{field} at call time", f"{field} = {norm(val) if val is not None else None}", key=f"{fn.key}|{field}-captured")
    # message layer
    for node in own_nodes(send.node):
        if isinstance(node, ast.Call) and isinstance(node.func, ast.Attribute) and node.func.attr in ("encode", "decode") and rooted_at_self(node.func.value):
            recv = attr_chain(node.func.value)
            rep.check(recv == ["self", "mpm"], "C18-R3", send.site(node), f"the message-processing model used by {node.func.attr} is read from self.mpm at send time", f"{norm(node.func.value)}", key=f"{send.key}|mpm-captured")
            creds = [a for a in node.args if reads_config(a, "credentials", send, node)]
            rep.check(len(creds) == 1, "C18-R3", send.site(node), f"{node.func.attr} is given the credentials currently configured (self.config.credentials)", f"args: {[norm(a) for a in node.args]}", key=f"{send.key}|credentials-captured|{node.func.attr}")
            if node.func.attr == "encode":
                ctxargs = [a for a in node.args if reads_config(a, "context", send, node)]
                rep.check(len(ctxargs) == 2, "C18-R3", send.site(node), "encode is given the context currently configured (engine id and name from self.config.context)", f"args: {[norm(a) for a in node.args]}", key=f"{send.key}|context-captured")

    # ------------------------------------------------------------ R4
    cdefs = ctx.defs(conf)
    mpm_factory = "puresnmp.plugins.mpm:create"
    creates = [n for n in own_nodes(conf.node) if isinstance(n, ast.Call) and ctx.r.call_resolves_to(conf, n, mpm_factory)]

    def new_creds(expr: ast.AST) -> bool:
        """The credentials being configured: kwargs['credentials'] or <replace(self.config, **kwargs)>.credentials."""
        txt = norm(cdefs.expand(expr))
        if f"{kwarg}['credentials']" in txt or f'{kwarg}["credentials"]' in txt or f"{kwarg}.get('credentials')" in txt:
            return True
        return f"replace(self.config, **{kwarg}).credentials" in txt

    def switch_env(expr: ast.expr) -> Optional[bool]:
        expr = cdefs.expand(expr)  # type: ignore[assignment]
        if isinstance(expr, ast.Compare) and len(expr.ops) == 1:
            txt = norm(expr)
            if isinstance(expr.ops[0], ast.In) and "credentials" in norm(expr.left) and norm(expr.comparators[0]) == kwarg:
                return True
            if "type(" in txt and "credentials" in txt:
                if isinstance(expr.ops[0], (ast.NotEq, ast.IsNot)):
                    return True
                if isinstance(expr.ops[0], (ast.Eq, ast.Is)):
                    return False
        if isinstance(expr, ast.Call) and isinstance(expr.func, ast.Name) and expr.func.id == "isinstance":
            return None
        return None

    def stored_values(stmt: ast.AST, attr: str) -> List[ast.AST]:
        """Values assigned to self.<attr> by a statement (also element-wise through tuple targets)."""
        out: List[ast.AST] = []
        if not isinstance(stmt, ast.Assign):
            return out
        for tgt in stmt.targets:
            if isinstance(tgt, ast.Attribute) and tgt.attr == attr and norm(tgt.value) == "self":
                out.append(stmt.value)
            elif isinstance(tgt, (ast.Tuple, ast.List)) and isinstance(stmt.value, (ast.Tuple, ast.List)) and len(tgt.elts) == len(stmt.value.elts):
                for t, v in zip(tgt.elts, stmt.value.elts):
                    if isinstance(t, ast.Attribute) and t.attr == attr and norm(t.value) == "self":
                        out.append(v)
        return out

    def value_on_trail(trail, upto: int, expr: ast.AST, depth: int = 0) -> ast.AST:
        """The definition of a local that is in force at position *upto* of an execution trail."""
        if not isinstance(expr, ast.Name) or depth > 4:
            return expr
        for k in range(upto - 1, -1, -1):
            st = trail[k].ast
            if isinstance(st, ast.Assign):
                for tgt in st.targets:
                    if isinstance(tgt, ast.Name) and tgt.id == expr.id:
                        return value_on_trail(trail, k, st.value, depth + 1)
                    if isinstance(tgt, (ast.Tuple, ast.List)) and isinstance(st.value, (ast.Tuple, ast.List)) and len(tgt.elts) == len(st.value.elts):
                        for t, v in zip(tgt.elts, st.value.elts):
                            if isinstance(t, ast.Name) and t.id == expr.id:
                                return value_on_trail(trail, k, v, depth + 1)
        return expr

    outs = [o for o in simulate(ccfg, switch_env) if o.kind != "raise"]  # a refused call configures nothing (C18-R2)
    good = bool(outs)
    for o in outs:
        hit = False
        for pos, n in enumerate(o.trail):
            for val in stored_values(n.ast, "mpm"):
                val = value_on_trail(o.trail, pos, val)
                a0 = ctx.xexpand(conf, value_on_trail(o.trail, pos, val.args[0]), depth=2) if isinstance(val, ast.Call) and val.args else None  # through a local / a guard helper that hands back <credentials>.mpm
                if isinstance(val, ast.Call) and val in creates and a0 is not None and new_creds(a0) and norm(a0).endswith(".mpm"):
                    hit = True
                else:
                    hit = False  # the last store decides
        good = good and hit
    rep.check(good, "C18-R4", conf.site(), "credential type changes: self.mpm is replaced by mpm.create(<new credentials>.mpm, ...) on every path", f"outcomes: {outs}", key=f"{conf.key}|family-switch")
    for call in creates:
        b = bind_call_args(call, ctx.fn(mpm_factory).params, skip_self=False)
        th = b.get("transport_handler")
        rep.check(th is not None and attr_chain(th) == ["self", "transport_handler"], "C18-R4", conf.site(call), "the new MPM talks through this client's transport handler", f"{norm(th) if th is not None else None}", key=f"{conf.key}|mpm-handler")
    # credential classes carry the plug-in identifiers
    cred_base = ctx.u.cls("puresnmp.credentials:Credentials")
    plugin_ids = {ctx.r.plugin_identifier(m) for m in ctx.r.plugin_modules("puresnmp_plugins.mpm")}
    want = {"V1": 0, "V2C": 1, "V3": 3}
    for cls in ctx.r.subclasses(cred_base):
        ident = credential_mpm(ctx, cls)
        ok = cls.name in want and ident == want[cls.name] and ident in plugin_ids and ident in rfc.VERSION_BY_MPM
        rep.check(ok if cls.name in want else None, "C18-R4", f"{cls.module.path}:{cls.node.lineno} ({cls.name})", f"{cls.name} credentials select message-processing model {want.get(cls.name)} (RFC 3411) which exists as a plug-in", f"mpm = {ident}; plug-ins: {sorted(i for i in plugin_ids if i is not None)}", key=f"credentials|{cls.name}|mpm-id")
    rep.adopt_rules(ctx.sub_run("c14", rep), "C18-R5", ["C14-R1"])
    # a retries / timeout override means what it says at the sender: exactly that many datagrams, then Timeout
    rep.adopt_rules(ctx.sub_run("c13", rep), "C18-R7", ["C13-R2"])
    # the (possibly overridden) context handed to the message-processing model is what the scoped PDU carries
    rep.adopt_rules(ctx.sub_run("c05", rep), "C18-R6", ["C05-R4"], containing="scoped PDU")


def credential_mpm(ctx: Ctx, cls: ClassInfo) -> Optional[int]:
    """The constant assigned to self.mpm when constructing *cls* (last store wins; super().__init__(c) binds Credentials.mpm)."""
    init = cls.methods.get("__init__")
    if init is None:
        return None
    value: Optional[int] = None
    for stmt in init.node.body:
        for node in ast.walk(stmt):
            if isinstance(node, ast.Call) and isinstance(node.func, ast.Attribute) and node.func.attr == "__init__" and isinstance(node.func.value, ast.Call) and norm(node.func.value.func) == "super":
                bases = ctx.r.mro(cls)[1:]
                for base in bases:
                    if "__init__" in base.methods:
                        if base.name == "Credentials":
                            first = node.args[0] if node.args else next((kw.value for kw in node.keywords if kw.arg == base.methods["__init__"].params[1]), None)
                            if first is not None:
                                try:
                                    value = ctx.r.const(init.module, first)
                                except NotConstant:
                                    value = None
                        else:
                            value = credential_mpm(ctx, base)
                        break
            if isinstance(node, ast.Assign) and any(isinstance(t, ast.Attribute) and t.attr == "mpm" and norm(t.value) == "self" for t in node.targets):
                try:
                    value = ctx.r.const(init.module, node.value)
                except NotConstant:
                    value = None
    return value
