"""
C19 - registered trap listeners receive every matching notification, with its origin.

R1  wire-schema conformance of the trap decode: a kind evaluation of the decode
    closure against the RFC 1157/1901/3412 message schema (SEQUENCE { version
    INTEGER, ... }) - every subscript, unpack and attribute on the decoded
    datagram must be valid for its kind (casts are ignored); the identifier given
    to the message-processing factory is the integer of the version field.
R2  origin: the trap's source is assigned from the datagram's origin on every
    path to the callback; the bytes decoded are the datagram's.
R3  once: one scheduling of the callback per invocation, after a successful
    decode, with the decoded trap as argument.
R4  the receiver protocol forwards every datagram with its origin and never
    closes its transport; listen() installs it with the caller's callback.
R5  community refusal runs through the community message-processing model
    (every path of its decode passes the security model's incoming check);
    the pythonic trap view reads origin / uptime / trap OID / payload from the
    right places.
"""
from __future__ import annotations

import ast
from typing import Any, Dict, List, Optional, Tuple

from .. import rfc
from ..engine.context import Ctx, bind_call_args
from ..engine.exprs import attr_chain, norm, strip_casts
from ..engine.patterns import cfg_node_of, stmt_of
from ..engine.report import Report
from ..engine.universe import AnalysisError, ClassInfo, FuncInfo, ancestors, own_nodes
from .common import mpm_class, own_method

MSG, INT, PYINT, FIELD, BYTES, OTHER = "message-sequence", "x690-Integer", "python-int", "message-field", "bytes", "other"


def run(ctx: Ctx, rep: Report) -> None:
    rep.rule("C19-R1", "every access on the decoded datagram is valid for the SNMP message schema; the MPM is selected by the version field", floor=2)
    rep.rule("C19-R2", "the trap's source is the datagram's origin on every path to the callback; the datagram's bytes are what is decoded", floor=2)
    rep.rule("C19-R3", "the callback is scheduled exactly once, after a successful decode, with the decoded trap", floor=1)
    rep.rule("C19-R4", "the receiver protocol forwards every datagram with its origin and never closes the transport", floor=3)
    rep.rule("C19-R7", "only decoded notification PDUs reach the callback: the lazy PDU is evaluated and its class checked before the callback is scheduled", floor=1)
    rep.rule("C19-R6", "the trap's bindings are read from the datagram in the order and at the positions the encoders and the RFCs use (shared with C06-R3)", floor=5)
    rep.rule("C19-R5", "community check through the community MPM; pythonic trap view reads the right bindings", floor=5)
    rep.assumptions += [
        "UDP delivery and asyncio's handling of an exception raised inside datagram_received (logged, listener keeps running) are not analysed",
    ]
    mod = ctx.u.module("puresnmp.api.raw")
    got = ctx.r.resolve_name(ctx.u.module("puresnmp.api.raw"), "register_trap_callback")
    if got is None or got.kind != "func":
        raise AnalysisError("register_trap_callback vanished")
    reg: FuncInfo = got.target
    # the closure handed to listen() as callback
    listen_calls = [n for n in own_nodes(reg.node) if isinstance(n, ast.Call) and ctx.r.call_resolves_to(reg, n, "puresnmp.transport:listen")]
    if len(listen_calls) != 1:
        raise AnalysisError("register_trap_callback: call of transport.listen not found")
    lb = bind_call_args(listen_calls[0], ctx.fn("puresnmp.transport:listen").params, skip_self=False)
    cb = lb.get("callback")
    dec = reg.nested.get(cb.id) if isinstance(cb, ast.Name) else None
    if dec is None and cb is not None:
        # a callable object built here (`decode = _TrapDecoder(callback, credentials)`): its __call__ as a closure over
        # the constructor arguments
        from .common import bound_method_as_closure

        built = ctx.defs(reg).single(cb.id) if isinstance(cb, ast.Name) else cb
        dec = bound_method_as_closure(ctx, reg, built) if built is not None else None
    if dec is None:
        raise AnalysisError("register_trap_callback: the datagram callback given to listen() is not a local closure")
    # a thin wrapper (counters, logging) around the closure that does the work: follow it when every normal path of the
    # wrapper hands its datagram to that closure
    for _ in range(2):
        has_create = any(isinstance(n, ast.Call) and ctx.r.call_resolves_to(dec, n, "puresnmp.plugins.mpm:create") for n in own_nodes(dec.node))
        if has_create or not dec.params:
            break
        inner_calls = [n for n in own_nodes(dec.node) if isinstance(n, ast.Call) and isinstance(n.func, ast.Name) and n.func.id in reg.nested and n.func.id != dec.name and len(n.args) == 1 and isinstance(n.args[0], ast.Name) and n.args[0].id == dec.params[0]]
        targets = {n.func.id for n in inner_calls}
        if len(targets) != 1:
            break
        wcfg = ctx.cfg(dec)
        cnodes = [cfg_node_of(wcfg, n) for n in inner_calls]
        cnodes = [n for n in cnodes if n is not None]
        if not cnodes or not wcfg.must_pass(wcfg.entry, [wcfg.exit], cnodes):
            break
        dec = reg.nested[next(iter(targets))]
    dec = ctx.inlined(dec)  # a local helper of the listener (dispatch(trap)) that calls the user's callback is looked into
    packet = dec.params[0]
    user_cb = reg.params[0]
    creds_param = "credentials" if "credentials" in reg.params else None
    defs = ctx.defs(dec)
    cfg = ctx.cfg(dec)

    # ------------------------------------------------------------ R1 kinds
    kinds: Dict[str, str] = {}
    problems: List[Tuple[ast.AST, str]] = []

    def kind(expr: ast.AST) -> str:
        expr = strip_casts(expr)
        if isinstance(expr, ast.Name):
            return kinds.get(expr.id, OTHER)
        if isinstance(expr, ast.Attribute):
            base = kind(expr.value)
            chain = attr_chain(expr)
            if chain == [packet, "data"]:
                return BYTES
            if base == INT and expr.attr in ("value", "pyvalue"):
                return PYINT
            if base == PYINT:
                problems.append((expr, f"attribute .{expr.attr} on a python int"))
                return OTHER
            if base == MSG and expr.attr in ("value", "pyvalue"):
                return MSG
            return OTHER
        if isinstance(expr, ast.Call):
            f = expr.func
            if isinstance(f, ast.Attribute) and f.attr == "pythonize" and kind(f.value) == INT:
                return PYINT
            if isinstance(f, ast.Attribute) and f.attr == "decode" and expr.args and kind(expr.args[0]) == BYTES:
                cls = ctx.r.resolve_class(dec.module, f.value)
                if cls is not None and cls.key == "x690.types:Sequence":
                    return MSG
            if ctx.r.call_resolves_to(dec, expr, "x690.types:decode") and expr.args and kind(expr.args[0]) == BYTES:
                return "decode-tuple"
            if isinstance(f, ast.Name) and f.id == "int" and expr.args and kind(expr.args[0]) in (PYINT,):
                return PYINT
            return OTHER
        if isinstance(expr, ast.Subscript):
            base = kind(expr.value)
            idx = expr.slice.value if isinstance(expr.slice, ast.Constant) else None
            if base == "decode-tuple":
                return MSG if idx == 0 else OTHER
            if base == MSG:
                if idx == 0:
                    return INT
                return FIELD
            if base in (INT, PYINT):
                problems.append((expr, f"subscript [{norm(expr.slice)}] on the {base} of the version field (an INTEGER is not a sequence)"))
                return OTHER
            return OTHER
        return OTHER

    for node in sorted((n for n in own_nodes(dec.node) if isinstance(n, (ast.Assign, ast.AnnAssign))), key=lambda n: n.lineno):
        value = node.value
        if value is None:
            continue
        targets = node.targets if isinstance(node, ast.Assign) else [node.target]
        k = kind(value)
        for tgt in targets:
            if isinstance(tgt, ast.Name):
                kinds[tgt.id] = k
            elif isinstance(tgt, (ast.Tuple, ast.List)):
                if k == MSG:
                    for i, elt in enumerate(tgt.elts):
                        if isinstance(elt, ast.Name):
                            kinds[elt.id] = INT if i == 0 else FIELD
                elif k == "decode-tuple":
                    for i, elt in enumerate(tgt.elts):
                        if isinstance(elt, ast.Name):
                            kinds[elt.id] = MSG if i == 0 else OTHER
                elif k in (INT, PYINT):
                    problems.append((node, f"unpacking the {k} of the version field"))
    # evaluate every expression once more so that uses inside calls are visited
    for node in own_nodes(dec.node):
        if isinstance(node, (ast.Subscript, ast.Attribute)):
            kind(node)
    seen = set()
    uniq = []
    for n, msg in problems:
        if (getattr(n, "lineno", 0), msg) not in seen:
            seen.add((getattr(n, "lineno", 0), msg))
            uniq.append((n, msg))
    rep.check(not uniq, "C19-R1", dec.site(), "every access on the decoded datagram matches SEQUENCE { version INTEGER, ... }", "; ".join(f"line {getattr(n, 'lineno', '?')}: {m}" for n, m in uniq), key=f"{dec.key}|schema-violation")
    creates = [n for n in own_nodes(dec.node) if isinstance(n, ast.Call) and ctx.r.call_resolves_to(dec, n, "puresnmp.plugins.mpm:create")]
    if len(creates) != 1:
        rep.undecided("C19-R1", dec.site(), "one message-processing model is created per datagram", f"{len(creates)} create calls")
        return
    ident = bind_call_args(creates[0], ctx.fn("puresnmp.plugins.mpm:create").params, skip_self=False).get("identifier")
    k = kind(ident) if ident is not None else OTHER
    plugin_ids = sorted(i for i in (ctx.r.plugin_identifier(m) for m in ctx.r.plugin_modules("puresnmp_plugins.mpm")) if i in rfc.VERSION_BY_MPM)
    table_ok = all(rfc.VERSION_BY_MPM[i] == i for i in plugin_ids)
    rep.check(k == PYINT and table_ok, "C19-R1", dec.site(creates[0]), "the message-processing model is selected by the integer value of the version field (version == MPM identifier for v1, v2c, v3)", f"identifier argument `{norm(ident) if ident is not None else None}` has kind {k}", key=f"{dec.key}|mpm-selector")

    # the model that decodes this datagram was created from this datagram's version (never one kept from an earlier datagram)
    from .walkmodel import assigned_value, reaching_defs

    def is_create(expr: Optional[ast.AST]) -> bool:
        """The expression is (or, through a small helper, returns) the model created from this datagram's version."""
        if expr is None:
            return False
        expr = strip_casts(expr)
        if expr in creates:
            return True
        if isinstance(expr, ast.Call):
            if ctx.r.call_resolves_to(dec, expr, "puresnmp.plugins.mpm:create"):
                return True
            inl = ctx.xexpand(dec, expr, depth=1)
            return isinstance(inl, ast.Call) and ctx.r.call_resolves_to(dec, inl, "puresnmp.plugins.mpm:create")
        return False

    # the call that hands the datagram to a message-processing model: <model>.decode(<datagram bytes>, ...)
    mproc_decodes = []
    for node in own_nodes(dec.node):
        if not (isinstance(node, ast.Call) and isinstance(node.func, ast.Attribute) and node.func.attr == "decode"):
            continue
        if ctx.r.resolve_class(dec.module, node.func.value) is not None:
            continue  # Sequence.decode(...) and other class-level decoders
        callees = [c for c in ctx.r.callees(dec, node) if isinstance(c, FuncInfo) and c.module.name.startswith("puresnmp_plugins.mpm")]
        takes_datagram = bool(node.args) and kind(node.args[0]) == BYTES
        if callees or takes_datagram:
            mproc_decodes.append(node)
    for node in mproc_decodes:
        recv_expr = strip_casts(node.func.value)
        if isinstance(recv_expr, ast.Name):
            recv = recv_expr.id
            cnode = cfg_node_of(cfg, node)
            rd = reaching_defs(cfg, recv, cnode) if cnode is not None else []
            shared = any(isinstance(n, (ast.Nonlocal, ast.Global)) and recv in n.names for n in own_nodes(dec.node))
            fresh = bool(rd) and all(is_create(assigned_value(d)) for d in rd) and not shared and recv not in reg.params
        else:
            fresh = is_create(recv_expr)
        rep.check(
            fresh,
            "C19-R1",
            dec.site(node),
            "the message-processing model used for a datagram is created from that datagram's version on every path (a listener sees v1, v2c and v3 senders)",
            "a model kept from an earlier datagram may be reused: a first datagram of another version pins the wrong model for the listener's lifetime" if not fresh else "",
            key=f"{dec.key}|mpm-reused",
        )

    # ------------------------------------------------------------ R2 / R3
    if len(mproc_decodes) != 1:
        rep.undecided("C19-R2", dec.site(), "the datagram is decoded once by the message-processing model", f"{len(mproc_decodes)} decode calls")
        return
    md = mproc_decodes[0]
    mdb = bind_call_args(md, ["self", "whole_msg", "credentials"])
    okd = mdb.get("whole_msg") is not None and attr_chain(mdb["whole_msg"]) == [packet, "data"]
    okc = mdb.get("credentials") is not None and isinstance(mdb["credentials"], ast.Name) and mdb["credentials"].id == creds_param
    rep.check(okd and okc, "C19-R2", dec.site(md), "the message-processing model decodes the datagram's bytes with the registered credentials", f"{norm(md)}", key=f"{dec.key}|decode-args")
    trap_stmt = stmt_of(md)
    trap_name = trap_stmt.targets[0].id if isinstance(trap_stmt, ast.Assign) and isinstance(trap_stmt.targets[0], ast.Name) else None
    scheds = []
    for node in own_nodes(dec.node):
        if isinstance(node, ast.Call) and isinstance(node.func, ast.Name) and node.func.id == user_cb:
            scheds.append(node)
    ok_once = len(scheds) == 1 and not any(isinstance(a, (ast.For, ast.While, ast.AsyncFor)) for a in ancestors(scheds[0]))
    wrapper_ok = False
    if scheds:
        par = getattr(scheds[0], "_parent", None)
        schedulers = ("asyncio.ensure_future", "ensure_future", "asyncio.create_task", "loop.create_task", "asyncio.run_coroutine_threadsafe")
        wrapper_ok = isinstance(par, ast.Call) and norm(par.func) in schedulers

        def is_scheduler(n: ast.AST) -> bool:
            return isinstance(n, ast.Call) and (norm(n.func) in schedulers or (isinstance(n.func, ast.Attribute) and n.func.attr in ("create_task", "ensure_future", "run_coroutine_threadsafe")))

        if not wrapper_ok and isinstance(par, ast.Assign) and len(par.targets) == 1 and isinstance(par.targets[0], ast.Name):
            # outcome = callback(trap); then every path hands it to a scheduler (create_task for coroutines, ensure_future otherwise)
            oname = par.targets[0].id
            snodes2 = [cfg_node_of(cfg, n) for n in own_nodes(dec.node) if is_scheduler(n) and n.args and isinstance(n.args[0], ast.Name) and n.args[0].id == oname]
            snodes2 = [n for n in snodes2 if n is not None]
            cnode = cfg_node_of(cfg, scheds[0])
            single_def = len(ctx.defs(dec).all_values(oname)) == 1
            wrapper_ok = bool(snodes2) and cnode is not None and single_def and cfg.must_pass(cnode, [cfg.exit], snodes2)
        if not wrapper_ok and isinstance(par, ast.Call):
            # handed to a helper of the repository that schedules its argument on every path
            for helper in [c for c in ctx.r.callees(dec, par) if isinstance(c, FuncInfo) and not c.module.external]:
                hb = bind_call_args(par, helper.params, skip_self=helper.cls is not None)
                pname = next((p for p, a in hb.items() if a is scheds[0]), None)
                if pname is None:
                    continue
                hcfg = ctx.cfg(helper)
                snodes = []
                for n in own_nodes(helper.node):
                    if isinstance(n, ast.Call) and (norm(n.func) in schedulers or (isinstance(n.func, ast.Attribute) and n.func.attr in ("create_task", "ensure_future"))) and any(isinstance(a, ast.Name) and a.id == pname for a in n.args):
                        cn = cfg_node_of(hcfg, n)
                        if cn is not None:
                            snodes.append(cn)
                wrapper_ok = bool(snodes) and hcfg.must_pass(hcfg.entry, [hcfg.exit], snodes)
    # ---- R7: what reaches the callback was decoded (PDUs decode lazily) and is a notification
    if scheds and trap_name is not None:
        dcfg = ctx.cfg(dec)
        snode = cfg_node_of(dcfg, scheds[0])
        forcing = []
        for cn in dcfg.nodes:
            if cn.ast is None or cn is snode:
                continue
            for sub in ast.walk(cn.ast):
                if isinstance(sub, ast.Attribute) and sub.attr in ("value", "pyvalue") and isinstance(sub.value, ast.Name) and sub.value.id == trap_name and isinstance(sub.ctx, ast.Load):
                    forcing.append(cn)
        forced = snode is not None and bool(forcing) and dcfg.must_pass(dcfg.entry, [snode], forcing)
        rep.check(forced, "C19-R7", dec.site(scheds[0]), "the lazily decoded PDU is evaluated (its .value read) on every path before the callback is scheduled: malformed content raises here instead of being delivered", "" if forced else f"no read of {trap_name}.value dominates the scheduling of the callback", key=f"{dec.key}|lazy-pdu-delivered")
        notif = [c for c in (ctx.u.classes.get("puresnmp.pdu:Trap"), ctx.u.classes.get("puresnmp.pdu:InformRequest")) if c is not None]

        def not_a_notification(expr: ast.expr) -> Optional[bool]:
            if isinstance(expr, ast.Call) and isinstance(expr.func, ast.Name) and expr.func.id == "isinstance" and len(expr.args) == 2 and isinstance(expr.args[0], ast.Name) and expr.args[0].id == trap_name:
                classes = expr.args[1].elts if isinstance(expr.args[1], ast.Tuple) else [expr.args[1]]
                resolved = [ctx.r.resolve_class(dec.module, c) for c in classes]
                if all(r is not None and any(ctx.r.is_subclass(r, n_) for n_ in notif) for r in resolved):
                    return False  # the decoded object is something else (a GetResponse, a bare INTEGER)
            return None

        from ..engine.patterns import simulate as _sim

        start = cfg_node_of(dcfg, md)
        outs_ = _sim(dcfg, not_a_notification, start=start) if start is not None else []
        tested = any(isinstance(n, ast.Call) and not_a_notification(n) is False for n in own_nodes(dec.node))
        refused = tested and bool(outs_) and all(o.kind == "raise" for o in outs_)
        rep.check(refused, "C19-R7", dec.site(md), "an object that is not a notification PDU (Trap / InformRequest) is refused, never handed to the callback", "" if refused else ("no isinstance test of the decoded object against the notification classes" if not tested else f"outcomes: {outs_}"[:200]), key=f"{dec.key}|non-notification-delivered")
    rep.check(ok_once and wrapper_ok, "C19-R3", dec.site(scheds[0]) if scheds else dec.site(), "the user callback is scheduled on the loop exactly once per datagram", f"{[norm(s) for s in scheds]}", key=f"{dec.key}|callback-count")
    if not scheds or trap_name is None:
        rep.violated("C19-R3", dec.site(), "the callback receives the decoded trap", "no callback call / decoded trap not bound to a name", key=f"{dec.key}|callback-arg")
        return
    sched = scheds[0]
    arg_ok = len(sched.args) == 1 and isinstance(strip_casts(sched.args[0]), ast.Name) and strip_casts(sched.args[0]).id == trap_name
    snode, dnode = cfg_node_of(cfg, sched), cfg_node_of(cfg, md)
    after = snode is not None and dnode is not None and cfg.must_pass(cfg.entry, [snode], [dnode])
    rep.check(arg_ok and after, "C19-R3", dec.site(sched), "the callback is given the trap decoded from this datagram, after the decode succeeded", f"{norm(sched)}", key=f"{dec.key}|callback-arg")
    # source assignment
    src_nodes = []
    for node in own_nodes(dec.node):
        if isinstance(node, ast.Assign):
            for tgt in node.targets:
                if isinstance(tgt, ast.Attribute) and tgt.attr == "source" and isinstance(tgt.value, ast.Name) and tgt.value.id == trap_name:
                    if attr_chain(strip_casts(node.value)) == [packet, "info"]:
                        n = cfg_node_of(cfg, node)
                        if n is not None:
                            src_nodes.append(n)
    ok_src = bool(src_nodes) and snode is not None and cfg.must_pass(cfg.entry, [snode], src_nodes)
    rep.check(ok_src, "C19-R2", dec.site(), "trap.source = <datagram origin> is executed on every path to the callback", "no assignment of the datagram's info to the trap's source before the callback" if not src_nodes else "", key=f"{dec.key}|source-not-set")
    trap_cls = ctx.u.cls("puresnmp.pdu:Trap")
    init = trap_cls.methods.get("__init__")
    has_attr = init is not None and any(isinstance(n, ast.Attribute) and n.attr == "source" and isinstance(n.ctx, ast.Store) for n in ast.walk(init.node))
    rep.check(has_attr, "C19-R2", f"{trap_cls.module.path}:{trap_cls.node.lineno} (Trap)", "Trap instances carry a source attribute", key="Trap|source-attr")

    # ------------------------------------------------------------ R4
    listen = ctx.fn("puresnmp.transport:listen")
    proto: Optional[ClassInfo] = None
    for node in own_nodes(listen.node):
        if isinstance(node, ast.Call) and isinstance(node.func, ast.Attribute) and node.func.attr == "create_datagram_endpoint" and node.args:
            fac = node.args[0]
            if isinstance(fac, ast.Lambda) and isinstance(fac.body, ast.Call):
                proto = ctx.r.resolve_class(listen.module, fac.body.func)
                okf = len(fac.body.args) == 1 and norm(fac.body.args[0]) == "callback"
                rep.check(okf, "C19-R4", listen.site(node), "listen() installs the receiver protocol with the caller's callback", norm(fac.body), key=f"{listen.key}|callback-arg")
                kws = {kw.arg: kw.value for kw in node.keywords}
                la = kws.get("local_addr")
                okl = isinstance(la, ast.Tuple) and [norm(e) for e in la.elts] == [listen.params[0], listen.params[1]]
                rep.check(okl, "C19-R4", listen.site(node), "listen() binds the requested address and port", norm(la) if la is not None else "", key=f"{listen.key}|bind-addr")
    if proto is None:
        raise AnalysisError("listen(): receiver protocol not recognised")
    dr = proto.methods.get("datagram_received")
    if dr is None:
        rep.violated("C19-R4", f"{proto.module.path} ({proto.name})", "the receiver handles datagrams", "no datagram_received", key=f"{proto.key}|no-datagram-received")
    else:
        dcfg = ctx.cfg(dr)
        cb_attr = None
        pinit = proto.methods.get("__init__")
        if pinit is not None:
            for node in own_nodes(pinit.node):
                if isinstance(node, ast.Assign) and isinstance(node.value, ast.Name) and node.value.id == pinit.params[1]:
                    for tgt in node.targets:
                        if isinstance(tgt, ast.Attribute):
                            cb_attr = tgt.attr
        calls = [n for n in own_nodes(dr.node) if isinstance(n, ast.Call) and isinstance(n.func, ast.Attribute) and n.func.attr == cb_attr and norm(n.func.value) == "self"]
        nodes = [cfg_node_of(dcfg, c) for c in calls]
        nodes = [n for n in nodes if n is not None]
        always = bool(nodes) and dcfg.must_pass(dcfg.entry, [dcfg.exit], nodes)
        rep.check(always and len(calls) == 1, "C19-R4", dr.site(), "every datagram is forwarded to the callback exactly once (unconditionally)", f"{[norm(c) for c in calls]}", key=f"{dr.key}|forward")
        if calls:
            arg = calls[0].args[0] if calls[0].args else None
            dparam, aparam = dr.params[1], dr.params[2]
            good = False
            if isinstance(arg, ast.Call) and len(arg.args) == 2 and norm(arg.args[0]) == dparam and isinstance(arg.args[1], ast.Call):
                info = arg.args[1]
                good = [norm(a) for a in info.args] == [f"{aparam}[0]", f"{aparam}[1]"] and ctx.r.resolve_class(dr.module, info.func) is not None and ctx.r.resolve_class(dr.module, info.func).name == "SocketInfo"
            rep.check(good, "C19-R4", dr.site(calls[0]), "the callback receives the unmodified datagram and the sender's (address, port)", norm(arg) if arg is not None else "", key=f"{dr.key}|forward-args")
    closes = []
    for meth in proto.methods.values():
        for node in own_nodes(meth.node):
            if isinstance(node, ast.Call) and isinstance(node.func, ast.Attribute) and node.func.attr in ("close", "abort"):
                closes.append(f"{meth.name}: {norm(node)}")
    rep.check(not closes, "C19-R4", f"{proto.module.path} ({proto.name})", "the receiver never closes its transport (it keeps listening after any datagram)", f"{closes}", key=f"{proto.key}|closes-transport")

    # ------------------------------------------------------------ R5
    for ident in (0, 1):
        cls = mpm_class(ctx, ident)
        mdec = own_method(ctx, cls, "decode")
        mcfg = ctx.cfg(mdec)
        pcalls = [n for n in own_nodes(mdec.node) if isinstance(n, ast.Call) and isinstance(n.func, ast.Attribute) and n.func.attr == "process_incoming_message"]
        pnodes = [cfg_node_of(mcfg, c) for c in pcalls]
        pnodes = [n for n in pnodes if n is not None]
        okp = bool(pnodes) and mcfg.must_pass(mcfg.entry, [mcfg.exit], pnodes)
        rets = [n for n in own_nodes(mdec.node) if isinstance(n, ast.Return) and n.value is not None]
        mdefs = ctx.defs(mdec)
        okr = bool(rets) and all(any(v is c for c in pcalls for v in [mdefs.expand(r.value)] if False) or (isinstance(r.value, ast.Name) and any(v in pcalls for v in mdefs.all_values(r.value.id))) or r.value in pcalls for r in rets)
        creds_ok = all(len(c.args) == 2 and norm(c.args[1]) == mdec.params[2] for c in pcalls)
        rep.check(okp and okr and creds_ok, "C19-R5", mdec.site(), f"{cls.name}.decode returns what the security model's incoming check (version + community, C07-R4) let through, on every path", key=f"{mdec.key}|community-check-bypass")
    # the community / version refusal itself (same rule as C07-R4) for the SNMPv2c model
    from .c07 import check_community_model

    sm_base = ctx.u.cls("puresnmp.plugins.security:SecurityModel")
    for mod2 in ctx.r.plugin_modules("puresnmp_plugins.security"):
        if ctx.r.plugin_identifier(mod2) == 2:
            for cls2 in [c for c in ctx.u.classes.values() if c.module is mod2 and ctx.r.is_subclass(c, sm_base)]:
                check_community_model(ctx, rep, cls2, rfc.COMMUNITY_VERSION_BY_SECMODEL[2], rule="C19-R5")
    # TrapInfo
    ti = None
    for cand in ctx.u.classes.values():
        if cand.module.name == "puresnmp.api.pythonic" and cand.name == "TrapInfo":
            ti = cand
    if ti is None:
        rep.undecided("C19-R5", "puresnmp/api/pythonic.py", "TrapInfo exists", "class not found")
        return
    want = {"uptime": "varbinds[0].value", "oid": "varbinds[1].value"}
    for prop, tail in want.items():
        meth = ti.methods.get(prop)
        txt = " ".join(norm(n.value) for n in own_nodes(meth.node) if isinstance(n, ast.Return) and n.value is not None) if meth else ""
        rep.check(meth is not None and f".value.{tail}.pythonize()" in txt, "C19-R5", meth.site() if meth else f"{ti.module.path} (TrapInfo)", f"TrapInfo.{prop} is the pythonised value of binding {tail[9]} (RFC 3416 4.2.6: sysUpTime.0, snmpTrapOID.0, payload)", txt, key=f"TrapInfo.{prop}|binding-index")
    meth = ti.methods.get("values")
    okv = False
    if meth is not None:
        iters = [n.iter for n in own_nodes(meth.node) if isinstance(n, (ast.For, ast.comprehension))]
        iters = [ctx.defs(meth).expand(i) for i in iters]
        okv = bool(iters) and sum(1 for i in iters if norm(i).endswith(".value.varbinds[2:]")) == 1 and not any(".value.varbinds[" in norm(i) and ".value.varbinds[2:]" not in norm(i) for i in iters)
    rep.check(okv, "C19-R5", meth.site() if meth else f"{ti.module.path} (TrapInfo)", "TrapInfo.values covers every binding after the first two", key="TrapInfo.values|slice")
    meth = ti.methods.get("origin")
    oko = meth is not None and any(isinstance(n, ast.Return) and n.value is not None and norm(n.value).endswith(".source.address") for n in own_nodes(meth.node))
    rep.check(oko, "C19-R5", meth.site() if meth else f"{ti.module.path} (TrapInfo)", "TrapInfo.origin is the address of the trap's source", key="TrapInfo.origin|source")
    rep.adopt_rules(ctx.sub_run("c06", rep), "C19-R6", ["C06-R3", "C06-R1", "C06-R4"])
