"""
C20 - no datagram, however malformed, can hang the client or exhaust memory.

R1  cursor advance: every ``while`` loop in the resolved program (x690 included)
    is classified by a recognised progress idiom.  The TLV walker's loop
    (``while pos < end: item, pos = decode(data, pos)``) needs the callee summary
    "decode returns a next position > the position given", which is derived by a
    relative lower-bound analysis of x690.util.get_value_slice /
    decode_length on every path (len >= 0, int.from_bytes unsigned >= 0,
    bytes.find >= -1).
R2  no unchecked agent-controlled integer as loop bound, repetition count or
    allocation size in the repository's own decode paths (taint from decoded
    values to range() / sequence repetition / bytes(n)); expected count zero, a
    positive fixture is checked on every run.
R3  usable afterwards: decode paths store nothing to shared state except the
    lazy security-model construction (effect analysis shared with C14).
R4  recursion: no function on the decode path is (mutually) recursive through
    eager calls; nested TLVs are decoded lazily, one level per access.
"""
from __future__ import annotations

import ast
from typing import Any, Dict, List, Optional, Set, Tuple

from ..engine.context import Ctx
from ..engine.exprs import norm
from ..engine.patterns import cfg_node_of
from ..engine.report import Report
from ..engine.universe import AnalysisError, FuncInfo, Module, ancestors, own_nodes, set_parents
from .c14 import shared_stores
from .common import mpm_class, own_method

# ------------------------------------------------------------------ lower bounds
# A value is described by (rel, lb, exact): value >= (index if rel else 0) + lb; exact = the constant if known.
Val = Tuple[bool, Optional[int], Optional[int]]
TOP: Val = (False, None, None)


def add(a: Val, b: Val) -> Val:
    if a[1] is None or b[1] is None:
        return TOP
    if a[0] and b[0]:
        return TOP
    exact = a[2] + b[2] if a[2] is not None and b[2] is not None and not (a[0] or b[0]) else None
    return (a[0] or b[0], a[1] + b[1], exact)


def sub(a: Val, b: Val) -> Val:
    if b[2] is None or b[0] or a[1] is None:
        return TOP
    exact = a[2] - b[2] if a[2] is not None and not a[0] else None
    return (a[0], a[1] - b[2], exact)


class LowerBounds:
    """Path-wise evaluation of one function; summaries of callees are lists of alternative result tuples."""

    def __init__(self, ctx: Ctx, summaries: Dict[str, List[Tuple[Val, ...]]]) -> None:
        self.ctx = ctx
        self.summaries = summaries

    def expr(self, fn: FuncInfo, e: ast.AST, env: Dict[str, Val]) -> Val:
        if isinstance(e, ast.Constant) and isinstance(e.value, int) and not isinstance(e.value, bool):
            return (False, e.value, e.value)
        if isinstance(e, ast.Name):
            return env.get(e.id, TOP)
        if isinstance(e, ast.UnaryOp) and isinstance(e.op, ast.USub):
            v = self.expr(fn, e.operand, env)
            return (False, -v[2], -v[2]) if v[2] is not None and not v[0] else TOP
        if isinstance(e, ast.BinOp):
            a, b = self.expr(fn, e.left, env), self.expr(fn, e.right, env)
            if isinstance(e.op, ast.Add):
                return add(a, b)
            if isinstance(e.op, ast.Sub):
                return sub(a, b)
            if isinstance(e.op, (ast.BitAnd, ast.BitXor, ast.BitOr, ast.RShift, ast.Mod)):
                if a[1] is not None and a[1] >= 0 and b[1] is not None and b[1] >= 0 and not a[0] and not b[0]:
                    return (False, 0, None)
                return TOP
            return TOP
        if isinstance(e, ast.Subscript):
            base = norm(e.value)
            if not isinstance(e.slice, ast.Slice) and base in ("data",):
                return (False, 0, None)  # one octet of a bytes object: 0..255
            return TOP
        if isinstance(e, ast.Attribute):
            # named-tuple field of a summarised call bound earlier: handled at assignment
            return env.get(norm(e), TOP)
        if isinstance(e, ast.Call):
            f = norm(e.func)
            if f == "int.from_bytes":
                signed = [kw for kw in e.keywords if kw.arg == "signed"]
                if signed and norm(signed[0].value) != "False":
                    return TOP
                return (False, 0, None)
            if f == "len":
                return (False, 0, None)
            if f.endswith(".find"):
                return (False, -1, None)
        return TOP

    def decide(self, fn: FuncInfo, test: ast.AST, env: Dict[str, Val]) -> Optional[bool]:
        if isinstance(test, ast.Compare) and len(test.ops) == 1:
            a, b = self.expr(fn, test.left, env), self.expr(fn, test.comparators[0], env)
            op = test.ops[0]
            if b[2] is not None and not b[0] and not a[0]:
                if isinstance(op, ast.Eq):
                    if a[2] is not None:
                        return a[2] == b[2]
                    if a[1] is not None and a[1] > b[2]:
                        return False
                if isinstance(op, ast.NotEq):
                    if a[2] is not None:
                        return a[2] != b[2]
                    if a[1] is not None and a[1] > b[2]:
                        return True
        return None


def decode_length_summary(ctx: Ctx, rep: Report) -> Optional[List[Tuple[Val, Val]]]:
    """Alternative (length, offset) results of x690.util.decode_length, one per return path."""
    fn = ctx.u.maybe_func("x690.util:decode_length")
    if fn is None:
        return None
    lb = LowerBounds(ctx, {})
    cfg = ctx.cfg(fn)
    results: List[Tuple[Val, Val]] = []
    for path in cfg.paths(cfg.entry, {cfg.exit.id}):
        env: Dict[str, Val] = {"index": (True, 0, None)}
        ret = None
        for node, _ in path:
            st = node.ast
            if isinstance(st, ast.Assign) and len(st.targets) == 1 and isinstance(st.targets[0], ast.Name):
                env[st.targets[0].id] = lb.expr(fn, st.value, env)
            if isinstance(st, ast.Return) and isinstance(st.value, ast.Call) and len(st.value.args) == 2:
                ret = (lb.expr(fn, st.value.args[0], env), lb.expr(fn, st.value.args[1], env))
        if ret is not None:
            results.append(ret)
    return results


def check_secparams_typed(ctx: Ctx, rep: Report, rule: str = "C20-R11") -> None:
    """
    `USMSecurityParameters.from_snmp_type` evaluated on sequences in which one member has the wrong ASN.1 type, or a
    member is missing / surplus: each must be refused with an SnmpError; the well-typed sequence yields the six
    python values in RFC 3414 order.  What this protects: the values are cached (`DiscoData`, the timing cache) and
    used for every later request - an OCTET STRING in the place of msgAuthoritativeEngineBoots used to be accepted,
    cached, and made every following request of that client fail with a TypeError without sending anything.
    """
    from ..engine.minieval import Instance, MiniEval, PyModel, Raised, Sym, Unevaluable

    cls = ctx.u.cls("puresnmp_plugins.security.usm:USMSecurityParameters")
    fn = cls.methods.get("from_snmp_type")
    if fn is None:
        rep.undecided(rule, f"{cls.module.path} (USMSecurityParameters)", "from_snmp_type exists", "missing")
        return
    snmp_error = ctx.u.cls("puresnmp.exc:SnmpError")
    seq_cls, int_cls, oct_cls = ctx.u.cls("x690.types:Sequence"), ctx.u.cls("x690.types:Integer"), ctx.u.cls("x690.types:OctetString")
    layout = [oct_cls, int_cls, int_cls, oct_cls, oct_cls, oct_cls]
    names = ["msgAuthoritativeEngineID", "msgAuthoritativeEngineBoots", "msgAuthoritativeEngineTime", "msgUserName", "msgAuthenticationParameters", "msgPrivacyParameters"]

    def member(kls, k: int) -> Instance:
        inst = Instance(kls, [], {})
        py = (1000 + k) if kls is int_cls else bytes([65 + k]) * 3
        inst.attrs.update(value=py, pyvalue=py)
        return inst

    def sequence(items: List[Instance]) -> Instance:
        seq = Instance(seq_cls, [], {})
        seq.attrs["__items__"] = items
        seq.attrs["value"] = items
        return seq

    cases = [("well typed", [member(k_, i) for i, k_ in enumerate(layout)], None)]
    for pos in range(6):
        items = [member(k_, i) for i, k_ in enumerate(layout)]
        items[pos] = member(int_cls if layout[pos] is oct_cls else oct_cls, pos)
        cases.append((f"{names[pos]} is an {'INTEGER' if layout[pos] is oct_cls else 'OCTET STRING'}", items, pos))
    # a subclass with another tag (TimeTicks is an x690 Integer subclass; its python value is a timedelta)
    ticks_cls = ctx.u.classes.get("puresnmp.types:TimeTicks")
    if ticks_cls is not None:
        for pos in (1, 2):
            items = [member(k_, i) for i, k_ in enumerate(layout)]
            items[pos] = member(ticks_cls, pos)
            items[pos].attrs.update(value=1000 + pos, pyvalue=1000 + pos, pythonize=PyModel(lambda a, k: Sym("timedelta"), "TimeTicks.pythonize"))
            cases.append((f"{names[pos]} is a TimeTicks (an Integer subclass with an application tag)", items, pos))
    cases.append(("only five members", [member(k_, i) for i, k_ in enumerate(layout)][:5], -1))
    cases.append(("seven members", [member(k_, i) for i, k_ in enumerate(layout)] + [member(oct_cls, 6)], -1))
    for label, items, bad in cases:
        text = f"USM security parameters, {label}: " + ("decoded into the six fields in RFC 3414 order" if bad is None else "refused with SnmpError")
        try:
            got = MiniEval(ctx, max_steps=20000).call_function(fn, [sequence(items)], {})
            kind = "return"
        except Raised as exc:
            kind, got = "raise", exc.value
        except Unevaluable as exc:
            rep.undecided(rule, fn.site(), text, f"not evaluable: {exc}")
            continue
        if bad is None:
            fields = ["authoritative_engine_id", "authoritative_engine_boots", "authoritative_engine_time", "user_name", "auth_params", "priv_params"]
            ok = kind == "return" and isinstance(got, Instance) and [got.attrs.get(f, got.kwargs.get(f)) for f in fields] == [it.attrs["value"] for it in items]
        else:
            ok = kind == "raise" and isinstance(got, Instance) and ctx.r.is_subclass(got.cls, snmp_error)
        rep.check(ok, rule, fn.site(), text, f"{kind}: {got!r}"[:200], key=f"{fn.key}|untyped-secparams|{label}")


def check_locks_released(ctx: Ctx, rep: Report, rule: str = "C20-R12") -> None:
    """
    A lock taken while a datagram is processed (plug-in lookup by the version / security-model field of the datagram)
    must be released on every path, exceptional ones included: `with lock:` or `lock.acquire()` immediately followed
    by `try: ... finally: lock.release()`.  A bare acquire / release pair around code that can raise on datagram
    content (an unhashable key, a failing import) leaves the lock held: every later lookup blocks for ever.
    """
    from ..engine.universe import parent_of

    # the matcher is exercised on a built-in example on every run (the package may legitimately hold no lock at all)
    sample = ast.parse("def f(lock, d, k):\n    lock.acquire()\n    v = d.get(k)\n    lock.release()\n    return v\n").body[0]
    bare = [n for n in ast.walk(sample) if isinstance(n, ast.Expr) and isinstance(n.value, ast.Call) and isinstance(n.value.func, ast.Attribute) and n.value.func.attr == "acquire"]
    rep.check(len(bare) == 1 and not isinstance(sample.body[1], ast.Try), rule, "(built-in example)", "the matcher recognises a bare acquire() / release() pair around code that can raise", key="selftest|lock-matcher")
    for fn in ctx.u.functions.values():
        if fn.module.external or not fn.module.name.startswith("puresnmp"):
            continue
        for n in own_nodes(fn.node):
            if isinstance(n, (ast.With, ast.AsyncWith)):
                for it in n.items:
                    b = ctx.r.resolve_expr(fn.module, it.context_expr) if isinstance(it.context_expr, (ast.Name, ast.Attribute)) else None
                    if b is not None and b.kind == "value" and isinstance(b.target, ast.Call) and norm(b.target.func).split(".")[-1] in ("Lock", "RLock", "Semaphore", "BoundedSemaphore"):
                        rep.ok(rule, fn.site(n), f"{fn.qualname}: `{norm(it.context_expr)}` is held through a with statement", "released on every exit by construction")
            if isinstance(n, ast.Expr) and isinstance(n.value, (ast.Call, ast.Await)):
                call = n.value.value if isinstance(n.value, ast.Await) else n.value
                if isinstance(call, ast.Call) and isinstance(call.func, ast.Attribute) and call.func.attr == "acquire":
                    lock = norm(call.func.value)
                    par = parent_of(n)
                    ok = False
                    for fld in ("body", "orelse", "finalbody"):
                        blk = getattr(par, fld, None)
                        if isinstance(blk, list) and n in blk:
                            i = blk.index(n)
                            nxt = blk[i + 1] if i + 1 < len(blk) else None
                            if isinstance(nxt, ast.Try) and any(isinstance(x, ast.Call) and isinstance(x.func, ast.Attribute) and x.func.attr == "release" and norm(x.func.value) == lock for s_ in nxt.finalbody for x in ast.walk(s_)):
                                ok = True
                    rep.check(ok, rule, fn.site(n), f"{fn.qualname}: `{lock}.acquire()` is immediately followed by try / finally releasing it (an exception raised while it is held - also one caused by datagram content - must not leave it locked)", key=f"{fn.key}|lock-not-released|{lock}")


def run(ctx: Ctx, rep: Report) -> None:
    rep.rule("C20-R1", "every while loop reachable while processing a datagram makes progress (cursor advance / strictly decreasing measure / finite iterator)", floor=7)
    rep.rule("C20-R2", "no decoded integer reaches range(), a repetition count or an allocation size unchecked", floor=1)
    rep.rule("C20-R3", "processing a datagram writes nothing to shared state except the lazily built security model", floor=3)
    rep.rule("C20-R4", "no eager recursion on the decode path", floor=1)
    rep.rule("C20-R5", "a lazily decoded SEQUENCE is walked once: no indexing / len() / .value of it inside a loop (each access re-decodes the whole value: quadratic time in the datagram size)", floor=1)
    rep.rule("C20-R8", "no datagram is rendered recursively (pretty / repr of the decoded tree) unless debug logging asks for it", floor=1)
    rep.rule("C20-R11", "decoded USM security parameters are refused unless every member has its ASN.1 type (a wrongly typed engine-boots / time must not reach the discovery cache, where it would break every later request)", floor=4)
    rep.rule("C20-R12", "no datagram can leave a lock held: locks are taken with `with` or acquire() + try / finally release()", floor=1)
    rep.rule("C20-R10", "whatever datagram arrives (also an empty one), the socket of the exchange is closed on every path (shared with C13-R1)", floor=2)
    rep.rule("C20-R9", "no response keeps a walk asking for the same OIDs for ever: every fetcher refuses a response that does not advance, the continuation list is renewed each round (shared with C03-R1/R2/R3/R5)", floor=2)
    rep.rule("C20-R7", "no reply makes the UDP sender spin: the retry loop returns at the first reply and otherwise uses up one retry per iteration (shared with C13-R2)", floor=7)
    rep.rule("C20-R6", "a failed exchange leaves no per-datagram state behind: every store to shared state in the package is a justified, operation-independent instance (shared with C14-R1)", floor=10)
    rep.assumptions += [
        "CPython: len() >= 0, int.from_bytes(.., signed=False) >= 0, bytes.find() >= -1, slicing never reads outside the object",
        "time and memory as a concrete multiple of the datagram size are not quantified; only absence of unbounded loops / allocations is decided",
    ]
    # ------------------------------------------------------------ R1
    summary = decode_length_summary(ctx, rep)
    gvs = ctx.u.maybe_func("x690.util:get_value_slice")
    dec = ctx.u.maybe_func("x690.types:decode")
    advancing_callees: Set[str] = set()
    if summary is None or gvs is None or dec is None:
        rep.undecided("C20-R1", "x690/util.py", "x690 TLV walker source is available", "x690 source not found")
    else:
        rep.analysed["decode_length_results"] = [f"(length {fmt(a)}, offset {fmt(b)})" for a, b in summary]
        lb = LowerBounds(ctx, {})
        cfg = ctx.cfg(gvs)
        call_stmt = None
        for n in own_nodes(gvs.node):
            if isinstance(n, ast.Assign) and isinstance(n.value, ast.Call) and ctx.r.call_resolves_to(gvs, n.value, "x690.util:decode_length") and isinstance(n.targets[0], ast.Tuple):
                call_stmt = n
        all_ok = True
        if call_stmt is None:
            rep.undecided("C20-R1", gvs.site(), "get_value_slice unpacks decode_length", "not recognised")
            all_ok = False
        else:
            tnames = [norm(t) for t in call_stmt.targets[0].elts]
            for alt_no, (length_v, offset_v) in enumerate(summary):
                for path in cfg.paths(cfg.entry, {cfg.exit.id}):
                    env: Dict[str, Val] = {"index": (True, 0, None)}
                    feasible = True
                    ret: Optional[Val] = None
                    ret_node = None
                    for node, label in path:
                        st = node.ast
                        if st is call_stmt:
                            env[tnames[0]], env[tnames[1]] = length_v, offset_v
                        elif isinstance(st, ast.Assign) and len(st.targets) == 1 and isinstance(st.targets[0], ast.Name):
                            env[st.targets[0].id] = lb.expr(gvs, st.value, env)
                        elif node.kind == "test" and isinstance(label, bool):
                            d = lb.decide(gvs, st, env)
                            if d is not None and d != label:
                                feasible = False
                                break
                        elif isinstance(st, ast.Return) and isinstance(st.value, ast.Call) and len(st.value.args) == 2:
                            ret = lb.expr(gvs, st.value.args[1], env)
                            ret_node = st
                    if not feasible or ret is None:
                        continue
                    ok = ret[0] and ret[1] is not None and ret[1] >= 1
                    branch = "indefinite-length" if (length_v[2] == -1) else "definite-length"
                    rep.check(
                        ok,
                        "C20-R1",
                        gvs.site(ret_node),
                        f"get_value_slice ({branch} form, decode_length result #{alt_no}): the next TLV position is provably > the position given",
                        f"next_value_index {fmt(ret)}" + ("" if ok else ": it can be smaller than or equal to the current position (data.find may return -1 or an earlier offset): Sequence.decode_raw then never reaches the end of its slice"),
                        key=f"x690.util:get_value_slice|no-advance|{branch}",
                    )
                    all_ok = all_ok and ok
        # decode() hands out get_value_slice's next index unchanged
        hands_out = False
        for n in own_nodes(dec.node):
            if isinstance(n, ast.Assign) and isinstance(n.value, ast.Call) and ctx.r.call_resolves_to(dec, n.value, "x690.util:get_value_slice") and isinstance(n.targets[0], ast.Tuple):
                nxt = norm(n.targets[0].elts[1])
                start_arg = norm(n.value.args[1]) if len(n.value.args) > 1 else None
                rets = [r for r in own_nodes(dec.node) if isinstance(r, ast.Return) and isinstance(r.value, ast.Tuple)]
                hands_out = bool(rets) and all(norm(r.value.elts[1]) == nxt for r in rets) and start_arg == dec.params[1]
        rep.check(hands_out, "C20-R1", dec.site(), "x690.decode returns get_value_slice's next position for the start index it was given", key="x690.types:decode|next-index")
        guard = any(isinstance(n, ast.If) and norm(n.test) == f"{dec.params[1]} >= len({dec.params[0]})" and any(isinstance(s, ast.Raise) for s in n.body) for n in own_nodes(dec.node))
        rep.check(guard, "C20-R1", dec.site(), "x690.decode refuses a start index at or beyond the end of the data", key="x690.types:decode|start-guard")
        if hands_out:
            advancing_callees.add(dec.key)  # conditional on the get_value_slice obligations above
    loops: List[Tuple[FuncInfo, ast.While]] = []
    for fn in ctx.u.functions.values():
        for n in own_nodes(fn.node):
            if isinstance(n, ast.While):
                loops.append((fn, n))
    rep.analysed["while_loops"] = [f"{f.key}:{l.lineno}" for f, l in loops]
    wm_walk = None
    try:
        from .walkmodel import WalkModel

        wm_walk = WalkModel(ctx).walk
    except AnalysisError:
        wm_walk = None
    for fn, loop in sorted(loops, key=lambda p: (p[0].key, p[1].lineno)):
        kind, why = classify_loop(ctx, fn, loop, advancing_callees)
        site = fn.site(loop)
        if kind == "network":
            rep.ok("C20-R1", site, f"`while {norm(loop.test)}`: bounded by the number of exchanges, not by one datagram", why)
        else:
            rep.check(kind is not None, "C20-R1", site, f"`while {norm(loop.test)[:50]}` makes progress on every iteration", why, key=f"{fn.key}|loop|{norm(loop.test)[:40]}")

    # ------------------------------------------------------------ R2
    fixture = ast.parse("def f(data):\n    n, nxt = decode(data, 0)\n    return [0] * n.value + list(range(n.value))\n")
    set_parents(fixture)
    ffn = FuncInfo(Module("fixture", "<fixture>", "", fixture), "f", fixture.body[0])
    if len(tainted_sinks(None, ffn)) != 2:
        raise AnalysisError("C20-R2 positive fixture was not flagged")
    entry_mods = ("puresnmp.pdu", "puresnmp.adt", "puresnmp.api.raw", "puresnmp.transport", "puresnmp.util", "puresnmp.varbind", "puresnmp.types")
    scanned = 0
    hits = []
    for fn in ctx.u.functions.values():
        if fn.module.external:
            continue
        if fn.module.name in entry_mods or fn.module.name.startswith("puresnmp_plugins"):
            scanned += 1
            hits += [(fn, n, why) for n, why in tainted_sinks(ctx, fn)]
    rep.analysed["functions_scanned_for_taint"] = scanned
    rep.check(not hits, "C20-R2", "puresnmp, puresnmp_plugins", "no value decoded from a datagram is used as loop bound, repetition count or allocation size", "; ".join(f"{f.site(n)}: {w}" for f, n, w in hits[:3]), key="taint|" + "|".join(sorted(f"{f.key}" for f, _, _ in hits))[:120])

    # ------------------------------------------------------------ R3
    roots: List[FuncInfo] = []
    for ident in (0, 1, 3):
        try:
            roots.append(own_method(ctx, mpm_class(ctx, ident), "decode"))
        except AnalysisError:
            pass
    reach: Dict[str, FuncInfo] = {}
    stack = list(roots)
    while stack:
        fn = stack.pop()
        if fn.key in reach or fn.module.external:
            continue
        reach[fn.key] = fn
        for node in own_nodes(fn.node):
            if isinstance(node, ast.Call):
                for callee in ctx.r.callees(fn, node):
                    if isinstance(callee, FuncInfo) and callee.module.name.startswith("puresnmp") and callee.name not in ("encode", "generate_request_message", "send_discovery_message", "__init__", "pretty", "__repr__"):
                        stack.append(callee)
    rep.analysed["decode_path_functions"] = len(reach)
    for fn in reach.values():
        for st in shared_stores(ctx, fn):
            if st.owner in ("param", "closure-read", "local"):
                continue
            allowed = st.path == "self.security_model" and isinstance(st.value, ast.Call) and "puresnmp.plugins.security:create" in ctx.r.callee_names(fn, st.value)
            allowed = allowed or (fn.cls is not None and fn.cls.name == "Loader" and st.path == "self.discovered_plugins")
            rep.check(allowed, "C20-R3", fn.site(st.node), f"`{norm(st.node)[:60]}` on the decode path leaves the client usable (operation-independent lazy construction only)", f"store to {st.owner}-owned `{st.path}` while processing a datagram", key=f"{fn.key}|decode-store|{st.path}")
    rep.ok("C20-R3", roots[0].site() if roots else "-", "decode paths were scanned for stores to shared state", f"{len(reach)} functions reachable from the three message-processing decode entry points")

    # ------------------------------------------------------------ R8: no unconditional deep rendering of the datagram
    x690_base = ctx.u.cls("x690.types:X690Type")
    rendered = 0
    for fn in reach.values():
        for node in own_nodes(fn.node):
            if not isinstance(node, ast.Call):
                continue
            deep = None
            if isinstance(node.func, ast.Attribute) and node.func.attr == "pretty":
                deep = norm(node)
            elif isinstance(node.func, ast.Name) and node.func.id in ("repr", "str") and len(node.args) == 1:
                if any(ctx.r.is_subclass(c, x690_base) for c in ctx.r.expr_classes(fn, node.args[0])):
                    deep = norm(node)
            if deep is None:
                continue
            rendered += 1
            guarded = any(isinstance(a, ast.If) and "isEnabledFor" in norm(a.test) for a in ancestors(node))
            rep.check(guarded, "C20-R8", fn.site(node), f"{fn.qualname}: the decoded message is not rendered recursively for every datagram (arguments of a log call are evaluated whatever the log level; depth and cost follow the attacker's nesting)", f"`{deep[:70]}` is evaluated unconditionally", key=f"{fn.key}|eager-rendering")
    rep.ok("C20-R8", roots[0].site() if roots else "-", "decode paths were scanned for unconditional pretty() / repr() of decoded values", f"{rendered} rendering call(s) found in {len(reach)} functions")

    # ------------------------------------------------------------ R5
    redecode = []
    scanned_fns = 0
    for fn in list(reach.values()) + [f for f in ctx.u.functions.values() if f.module.name in ("puresnmp.pdu", "puresnmp.adt") and f.key not in reach and f.name not in ("pretty", "__repr__")]:
        scanned_fns += 1
        lazy = lazy_sequences(ctx, fn)
        for loop in [n for n in own_nodes(fn.node) if isinstance(n, (ast.For, ast.While, ast.AsyncFor))]:
            assigned_in_loop = {t.id for s in ast.walk(ast.Module(body=loop.body, type_ignores=[])) if isinstance(s, ast.Assign) for tg in s.targets for t in ast.walk(tg) if isinstance(t, ast.Name)}
            for sub in ast.walk(ast.Module(body=loop.body, type_ignores=[])):
                name = None
                if isinstance(sub, ast.Subscript) and isinstance(sub.value, ast.Name) and not isinstance(sub.slice, ast.Constant):
                    name = sub.value.id
                elif isinstance(sub, ast.Call) and isinstance(sub.func, ast.Name) and sub.func.id == "len" and sub.args and isinstance(sub.args[0], ast.Name):
                    name = sub.args[0].id
                elif isinstance(sub, ast.Attribute) and sub.attr == "value" and isinstance(sub.value, ast.Name):
                    name = sub.value.id
                if name and name in lazy and name not in assigned_in_loop:
                    redecode.append((fn, sub, name))
            # len(x) in the loop header of `for i in range(len(x))` is evaluated once; x[i] in the body is what matters
    rep.analysed["functions_scanned_for_redecoding"] = scanned_fns
    rep.check(not redecode, "C20-R5", "puresnmp decode path", "no lazily decoded x690 SEQUENCE is indexed, measured or re-read inside a loop", "; ".join(f"{f.site(n)}: `{norm(n)}` re-decodes `{nm}` on every iteration" for f, n, nm in redecode[:3]), key="redecode|" + "|".join(sorted({f.key for f, _, _ in redecode}))[:100])

    # ------------------------------------------------------------ R6
    from . import c14

    sub = ctx.sub_run("c14", rep)
    rep.adopt_rules(sub, "C20-R6", ["C14-R1"])
    # the sender's retry loop: whatever the peer replies (an empty datagram included), every iteration either
    # returns or consumes one of the `retries`
    check_secparams_typed(ctx, rep)
    check_locks_released(ctx, rep)
    sub = ctx.sub_run("c13", rep)
    rep.adopt_rules(sub, "C20-R7", ["C13-R2"])
    # no reply, however short or malformed, leaves a socket behind (descriptors are a bounded resource too)
    rep.adopt_rules(sub, "C20-R10", ["C13-R1"])
    # a response that does not advance cannot keep a walk requesting the same OIDs forever (the client hanging on a
    # replayed / misbehaving datagram): the progress guard of every fetcher and the renewal of the continuation list
    sub = ctx.sub_run("c03", rep)
    rep.adopt_rules(sub, "C20-R9", ["C03-R1", "C03-R2", "C03-R3", "C03-R5"])

    # ------------------------------------------------------------ R4
    cyc = []
    x_funcs = {k: f for k, f in ctx.u.functions.items() if f.module.name in ("x690.types", "x690.util") and f.name not in ("pretty", "__repr__", "_walk_subclasses")}
    graph: Dict[str, Set[str]] = {}
    for k, f in list(x_funcs.items()) + list(reach.items()):
        graph[k] = set()
        for node in own_nodes(f.node):
            if isinstance(node, ast.Call):
                for callee in ctx.r.callees(f, node):
                    if isinstance(callee, FuncInfo) and (callee.key in x_funcs or callee.key in reach):
                        graph[k].add(callee.key)
    for start in graph:
        seen: Set[str] = set()
        stack2 = list(graph[start])
        while stack2:
            cur = stack2.pop()
            if cur == start:
                cyc.append(start)
                break
            if cur in seen:
                continue
            seen.add(cur)
            stack2.extend(graph.get(cur, ()))
    cyc = sorted(set(cyc))
    harmless = {"x690.types:X690Type.__init__"}
    rep.check(not [c for c in cyc if c not in harmless], "C20-R4", "x690/types.py, puresnmp decode path", "no function on the decode path calls itself (directly or mutually); nested TLVs are only decoded when their value is accessed", f"recursive: {cyc}", key="recursion|" + ",".join(cyc)[:100])


def fmt(v: Val) -> str:
    if v[1] is None:
        return "unbounded"
    if v[2] is not None and not v[0]:
        return f"= {v[2]}"
    return f">= {'index + ' if v[0] else ''}{v[1]}"


def classify_loop(ctx: Ctx, fn: FuncInfo, loop: ast.While, advancing: Set[str]) -> Tuple[Optional[str], str]:
    test = loop.test
    body_assigns: Dict[str, List[ast.AST]] = {}
    for n in ast.walk(ast.Module(body=loop.body, type_ignores=[])):
        if isinstance(n, ast.Assign):
            for t in n.targets:
                if isinstance(t, ast.Name):
                    body_assigns.setdefault(t.id, []).append(n.value)
                elif isinstance(t, ast.Tuple):
                    for i, e in enumerate(t.elts):
                        if isinstance(e, ast.Name):
                            body_assigns.setdefault(e.id, []).append(("unpack", i, n.value))
        if isinstance(n, ast.AugAssign) and isinstance(n.target, ast.Name):
            body_assigns.setdefault(n.target.id, []).append(("aug", n.op, n.value))
    has_exit_stmt = any(isinstance(n, (ast.Break, ast.Return, ast.Raise)) for n in ast.walk(ast.Module(body=loop.body, type_ignores=[])))
    # (a) cursor < bound, cursor = decode(data, cursor)[1]
    if isinstance(test, ast.Compare) and len(test.ops) == 1 and isinstance(test.ops[0], ast.Lt) and isinstance(test.left, ast.Name):
        cur = test.left.id
        for val in body_assigns.get(cur, []):
            if isinstance(val, tuple) and val[0] == "unpack" and isinstance(val[2], ast.Call):
                call = val[2]
                callees = [c.key for c in ctx.r.callees(fn, call) if isinstance(c, FuncInfo)]
                if any(c in advancing for c in callees) and len(call.args) >= 2 and norm(call.args[1]) == cur and val[1] == 1:
                    unconditional = any(isinstance(s, ast.Assign) and s.value is call for s in loop.body)
                    if unconditional:
                        return "cursor", f"{cur} = {norm(call)[:40]}[1] > {cur} on every iteration (callee summary), bounded by {norm(test.comparators[0])}"
    # (b) strictly decreasing non-negative integer / shift towards 0 or -1
    names = [n.id for n in ast.walk(test) if isinstance(n, ast.Name)]
    for name in names:
        for val in body_assigns.get(name, []):
            expr = val[2].elts[val[1]] if isinstance(val, tuple) and val[0] == "unpack" and isinstance(val[2], ast.Tuple) else val
            if isinstance(expr, ast.BinOp) and isinstance(expr.op, (ast.FloorDiv, ast.RShift)) and norm(expr.left) == name and isinstance(expr.right, ast.Constant) and isinstance(expr.right.value, int) and expr.right.value >= 1 + (1 if isinstance(expr.op, ast.FloorDiv) else 0):
                t = norm(test)
                if t in (f"{name} > 0", name, f"{name} not in (0, -1)", f"{name} != 0"):
                    return "decreasing", f"{name} = {norm(expr)} strictly approaches the fixed point excluded by `{t}`"
            if isinstance(val, tuple) and val[0] == "aug" and isinstance(val[1], ast.Sub) and isinstance(val[2], ast.Constant) and isinstance(val[2].value, int) and val[2].value >= 1:
                if norm(test) in (f"{name} > 0", f"{name} >= 1"):
                    # counter loops that wait for network events
                    awaits = any(isinstance(n, ast.Await) for n in ast.walk(ast.Module(body=loop.body, type_ignores=[])))
                    return ("network" if awaits else "decreasing"), f"{name} -= {val[2].value} per iteration (retry budget, C13-R2)" if awaits else f"{name} decreases"
    # (c) consumes a finite iterator
    for name in names:
        for val in body_assigns.get(name, []):
            if isinstance(val, ast.Call) and norm(val.func) == "next" and val.args:
                return "iterator", f"{name} = {norm(val)}: every iteration consumes one item of a finite iterator (StopIteration ends it)"
    # (d) shrinking list
    for n in ast.walk(ast.Module(body=loop.body, type_ignores=[])):
        if isinstance(n, ast.Delete) and len(n.targets) == 1 and isinstance(n.targets[0], ast.Subscript):
            lst = norm(n.targets[0].value)
            if f"len({lst}) > 1" in norm(test) or f"len({lst}) > 0" in norm(test):
                return "shrinking", f"del {lst}[..] shortens the list examined by the loop test"
    # (e) the walk loop: driven by network exchanges
    if any(isinstance(n, ast.Await) for n in ast.walk(ast.Module(body=loop.body, type_ignores=[]))):
        return "network", "each iteration performs a network exchange; termination is C03"
    return None, "no recognised progress idiom"


TAINT_SOURCES = ("value", "pythonize")


def tainted_sinks(ctx: Optional[Ctx], fn: FuncInfo) -> List[Tuple[ast.AST, str]]:
    """range(x) / seq * x / bytes(x) / bytearray(x) where x derives from a decoded value, without a dominating bound check."""
    from ..engine.exprs import Defs

    defs = Defs(fn)
    decoded: Set[str] = set()
    if ctx is not None:
        x690 = ctx.u.classes.get("x690.types:X690Type")
        for name in fn.params:
            ann = ctx.r._param_annotation(fn, name)  # pylint: disable=protected-access
            cls = ctx.r.resolve_class(fn.module, ann) if ann is not None else None
            if cls is not None and x690 is not None and ctx.r.is_subclass(cls, x690):
                decoded.add(name)  # an object decoded from a datagram is handed in
    for n in own_nodes(fn.node):
        if isinstance(n, ast.Assign) and isinstance(n.value, ast.Call) and norm(n.value.func).split(".")[-1] == "decode":
            for t in n.targets:
                for x in ast.walk(t):
                    if isinstance(x, ast.Name):
                        decoded.add(x.id)
        if isinstance(n, (ast.For, ast.comprehension)):
            pass
    # everything read off a decoded object
    changed = True
    while changed:
        changed = False
        for name, vals in defs.assigns.items():
            if name in decoded:
                continue
            for v, _ in vals:
                if any(isinstance(x, ast.Name) and x.id in decoded for x in ast.walk(v)):
                    decoded.add(name)
                    changed = True
        for n in own_nodes(fn.node):
            if isinstance(n, (ast.For,)) and any(isinstance(x, ast.Name) and x.id in decoded for x in ast.walk(n.iter)):
                for x in ast.walk(n.target):
                    if isinstance(x, ast.Name) and x.id not in decoded:
                        decoded.add(x.id)
                        changed = True

    def is_tainted_int(e: ast.AST) -> bool:
        for x in ast.walk(e):
            if isinstance(x, ast.Attribute) and x.attr in TAINT_SOURCES and any(isinstance(y, ast.Name) and y.id in decoded for y in ast.walk(x.value)):
                return True
            if isinstance(x, ast.Call) and isinstance(x.func, ast.Attribute) and x.func.attr == "pythonize" and any(isinstance(y, ast.Name) and y.id in decoded for y in ast.walk(x.func.value)):
                return True
            if isinstance(x, ast.Name) and x.id in decoded and any(isinstance(v, ast.Attribute) and v.attr in TAINT_SOURCES for v, _ in defs.assigns.get(x.id, [])):
                return True
        return False

    out: List[Tuple[ast.AST, str]] = []
    for n in own_nodes(fn.node):
        if isinstance(n, ast.Call) and isinstance(n.func, ast.Name) and n.func.id in ("range", "bytes", "bytearray") and n.args:
            if n.func.id == "range" or (len(n.args) == 1 and not isinstance(n.args[0], (ast.List, ast.Tuple, ast.Call, ast.Constant))):
                if any(is_tainted_int(a) for a in n.args):
                    out.append((n, f"`{norm(n)[:50]}`: size taken from a decoded value"))
        if isinstance(n, ast.BinOp) and isinstance(n.op, ast.Mult):
            for seq, cnt in ((n.left, n.right), (n.right, n.left)):
                if isinstance(seq, (ast.List, ast.Constant, ast.Tuple)) and (not isinstance(seq, ast.Constant) or isinstance(seq.value, (bytes, str))) and is_tainted_int(cnt):
                    out.append((n, f"`{norm(n)[:50]}`: repetition count taken from a decoded value"))
    return out


def lazy_sequences(ctx: Ctx, fn: FuncInfo) -> Set[str]:
    """Names bound to a lazily decoded x690 Sequence: results of decode(.., enforce_type=Sequence), Sequence-annotated parameters, subscripts of those."""
    out: Set[str] = set()
    seq = ctx.u.classes.get("x690.types:Sequence")
    for name in fn.params:
        ann = ctx.r._param_annotation(fn, name)  # pylint: disable=protected-access
        cls = ctx.r.resolve_class(fn.module, ann) if ann is not None else None
        if cls is not None and seq is not None and ctx.r.is_subclass(cls, seq):
            out.add(name)
    for n in own_nodes(fn.node):
        if isinstance(n, ast.Assign) and isinstance(n.value, ast.Call) and norm(n.value.func).split(".")[-1] == "decode":
            enforce = [kw for kw in n.value.keywords if kw.arg == "enforce_type"]
            is_seq = (enforce and norm(enforce[0].value) == "Sequence") or norm(n.value.func).startswith("Sequence.")
            tgt = n.targets[0]
            if is_seq:
                if isinstance(tgt, ast.Tuple) and tgt.elts and isinstance(tgt.elts[0], ast.Name):
                    out.add(tgt.elts[0].id)
                elif isinstance(tgt, ast.Name):
                    out.add(tgt.id)
    return out
