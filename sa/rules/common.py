"""Facts shared by several property checks (located by role in the resolved program)."""
from __future__ import annotations

import ast
from typing import Any, Callable, Dict, List, Optional, Tuple

from ..engine.context import Ctx, bind_call_args
from ..engine.exprs import Unevaluable, int_eval, norm, strip_casts
from ..engine.universe import AnalysisError, ClassInfo, FuncInfo, own_nodes

X690_DECODE = "x690.types:decode"


class PduDecode:
    """The sequential TLV reads of ``PDU.decode_raw``: which local holds which PDU field."""

    def __init__(self, ctx: Ctx) -> None:
        pdu = ctx.u.cls("puresnmp.pdu:PDU")
        fn = ctx.r.method(pdu, "decode_raw")
        if fn is None or fn.cls != pdu:
            raise AnalysisError("PDU.decode_raw vanished")
        self.fn = fn
        self.reads: List[Tuple[str, Optional[str], ast.Call, ast.stmt]] = []  # (var, enforce_type class name, call, stmt)
        for node in sorted((n for n in own_nodes(fn.node) if isinstance(n, ast.Assign)), key=lambda n: n.lineno):
            val = node.value
            if isinstance(val, ast.Call) and ctx.r.call_resolves_to(fn, val, X690_DECODE):
                tgt = node.targets[0]
                if isinstance(tgt, ast.Tuple) and len(tgt.elts) == 2 and isinstance(tgt.elts[0], ast.Name):
                    enforce = None
                    for kw in val.keywords:
                        if kw.arg == "enforce_type":
                            cls = ctx.r.resolve_class(fn.module, kw.value)
                            enforce = cls.name if cls else norm(kw.value)
                    self.reads.append((tgt.elts[0].id, enforce, val, node))
        ints = [r for r in self.reads if r[1] == "Integer"]
        if len(ints) < 3:
            raise AnalysisError(f"PDU.decode_raw: expected three leading Integer reads, found {len(ints)}")
        # RFC 3416 PDU ::= SEQUENCE { request-id, error-status, error-index, variable-bindings }
        self.request_id, self.error_status, self.error_index = ints[0][0], ints[1][0], ints[2][0]
        self.int_reads = ints[:3]
        self.seq_reads = [r for r in self.reads if r[1] == "Sequence"]

    def value_of(self, expr: ast.AST, values: Dict[str, int]) -> Optional[int]:
        """Concrete value of ``<field var>.value`` under *values* (keyed by variable name)."""
        expr = strip_casts(expr)
        if isinstance(expr, ast.Attribute) and expr.attr == "value" and isinstance(expr.value, ast.Name) and expr.value.id in values:
            return values[expr.value.id]
        if isinstance(expr, ast.Call) and isinstance(expr.func, ast.Attribute) and expr.func.attr == "pythonize" and isinstance(expr.func.value, ast.Name) and expr.func.value.id in values:
            return values[expr.func.value.id]
        return None


def concrete_env(atom_value: Callable[[ast.AST], Optional[Any]], expand: Optional[Callable[[ast.AST], ast.AST]] = None) -> Callable[[ast.expr], Optional[bool]]:
    """eval3 environment: decide any sub-expression that the integer interpreter can evaluate."""

    def env(expr: ast.expr) -> Optional[bool]:
        if isinstance(expr, (ast.BoolOp,)) or (isinstance(expr, ast.UnaryOp) and isinstance(expr.op, ast.Not)):
            return None  # let eval3 recurse (keeps three-valued semantics for unknown parts)
        target = expand(expr) if expand else expr
        try:
            return bool(int_eval(target, atom_value))
        except Unevaluable:
            return None
        except Exception:  # pylint: disable=broad-except
            return None

    return env


def plugin_class(ctx: Ctx, factory_key: str, identifier: Any) -> ClassInfo:
    classes = ctx.r.plugin_instance_classes(ctx.fn(factory_key), identifier)
    if len(classes) != 1:
        raise AnalysisError(f"{factory_key}({identifier!r}) resolves to {[c.key for c in classes]}")
    return classes[0]


def usm_class(ctx: Ctx) -> ClassInfo:
    return plugin_class(ctx, "puresnmp.plugins.security:create", 3)


def mpm_class(ctx: Ctx, identifier: int) -> ClassInfo:
    return plugin_class(ctx, "puresnmp.plugins.mpm:create", identifier)


def own_method(ctx: Ctx, cls: ClassInfo, name: str) -> FuncInfo:
    fn = ctx.r.method(cls, name)
    if fn is None or fn.module.external:
        raise AnalysisError(f"{cls.key}.{name} not found")
    return fn


def handler_reraises(handler: ast.ExceptHandler) -> bool:
    """Every path through the handler body ends in a raise."""

    def block(stmts: List[ast.stmt]) -> bool:
        for stmt in stmts:
            if isinstance(stmt, ast.Raise):
                return True
            if isinstance(stmt, ast.If):
                if stmt.orelse and block(stmt.body) and block(stmt.orelse):
                    return True
            if isinstance(stmt, (ast.Return, ast.Break, ast.Continue)):
                return False
        return False

    return block(handler.body)
