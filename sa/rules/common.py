"""Facts shared by several property checks (located by role in the resolved program)."""
from __future__ import annotations

import ast
from typing import Any, Callable, Dict, List, Optional, Tuple

from ..engine.context import Ctx, bind_call_args
from ..engine.exprs import Unevaluable, int_eval, norm, strip_casts
from ..engine.universe import AnalysisError, ClassInfo, FuncInfo, own_nodes

X690_DECODE = "x690.types:decode"


class PduDecode:
    """The sequential TLV reads of ``PDU.decode_raw``: which local holds which PDU field."""

    def __init__(self, ctx: Ctx) -> None:
        pdu = ctx.u.cls("puresnmp.pdu:PDU")
        fn = ctx.r.method(pdu, "decode_raw")
        if fn is None or fn.cls != pdu:
            raise AnalysisError("PDU.decode_raw vanished")
        self.fn = fn
        self.reads: List[Tuple[str, Optional[str], ast.Call, ast.stmt]] = []  # (var, enforce_type class name, call, stmt)
        for node in sorted((n for n in own_nodes(fn.node) if isinstance(n, ast.Assign)), key=lambda n: n.lineno):
            val = node.value
            if isinstance(val, ast.Call) and ctx.r.call_resolves_to(fn, val, X690_DECODE):
                tgt = node.targets[0]
                if isinstance(tgt, ast.Tuple) and len(tgt.elts) == 2 and isinstance(tgt.elts[0], ast.Name):
                    enforce = None
                    for kw in val.keywords:
                        if kw.arg == "enforce_type":
                            cls = ctx.r.resolve_class(fn.module, kw.value)
                            enforce = cls.name if cls else norm(kw.value)
                    self.reads.append((tgt.elts[0].id, enforce, val, node))
        ints = [r for r in self.reads if r[1] == "Integer"]
        if len(ints) < 3:
            raise AnalysisError(f"PDU.decode_raw: expected three leading Integer reads, found {len(ints)}")
        # RFC 3416 PDU ::= SEQUENCE { request-id, error-status, error-index, variable-bindings }
        self.request_id, self.error_status, self.error_index = ints[0][0], ints[1][0], ints[2][0]
        self.int_reads = ints[:3]
        self.seq_reads = [r for r in self.reads if r[1] == "Sequence"]

    def value_of(self, expr: ast.AST, values: Dict[str, int]) -> Optional[int]:
        """Concrete value of ``<field var>.value`` under *values* (keyed by variable name)."""
        expr = strip_casts(expr)
        if isinstance(expr, ast.Attribute) and expr.attr == "value" and isinstance(expr.value, ast.Name) and expr.value.id in values:
            return values[expr.value.id]
        if isinstance(expr, ast.Call) and isinstance(expr.func, ast.Attribute) and expr.func.attr == "pythonize" and isinstance(expr.func.value, ast.Name) and expr.func.value.id in values:
            return values[expr.func.value.id]
        return None


def concrete_env(atom_value: Callable[[ast.AST], Optional[Any]], expand: Optional[Callable[[ast.AST], ast.AST]] = None) -> Callable[[ast.expr], Optional[bool]]:
    """eval3 environment: decide any sub-expression that the integer interpreter can evaluate."""

    def env(expr: ast.expr) -> Optional[bool]:
        if isinstance(expr, (ast.BoolOp,)) or (isinstance(expr, ast.UnaryOp) and isinstance(expr.op, ast.Not)):
            return None  # let eval3 recurse (keeps three-valued semantics for unknown parts)
        target = expand(expr) if expand else expr
        try:
            return bool(int_eval(target, atom_value))
        except Unevaluable:
            return None
        except Exception:  # pylint: disable=broad-except
            return None

    return env


def plugin_class(ctx: Ctx, factory_key: str, identifier: Any) -> ClassInfo:
    classes = ctx.r.plugin_instance_classes(ctx.fn(factory_key), identifier)
    if len(classes) != 1:
        raise AnalysisError(f"{factory_key}({identifier!r}) resolves to {[c.key for c in classes]}")
    return classes[0]


def usm_class(ctx: Ctx) -> ClassInfo:
    return plugin_class(ctx, "puresnmp.plugins.security:create", 3)


def mpm_class(ctx: Ctx, identifier: int) -> ClassInfo:
    return plugin_class(ctx, "puresnmp.plugins.mpm:create", identifier)


def own_method(ctx: Ctx, cls: ClassInfo, name: str) -> FuncInfo:
    fn = ctx.r.method(cls, name)
    if fn is None or fn.module.external:
        raise AnalysisError(f"{cls.key}.{name} not found")
    return fn


def handler_reraises(handler: ast.ExceptHandler) -> bool:
    """Every path through the handler body ends in a raise."""

    def block(stmts: List[ast.stmt]) -> bool:
        for stmt in stmts:
            if isinstance(stmt, ast.Raise):
                return True
            if isinstance(stmt, ast.If):
                if stmt.orelse and block(stmt.body) and block(stmt.orelse):
                    return True
            if isinstance(stmt, (ast.Return, ast.Break, ast.Continue)):
                return False
        return False

    return block(handler.body)


def is_own_security_model(ctx: Ctx, fn: FuncInfo, expr: Optional[ast.AST], depth: int = 0) -> bool:
    """``self.security_model``, a local bound to it, or an accessor method of the class that returns it."""
    if expr is None or depth > 3:
        return False
    expr = strip_casts(expr)
    if norm(expr) == "self.security_model":
        return True
    if isinstance(expr, ast.Name):
        vals = ctx.defs(fn).all_values(expr.id)
        return bool(vals) and all(is_own_security_model(ctx, fn, v, depth + 1) for v in vals)
    if isinstance(expr, ast.Call) and isinstance(expr.func, ast.Attribute) and isinstance(expr.func.value, ast.Name) and expr.func.value.id == "self" and not expr.args and not expr.keywords:
        owner = fn.cls
        cur = fn
        while owner is None and cur is not None:
            cur = cur.parent
            owner = cur.cls if cur is not None else None
        meth = ctx.r.method(owner, expr.func.attr) if owner is not None else None
        if meth is None or meth.module.external:
            return False
        rets = [n for n in own_nodes(meth.node) if isinstance(n, ast.Return)]
        return bool(rets) and all(r.value is not None and is_own_security_model(ctx, meth, r.value, depth + 1) for r in rets)
    return False


def check_incoming_model(ctx: Ctx, rep: Any, rule: str, mpm_identifier: int, want_model: int) -> None:
    """
    The security model that vets an incoming message is the one the message-processing model installed for
    itself (a constant identifier), never one chosen by a field of the received message: every
    ``<x>.process_incoming_message(..)`` in ``decode`` is called on ``self.security_model`` and every
    ``security.create(<id>)`` of the class passes the constant *want_model*.
    """
    from ..engine.patterns import cfg_node_of
    from ..engine.resolve import NotConstant
    from .walkmodel import assigned_value, reaching_defs

    cls = mpm_class(ctx, mpm_identifier)
    dec = own_method(ctx, cls, "decode")
    cfg = ctx.cfg(dec)
    defs = ctx.defs(dec)
    calls = [n for n in own_nodes(dec.node) if isinstance(n, ast.Call) and isinstance(n.func, ast.Attribute) and n.func.attr == "process_incoming_message"]
    if not calls:
        rep.undecided(rule, dec.site(), f"{cls.name}.decode hands the message to a security model", "no process_incoming_message call")
        return

    def is_own_model(expr: Optional[ast.AST]) -> bool:
        return is_own_security_model(ctx, dec, expr)

    for call in calls:
        recv = strip_casts(call.func.value)
        ok = is_own_model(recv)
        detail = ""
        if not ok and isinstance(recv, ast.Name):
            at = cfg_node_of(cfg, call)
            rd = reaching_defs(cfg, recv.id, at) if at is not None else []
            vals = [assigned_value(d) for d in rd]
            ok = bool(rd) and all(is_own_model(v) for v in vals)
            detail = f"`{recv.id}` may be: {[norm(v)[:60] if v is not None else '?' for v in vals]}"
        elif not ok:
            detail = f"receiver `{norm(recv)[:60]}`"
        rep.check(ok, rule, dec.site(call), f"{cls.name}.decode: the incoming message is vetted by the model's own security model (self.security_model) on every path", detail, key=f"{dec.key}|foreign-security-model")
    for meth in cls.methods.values():
        mdefs = ctx.defs(meth)
        for n in own_nodes(meth.node):
            if isinstance(n, ast.Call) and ctx.r.call_resolves_to(meth, n, "puresnmp.plugins.security:create") and n.args:
                arg = mdefs.expand(n.args[0])
                try:
                    ident = ctx.r.const(meth.module, arg, meth.cls)
                except NotConstant:
                    ident = None
                except Exception:  # pylint: disable=broad-except
                    ident = None
                rep.check(ident == want_model, rule, meth.site(n), f"{cls.name}.{meth.name}: the security model installed is the constant model {want_model}", f"identifier `{norm(n.args[0])}` = {ident!r}", key=f"{meth.key}|security-model-id")


class PduEval:
    """
    ``PDU.decode_raw`` evaluated (engine/minieval.py) on a modelled TLV stream: ``x690.decode(data, pos, ..)`` hands
    out the pos-th pre-decoded element and pos + 1.  However the three INTEGER reads, the binding list and the
    error branch are written (inline, helper functions, loops), the outcome for a given (request-id, error-status,
    error-index, number of bindings) is computed from the source.
    """

    def __init__(self, ctx: Ctx) -> None:
        from ..engine.minieval import Instance, Sym

        self.ctx = ctx
        pdu = ctx.u.cls("puresnmp.pdu:PDU")
        fn = ctx.r.method(pdu, "decode_raw")
        if fn is None or fn.cls != pdu:
            raise AnalysisError("PDU.decode_raw vanished")
        self.fn = fn
        self.pdu = pdu
        self.integer = ctx.u.cls("x690.types:Integer")
        self.sequence = ctx.u.cls("x690.types:Sequence")
        self.Instance, self.Sym = Instance, Sym

    def run(self, request_id: int, status: int, index: int, count: int):
        """-> (kind, value, oids): kind in return / raise / uneval; oids = the OID symbols of the modelled bindings."""
        from ..engine.minieval import ClassRef, MiniEval, Raised, Unevaluable

        Instance, Sym = self.Instance, self.Sym

        def x_int(v: int):
            inst = Instance(self.integer, [], {})
            inst.attrs.update(value=v, pyvalue=v)
            return inst

        oid_cls = self.ctx.u.cls("x690.types:ObjectIdentifier")
        oids = []
        for i in range(count):
            o = Instance(oid_cls, [f"oid{i + 1}"], {})
            o.attrs["__truth__"] = True  # a non-empty OID
            oids.append(o)
        vals = [Sym(f"value{i + 1}") for i in range(count)]

        def x_seq(items):
            inst = Instance(self.sequence, [], {})
            inst.attrs["__items__"] = items
            return inst

        stream = [x_int(request_id), x_int(status), x_int(index), x_seq([x_seq([o, v]) for o, v in zip(oids, vals)])]

        def decode_model(args, kwargs):
            data = args[0]
            pos = args[1] if len(args) > 1 else kwargs.get("start_index", 0)
            want = kwargs.get("enforce_type")
            if data is not stream or not isinstance(pos, int):
                raise Unevaluable("x690.decode on something else than the PDU's octets")
            if pos >= len(stream):
                raise Raised(Sym("IndexError"))
            item = stream[pos]
            if want is not None:
                is_seq = isinstance(item, Instance) and "__items__" in item.attrs
                wname = want.cls.name if hasattr(want, "cls") else str(want)
                if (wname == "Sequence") != is_seq:
                    raise Raised(Sym("UnexpectedType"))
            return (item, pos + 1)

        ev = MiniEval(self.ctx, externals={X690_DECODE: decode_model}, max_steps=40000)
        decos = [norm(d) for d in getattr(self.fn.node, "decorator_list", [])]
        lead = [ClassRef(self.pdu)] if "classmethod" in decos else ([] if "staticmethod" in decos else [Instance(self.pdu, [], {})])
        try:
            return "return", ev.call_function(self.fn, lead + [stream]), (oids, vals)
        except Raised as exc:
            return "raise", exc.value, (oids, vals)
        except Unevaluable as exc:
            return "uneval", str(exc), (oids, vals)


def quietly_caught_classes(ctx: Ctx) -> List[Tuple[ClassInfo, str]]:
    """
    Exception classes that some handler around a fetch of the walk loop turns into a normal end of the walk
    (handler that does not re-raise on every path): FaultySNMPImplementation in lenient mode, the noSuchName class.
    """
    from ..engine.patterns import enclosing_tries_of
    from .c01 import all_paths_reraise
    from .walkmodel import WalkModel

    wm = WalkModel(ctx)
    w = wm.walk
    out: List[Tuple[ClassInfo, str]] = []
    for call in wm.fetch_calls:
        for tr, part in enclosing_tries_of(call, w):
            if part != "body":
                continue
            for h in tr.handlers:
                if h.type is None or all_paths_reraise(h):
                    continue
                for t in (h.type.elts if isinstance(h.type, ast.Tuple) else [h.type]):
                    cls = ctx.r.resolve_class(w.module, t)
                    if cls is not None and all(cls.key != c.key for c, _ in out):
                        out.append((cls, w.site(h)))
    return out


def check_not_quietly_caught(ctx: Ctx, rep: Any, rule: str, classes: List[ClassInfo], what: str, allowed: Optional[List[ClassInfo]] = None) -> None:
    """
    None of *classes* (nor their subclasses' bases) derives from a class the walk loop swallows: otherwise the error
    they stand for ends a walk silently with the data gathered so far instead of reaching the caller.
    """
    quiet = quietly_caught_classes(ctx)
    allowed_keys = {c.key for c in (allowed or [])}
    for cls in classes:
        swallowed = [(q, site) for q, site in quiet if ctx.r.is_subclass(cls, q) and q.key not in allowed_keys and cls.key not in allowed_keys]
        rep.check(
            not swallowed,
            rule,
            f"{cls.module.path}:{cls.node.lineno} ({cls.name})",
            f"{cls.name} ({what}) is not a subclass of an exception the walk loop turns into a normal end of the walk",
            "; ".join(f"derives from {q.name}, caught quietly at {site}" for q, site in swallowed),
            key=f"{cls.key}|quietly-caught",
        )


def bound_method_as_closure(ctx: Ctx, maker: FuncInfo, expr: ast.AST) -> Optional[FuncInfo]:
    """
    ``Cls(a, b).meth`` returned by a factory is the closure ``meth`` over the constructor arguments: a view of the
    method without ``self`` in which every ``self.<field>`` is the expression the factory stored there (fields bound by
    plain ``self.f = <param>`` stores of ``__init__``; sibling methods called on self are inlined first).
    None when the expression is not of that form.
    """
    import copy

    from ..engine.context import bind_call_args as _bind

    if isinstance(expr, ast.Call) and not isinstance(expr.func, ast.Attribute) or (isinstance(expr, ast.Call) and ctx.r.resolve_class(maker.module, expr.func) is not None):
        # Cls(a, b) of a class with __call__: the instance is the callable
        kls = ctx.r.resolve_class(maker.module, expr.func)
        if kls is None or ctx.r.method(kls, "__call__") is None:
            return None
        expr = ast.Attribute(value=expr, attr="__call__", ctx=ast.Load())
    if not (isinstance(expr, ast.Attribute) and isinstance(expr.value, ast.Call)):
        return None
    cls = ctx.r.resolve_class(maker.module, expr.value.func)
    if cls is None or cls.module.external:
        return None
    meth = ctx.r.method(cls, expr.attr)
    init = ctx.r.method(cls, "__init__")
    if meth is None or init is None or not meth.params or meth.params[0] != "self":
        return None
    stores: Dict[str, str] = {}
    for st in init.node.body:
        if isinstance(st, ast.Expr) and isinstance(st.value, ast.Constant):
            continue
        tgt = st.targets[0] if isinstance(st, ast.Assign) and len(st.targets) == 1 else None
        if not (isinstance(tgt, ast.Attribute) and isinstance(tgt.value, ast.Name) and tgt.value.id == "self"):
            return None
        if not (isinstance(st.value, ast.Name) and st.value.id in init.params):
            continue  # a derived field (a label, a cache): fine as long as the method does not read it (checked below)
        stores[tgt.attr] = st.value.id
    for klass in ctx.r.mro(cls):
        for other in klass.methods.values():
            if other is not init and any(isinstance(n, ast.Attribute) and n.attr in stores and isinstance(n.ctx, ast.Store) for n in ast.walk(other.node)):
                return None
    bound = _bind(expr.value, init.params, skip_self=True)
    if any(p not in bound for p in stores.values()):
        return None
    node = copy.deepcopy(ctx.inlined(meth).node)  # static / sibling helpers of the small class spliced in
    node.args.args = node.args.args[1:] if not node.args.posonlyargs else node.args.args
    if node.args.posonlyargs:
        node.args.posonlyargs = node.args.posonlyargs[1:]

    class Inl(ast.NodeTransformer):
        def visit_Return(self, n: ast.Return) -> ast.AST:  # noqa: N802
            if n.value is not None:
                n.value = ctx.xexpand(meth, n.value, depth=2, stop=meth.params)
            return n

    class Mark(ast.NodeTransformer):
        """The method's own `self` gets a private name, so that a `self` inside a constructor argument (the factory's) is not confused with it."""

        def visit_Name(self, n: ast.Name) -> ast.AST:  # noqa: N802
            if n.id == "self":
                n.id = "__method_self"
            return n

    class Sub(ast.NodeTransformer):
        def visit_Attribute(self, n: ast.Attribute) -> ast.AST:  # noqa: N802
            if isinstance(n.value, ast.Name) and n.value.id == "__method_self" and n.attr in stores and isinstance(n.ctx, ast.Load):
                return copy.deepcopy(bound[stores[n.attr]])
            return self.generic_visit(n)

    node = Sub().visit(Mark().visit(Inl().visit(node)))
    if any(isinstance(n, ast.Name) and n.id == "__method_self" for n in ast.walk(node)):
        return None
    ast.fix_missing_locations(node)
    view = FuncInfo(maker.module if meth.module is maker.module else meth.module, f"{maker.qualname}.<locals>.{cls.name}.{meth.name}", node, None, maker)
    return view
