"""
Fetcher contracts decided by evaluation (engine/minieval.py).

`Client.multigetnext`, the closure built by `Client._bulkwalk_fetcher` and `Client.bulkget` are functions from
(requested OIDs, the response's binding list) to (result | exception).  Their text can take many shapes (index
loops, zip / chain, takewhile, helper functions, early returns); what the walk and the API rely on is their
contract, written out below.  Each is evaluated on an enumerated family of small responses built from modelled OIDs
(`OidVal`), symbolic values and endOfMibView markers, with `Client._send` modelled as "hand back this response and
record the request".  No repository code runs; a function the evaluator cannot follow yields `None` and the caller
falls back to its structural rules.
"""
from __future__ import annotations

import itertools
from typing import Any, Dict, List, Optional, Tuple

from ..engine.context import Ctx
from ..engine.minieval import FuncRef, Instance, MiniEval, OidVal, Raised, Sym, Unevaluable
from ..engine.universe import ClassInfo, FuncInfo

Verdict = Tuple[bool, str, str]  # ok, text, detail


class FetcherEval:
    def __init__(self, ctx: Ctx) -> None:
        self.ctx = ctx
        self.client = ctx.client()
        self.send_key = ctx.u.maybe_func(ctx.send_method().key).key if ctx.u.maybe_func(ctx.send_method().key) else ctx.send_method().key
        self.vb = ctx.u.cls("puresnmp.varbind:VarBind")
        self.eom = ctx.u.cls("puresnmp.pdu:EndOfMibView")
        self.content = ctx.u.cls("puresnmp.pdu:PDUContent")
        self.response_cls = ctx.u.classes.get("puresnmp.pdu:GetResponse") or ctx.u.cls("puresnmp.pdu:PDU")
        self.snmp_error = ctx.u.cls("puresnmp.exc:SnmpError")
        self.faulty = ctx.u.cls("puresnmp.exc:FaultySNMPImplementation")
        self.uneval: Dict[str, str] = {}

    # ------------------------------------------------------------ modelling
    def binding(self, oid: Tuple[int, ...], value: Any) -> Instance:
        inst = Instance(self.vb, [], {})
        inst.attrs.update(oid=OidVal(oid), value=value)
        inst.attrs["__items__"] = [inst.attrs["oid"], value]
        return inst

    def val(self, name: str) -> Instance:
        """An ordinary (non-marker) value: an x690 Integer object with its own identity."""
        inst = Instance(self.ctx.u.cls("x690.types:Integer"), [name], {})
        inst.attrs.update(value=hash(name) % 1000, pyvalue=hash(name) % 1000)
        return inst

    def marker(self) -> Instance:
        inst = Instance(self.eom, [], {})
        inst.attrs.update(value=None, pyvalue=None)
        return inst

    def response(self, bindings: List[Instance]) -> Instance:
        cont = Instance(self.content, [], {})
        cont.attrs.update(request_id=4242, varbinds=bindings, error_status=0, error_index=0)
        resp = Instance(self.response_cls, [], {})
        resp.attrs.update(value=cont, pyvalue=cont)
        return resp

    def evaluator(self, bindings: List[Instance], requests: List[Any]) -> MiniEval:
        def send_model(args, kwargs):
            requests.append(args[0] if args else kwargs.get("pdu"))
            return self.response(bindings)

        rid = self.ctx.u.maybe_func("puresnmp.util:get_request_id")  # found wherever it lives today (it may have moved to another module)
        externals = {self.send_key: send_model, (rid.key if rid is not None else "puresnmp.util:get_request_id"): lambda a, k: 4242}
        return MiniEval(self.ctx, externals=externals, max_steps=80000)

    def me(self) -> Instance:
        return Instance(self.client, [], {})

    def call(self, ev: MiniEval, target: Any, args: List[Any], kwargs: Optional[Dict[str, Any]] = None):
        try:
            if isinstance(target, FuncRef):
                call_args = ([target.bound_self] if target.bound_self is not None and target.fn.cls is not None else []) + args
                return "return", ev.call_function(target.fn, call_args, kwargs or {}, closure=target.closure)
            return "return", ev.call_function(target, args, kwargs or {})
        except Raised as exc:
            return "raise", exc.value
        except Unevaluable as exc:
            return "uneval", str(exc)

    def exc_is(self, val: Any, cls: ClassInfo) -> bool:
        return isinstance(val, Instance) and self.ctx.r.is_subclass(val.cls, cls)

    def same_bindings(self, got: Any, want: List[Instance]) -> bool:
        if not isinstance(got, list) or len(got) != len(want):
            return False
        for g, w in zip(got, want):
            if not isinstance(g, Instance) or g.cls.key != self.vb.key:
                return False
            go = g.attrs.get("oid", g.args[0] if g.args else None)
            gv = g.attrs.get("value", g.args[1] if len(g.args) > 1 else None)
            if go is not w.attrs["oid"] and go != w.attrs["oid"]:
                return False
            if gv is not w.attrs["value"]:
                return False
        return True

    # ------------------------------------------------------------ response families
    def column_responses(self, oids: List[OidVal], rows: int, partial: int = 0):
        """(label, bindings, first marker position | None, first non-advancing position | None) for a row-major response."""
        n = len(oids)
        m = n * rows + partial

        def advancing() -> List[Instance]:
            return [self.binding(tuple(oids[k % n]) + (k // n + 1,), self.val(f"v{k}")) for k in range(m)]

        yield "every binding advances", advancing(), None, None
        for p in range(m):
            b = advancing()
            b[p] = self.binding(tuple(oids[p % n]) + ((p // n,) if p >= n else ()), self.marker())
            yield f"endOfMibView at position {p}", b, p, None
        for p in range(m):
            for kind in ("equal", "smaller"):
                b = advancing()
                pred = tuple(oids[p]) if p < n else tuple(b[p - n].attrs["oid"])
                new = pred if kind == "equal" else pred[:-1] + (max(pred[-1] - 1, 0),) if pred[-1] > 0 else pred[:-1]
                b[p] = self.binding(new, self.val(f"v{p}"))
                yield f"binding {p} does not advance ({kind})", b, None, p
        if m >= 2:
            b = advancing()
            b[0] = self.binding(tuple(oids[0]), self.val("v0"))
            b[m - 1] = self.binding(tuple(oids[(m - 1) % n]), self.marker())
            yield f"binding 0 does not advance and endOfMibView at position {m - 1}", b, m - 1, 0
        # an echoed OID is no progress whatever value it carries (noSuchObject / noSuchInstance exception values included)
        for p in range(min(m, n)):
            for cls_name in ("NoSuchInstance", "NoSuchObject"):
                kls = self.ctx.u.classes.get(f"puresnmp.pdu:{cls_name}") or self.ctx.u.classes.get(f"puresnmp.types:{cls_name}")
                if kls is None:
                    continue
                b = advancing()
                inst = Instance(kls, [], {})
                inst.attrs.update(value=None, pyvalue=None)
                b[p] = self.binding(tuple(oids[p]), inst)
                yield f"binding {p} echoes the requested OID with a {cls_name} value", b, None, p

    # ------------------------------------------------------------ multigetnext
    def multigetnext(self) -> Optional[List[Verdict]]:
        meth = self.ctx.r.method(self.client, "multigetnext")
        if meth is None:
            return None
        out: List[Verdict] = []
        for n in (1, 2, 3):
            oids = [OidVal((1, 3, 10 * (i + 1))) for i in range(n)]
            for m in (n - 1, n + 1):
                b = [self.binding(tuple(oids[k % n]) + (k + 1,), self.val(f"v{k}")) for k in range(max(m, 0))]
                kind, val = self.call(self.evaluator(b, []), meth, [self.me(), list(oids)])
                if kind == "uneval":
                    self.uneval["multigetnext"] = str(val)
                    return None
                out.append((kind == "raise" and self.exc_is(val, self.snmp_error), f"multigetnext: {n} requested, {m} binding(s) in the response -> refused with SnmpError", f"{kind}: {val!r}"[:200]))
            if n >= 2:
                for m, at in ((n + 1, 1), (n - 1, 0)):
                    b = [self.binding(tuple(oids[k % n]) + (k + 1,), self.val(f"v{k}")) for k in range(m)]
                    b[at] = self.binding(tuple(oids[at % n]), self.marker())
                    kind, val = self.call(self.evaluator(b, []), meth, [self.me(), list(oids)])
                    if kind == "uneval":
                        self.uneval["multigetnext"] = str(val)
                        return None
                    out.append((kind == "raise" and self.exc_is(val, self.snmp_error), f"multigetnext: {n} requested, {m} binding(s) one of which is an endOfMibView -> refused with SnmpError (the count check does not depend on what the bindings hold)", f"{kind}: {val!r}"[:200]))
            for label, b, marker_at, stuck_at in self.column_responses(oids, 1):
                requests: List[Any] = []
                kind, val = self.call(self.evaluator(b, requests), meth, [self.me(), list(oids)])
                if kind == "uneval":
                    self.uneval["multigetnext"] = str(val)
                    return None
                cut = marker_at if marker_at is not None else len(b)
                if stuck_at is not None and stuck_at < cut:
                    ok = kind == "raise" and self.exc_is(val, self.faulty)
                    want = "raises FaultySNMPImplementation"
                else:
                    ok = kind == "return" and self.same_bindings(val, b[:cut])
                    want = f"returns the first {cut} binding(s) as they were received"
                out.append((ok, f"multigetnext: {n} requested, {label} -> {want}", f"{kind}: {val!r}"[:220]))
                if requests and label == "every binding advances":
                    req = requests[0]
                    cont = req.args[0] if isinstance(req, Instance) and req.args else None
                    binds = cont.attrs.get("varbinds") if isinstance(cont, Instance) else None
                    okr = isinstance(req, Instance) and req.cls.name == "GetNextRequest" and isinstance(binds, list) and len(binds) == n
                    if okr:
                        for vb_, o in zip(binds, oids):
                            val_ = vb_.attrs.get("value") if isinstance(vb_, Instance) else None
                            okr = okr and isinstance(vb_, Instance) and vb_.attrs.get("oid") == o and isinstance(val_, Instance) and val_.cls.name == "Null"
                        okr = okr and "error_status" not in (cont.kwargs or {}) and len(cont.args) <= 2
                    out.append((okr, f"multigetnext: a GetNextRequest with one (OID, NULL) binding per requested OID, in the caller's order, is sent ({n} OID(s))", f"{req!r}"[:220]))
        return out

    # ------------------------------------------------------------ multiget / multiset
    def _request_ok(self, req: Any, cls_name: str, pairs: List[Tuple[Any, Any]], null_values: bool) -> bool:
        cont = req.args[0] if isinstance(req, Instance) and req.args else None
        binds = cont.attrs.get("varbinds") if isinstance(cont, Instance) else None
        if not (isinstance(req, Instance) and req.cls.name == cls_name and isinstance(binds, list) and len(binds) == len(pairs)):
            return False
        for vb_, (o, v) in zip(binds, pairs):
            if not isinstance(vb_, Instance):
                return False
            got_o = vb_.attrs.get("oid", vb_.args[0] if vb_.args else None)
            got_v = vb_.attrs.get("value", vb_.args[1] if len(vb_.args) > 1 else None)
            if got_o != o:
                return False
            if null_values:
                if not (isinstance(got_v, Instance) and got_v.cls.name == "Null"):
                    return False
            elif got_v is not v:
                return False
        return "error_status" not in (cont.kwargs or {}) and "error_index" not in (cont.kwargs or {}) and len(cont.args) <= 2

    def multiget(self) -> Optional[List[Verdict]]:
        meth = self.ctx.r.method(self.client, "multiget")
        if meth is None:
            return None
        out: List[Verdict] = []
        a, b_, c = OidVal((1, 3, 10)), OidVal((1, 3, 20)), OidVal((1, 3, 30))
        families = [("1 OID", [a]), ("2 OIDs", [a, b_]), ("3 OIDs", [a, b_, c]), ("3 OIDs in descending order", [c, b_, a]), ("the same OID twice", [a, a]), ("the same OID first and last", [a, b_, a]), ("the zero-length OID and another", [OidVal(()), a])]
        for label, oids in families:
            n = len(oids)
            for m in (n - 1, n, n + 1):
                resp = [self.binding(tuple(oids[k % n]), self.val(f"v{k}")) for k in range(m)]
                requests: List[Any] = []
                kind, val = self.call(self.evaluator(resp, requests), meth, [self.me(), list(oids)])
                if kind == "uneval":
                    self.uneval["multiget"] = str(val)
                    return None
                if m != n:
                    out.append((kind == "raise" and self.exc_is(val, self.snmp_error), f"multiget: {label} requested, {m} binding(s) in the response -> refused with SnmpError", f"{kind}: {val!r}"[:200]))
                    continue
                ok = kind == "return" and isinstance(val, list) and len(val) == n and all(g is w.attrs["value"] for g, w in zip(val, resp))
                out.append((ok, f"multiget: {label} requested, {n} binding(s) in the response -> the response's values, one per requested position, in order", f"{kind}: {val!r}"[:220]))
                okr = len(requests) == 1 and self._request_ok(requests[0], "GetRequest", [(o, None) for o in oids], True)
                out.append((okr, f"multiget: {label}: one GetRequest with one (OID, NULL) binding per requested position, in the caller's order, is sent", f"{requests!r}"[:220]))
        return out

    def multiset(self) -> Optional[List[Verdict]]:
        meth = self.ctx.r.method(self.client, "multiset")
        if meth is None:
            return None
        out: List[Verdict] = []
        all_oids = [OidVal((1, 3, 30)), OidVal((1, 3, 10)), OidVal((1, 3, 20))]  # insertion order is not sorted order
        for n in (1, 2, 3):
            oids = all_oids[:n]
            values = [self.val(f"set{k}") for k in range(n)]
            mapping = dict(zip(oids, values))
            for m in (n - 1, n, n + 1):
                extra = [OidVal((1, 3, 99))]
                resp = [self.binding(tuple((oids + extra)[k]), self.val(f"confirmed{k}")) for k in range(m)]
                requests: List[Any] = []
                kind, val = self.call(self.evaluator(resp, requests), meth, [self.me(), dict(mapping)])
                if kind == "uneval":
                    self.uneval["multiset"] = str(val)
                    return None
                if m != n:
                    out.append((kind == "raise" and self.exc_is(val, self.snmp_error), f"multiset: {n} requested, {m} binding(s) in the response -> refused with SnmpError", f"{kind}: {val!r}"[:200]))
                    continue
                ok = kind == "return" and isinstance(val, dict) and list(val.keys()) == [w.attrs["oid"] for w in resp] and all(val[w.attrs["oid"]] is w.attrs["value"] for w in resp)
                out.append((ok, f"multiset: {n} requested, {n} binding(s) in the response -> what the agent confirmed, OID by OID", f"{kind}: {val!r}"[:220]))
                okr = len(requests) == 1 and self._request_ok(requests[0], "SetRequest", list(zip(oids, values)), False)
                out.append((okr, f"multiset: one SetRequest carrying exactly the {n} (OID, typed value) pair(s) supplied, in the caller's order, is sent", f"{requests!r}"[:220]))
            # a value without SNMP type information never reaches the wire
            untyped = dict(mapping)
            untyped[oids[-1]] = 5
            requests = []
            kind, val = self.call(self.evaluator([], requests), meth, [self.me(), untyped])
            if kind == "uneval":
                self.uneval["multiset"] = str(val)
                return None
            out.append((kind == "raise" and not requests, f"multiset: a value that is not an x690 typed value ({n} pair(s)) -> refused before anything is sent", f"{kind}: {val!r}, {len(requests)} request(s)"[:200]))
        return out

    def multigetnext_keeps_positions(self) -> Optional[bool]:
        """multigetnext([oid at the end of the view, oid with a successor]): is the second OID's successor reported?"""
        meth = self.ctx.r.method(self.client, "multigetnext")
        if meth is None:
            return None
        oids = [OidVal((1, 3, 10)), OidVal((1, 3, 20))]
        b = [self.binding((1, 3, 10), self.marker()), self.binding((1, 3, 20, 1), self.val("succ"))]
        kind, val = self.call(self.evaluator(b, []), meth, [self.me(), list(oids)])
        if kind == "uneval":
            return None
        return kind == "return" and isinstance(val, list) and any(isinstance(x, Instance) and x.attrs.get("oid") == OidVal((1, 3, 20, 1)) for x in val)

    # ------------------------------------------------------------ bulk fetcher
    def bulk_fetcher(self) -> Optional[List[Verdict]]:
        factory = self.ctx.r.method(self.client, "_bulkwalk_fetcher")
        if factory is None:
            from .walkmodel import WalkModel

            factory = WalkModel(self.ctx).bulk_factory
        out: List[Verdict] = []
        for n, size in itertools.product((1, 2), (1, 2, 3)):
            oids = [OidVal((1, 3, 10 * (i + 1))) for i in range(n)]
            shapes = []
            for rows in range(0, size + 1):
                shapes += list(self.column_responses(oids, rows))
            if n > 1 and size > 1:
                shapes += list(self.column_responses(oids, size - 1, partial=1))
            too_many = [self.binding(tuple(oids[k % n]) + (k // n + 1,), self.val(f"v{k}")) for k in range(n * size + 1)]
            shapes.append(("one binding more than max-repetitions allows", too_many, None, None))
            for label, b, marker_at, stuck_at in shapes:
                requests: List[Any] = []
                ev = self.evaluator(b, requests)
                kind, fetcher = self.call(ev, factory, [self.me(), size])
                if kind == "return" and isinstance(fetcher, Instance) and self.ctx.r.method(fetcher.cls, "__call__") is not None:
                    fetcher = FuncRef(self.ctx.r.method(fetcher.cls, "__call__"), bound_self=fetcher)  # a callable object
                if kind != "return" or not isinstance(fetcher, FuncRef):
                    self.uneval["bulk fetcher"] = f"factory: {kind} {fetcher!r}"
                    return None
                kind, val = self.call(ev, fetcher, [list(oids)])
                if kind == "uneval":
                    self.uneval["bulk fetcher"] = str(val)
                    return None
                text = f"bulk fetcher (bulk size {size}): {n} requested, {len(b)} binding(s), {label}"
                if len(b) > n * size:
                    out.append((kind == "raise" and self.exc_is(val, self.snmp_error), f"{text} -> refused with SnmpError (RFC 3416 bound N + M*R)", f"{kind}: {val!r}"[:200]))
                    continue
                cut = marker_at if marker_at is not None else len(b)
                if stuck_at is not None and stuck_at < cut:
                    ok = kind == "raise" and self.exc_is(val, self.faulty)
                    want = "raises FaultySNMPImplementation"
                else:
                    ok = kind == "return" and self.same_bindings(val, b[:cut])
                    want = f"returns the first {cut} binding(s) in response order"
                out.append((ok, f"{text} -> {want}", f"{kind}: {val!r}"[:220]))
                # the fetcher keeps nothing between calls: after this response the same closure, asked again, sends a
                # request and hands out what that response holds
                if marker_at is not None or len(b) < n * size:
                    nxt = [self.binding(tuple(oids[k % n]) + (50 + k // n,), self.val(f"w{k}")) for k in range(n)]
                    requests2: List[Any] = []
                    ev.externals[self.send_key] = (lambda args, kwargs, nxt=nxt, requests2=requests2: (requests2.append(args[0] if args else None), self.response(nxt))[1])
                    kind2, val2 = self.call(ev, fetcher, [list(oids)])
                    if kind2 != "uneval" and kind == "return":
                        ok2 = kind2 == "return" and len(requests2) == 1 and self.same_bindings(val2, nxt)
                        out.append((ok2, f"{text}; the same fetcher asked again -> sends a new request and returns that response's bindings (no state kept between calls)", f"{kind2}: {val2!r}, {len(requests2)} request(s)"[:220]))
                # the request that went out
                if requests and label == "every binding advances":
                    req = requests[0]
                    rargs = req.args if isinstance(req, Instance) else []
                    okr = isinstance(req, Instance) and req.cls.name == "BulkGetRequest" and len(rargs) == 3 + n and rargs[1] == 0 and rargs[2] == size and all(a == o for a, o in zip(rargs[3:], oids))
                    out.append((okr, f"bulk fetcher (bulk size {size}): GETBULK(non-repeaters 0, max-repetitions {size}, the {n} requested OID(s) in order) is sent", f"{req!r}"[:200]))
        return out

    # ------------------------------------------------------------ bulkget
    def bulkget(self) -> Optional[List[Verdict]]:
        meth = self.ctx.r.method(self.client, "bulkget")
        if meth is None:
            return None
        out: List[Verdict] = []
        for s, r, size, dup in list(itertools.product((0, 1, 2), (1, 2), (1, 2, 3), (False,))) + [(2, 1, 2, True), (1, 1, 2, True), (1, 2, 1, True)]:
            scalars = [OidVal((1, 3, 1, i + 1)) for i in range(s)]
            reps = [OidVal((1, 3, 20 * (i + 1))) for i in range(r)]
            if dup:
                # the same OID twice (legal: every position of the request gets its own binding in the response)
                if s >= 2:
                    scalars[1] = scalars[0]
                elif r >= 2:
                    reps[1] = reps[0]
                else:
                    reps[0] = scalars[0]
            bound = s + size * r
            for m in sorted({0, s, s + r, bound - 1, bound, bound + 1}):
                if m < 0:
                    continue
                for variant in ("plain", "scalar-marker", "listing-marker"):
                    b = []
                    for k in range(m):
                        if k < s:
                            b.append(self.binding(tuple(scalars[k]) + (0,), self.val(f"s{k}")))
                        else:
                            j = k - s
                            b.append(self.binding(tuple(reps[j % r]) + (j // r + 1,), self.val(f"l{j}")))
                    marker_at = None
                    if variant == "scalar-marker":
                        if not (s and m >= s):
                            continue
                        b[0] = self.binding(tuple(scalars[0]), self.marker())
                    if variant == "listing-marker":
                        if m <= s + 1:
                            continue
                        marker_at = s + 1
                        b[marker_at] = self.binding(tuple(reps[(marker_at - s) % r]), self.marker())
                    requests: List[Any] = []
                    sc_arg, rp_arg = list(scalars), list(reps)
                    kind, val = self.call(self.evaluator(b, requests), meth, [self.me(), sc_arg, rp_arg, size])
                    if kind == "uneval":
                        self.uneval["bulkget"] = str(val)
                        return None
                    text = f"bulkget: {s} non-repeater(s), {r} repeater(s), max-repetitions {size}, {m} binding(s) in the response ({variant})"
                    if sc_arg != scalars or rp_arg != reps:
                        out.append((False, "bulkget leaves the caller's OID lists as they were (the same list objects describe the same request when they are used again)", f"after the call: scalar_oids = {sc_arg!r}, repeating_oids = {rp_arg!r}"[:240]))
                    if m > bound:
                        out.append((kind == "raise" and self.exc_is(val, self.snmp_error), f"{text} -> refused with SnmpError (bound {bound})", f"{kind}: {val!r}"[:200]))
                        continue
                    ok = kind == "return" and isinstance(val, Instance) and val.cls.name == "BulkResult"
                    if ok:
                        sc = val.attrs.get("scalars", val.args[0] if val.args else None)
                        li = val.attrs.get("listing", val.args[1] if len(val.args) > 1 else None)
                        want_s = {x.attrs["oid"]: x.attrs["value"] for x in b[:s]}
                        cut = marker_at if marker_at is not None else m
                        want_l = [(x.attrs["oid"], x.attrs["value"]) for x in b[s:cut]]
                        ok = isinstance(sc, dict) and isinstance(li, dict) and set(sc) == set(want_s) and all(sc[k] is want_s[k] for k in sc)
                        # a repeated OID keeps its first position and its last value (mapping semantics of the result type)
                        want_map: Dict[Any, Any] = {}
                        for k, v in want_l:
                            want_map[k] = v
                        ok = ok and list(li.keys()) == list(want_map.keys()) and all(li[k] is want_map[k] for k in li)
                    out.append((ok, f"{text} -> scalars = the first {s} binding(s) (an endOfMibView value is a value), listing = the rest up to the first endOfMibView, in response order", f"{kind}: {val!r}"[:240]))
                    if requests and variant == "plain" and m == bound:
                        req = requests[0]
                        rargs = req.args if isinstance(req, Instance) else []
                        okr = isinstance(req, Instance) and req.cls.name == "BulkGetRequest" and len(rargs) == 3 + s + r and rargs[1] == s and rargs[2] == size and list(rargs[3:]) == scalars + reps
                        out.append((okr, f"bulkget: GETBULK(non-repeaters {s}, max-repetitions {size}, non-repeater OIDs then repeater OIDs) is sent", f"{req!r}"[:200]))
        return out


def fetcher_eval(ctx: Ctx) -> FetcherEval:
    cached = getattr(ctx, "_fetcher_eval", None)
    if cached is None:
        cached = FetcherEval(ctx)
        cached.results = {"multigetnext": cached.multigetnext(), "bulk_fetcher": cached.bulk_fetcher(), "bulkget": cached.bulkget(), "multiget": cached.multiget(), "multiset": cached.multiset()}  # type: ignore[attr-defined]
        ctx._fetcher_eval = cached  # type: ignore[attr-defined]
    return cached


def emit(ctx: Ctx, rep: Any, rule: str, which: List[str]) -> set:
    """
    Reports the evaluated contracts named in *which* under *rule*; returns the names that were decided (the caller
    skips its structural reading of those functions).  Contracts the evaluator could not follow are mentioned as
    information and left to the structural rules.
    """
    fe = fetcher_eval(ctx)
    site_of = {
        "multigetnext": lambda: ctx.r.method(fe.client, "multigetnext").site(),
        "bulk_fetcher": lambda: (ctx.r.method(fe.client, "_bulkwalk_fetcher") or ctx.send_method()).site(),
        "bulkget": lambda: ctx.r.method(fe.client, "bulkget").site(),
        "multiget": lambda: ctx.r.method(fe.client, "multiget").site(),
        "multiset": lambda: ctx.r.method(fe.client, "multiset").site(),
    }
    decided = set()
    for name in which:
        verdicts = fe.results.get(name)  # type: ignore[attr-defined]
        if verdicts is None:
            rep.info(f"{name} is not followed by the evaluator ({fe.uneval.get(name.replace('_', ' '), fe.uneval.get(name, '?'))}); reading its structure instead")
            continue
        decided.add(name)
        site = site_of[name]()
        bad = [v for v in verdicts if not v[0]]
        good = len(verdicts) - len(bad)
        rep.check(True, rule, site, f"{name.replace('_', ' ')}: {good} of {len(verdicts)} evaluated request / response configurations meet the contract (count check, prefix up to the first endOfMibView in response order, progress check position by position, GETBULK counters and bound)", "")
        for ok, text, detail in bad[:6]:
            rep.check(False, rule, site, text, detail, key=f"{name}|contract|{text.split(':', 1)[-1][:70]}")
    return decided
