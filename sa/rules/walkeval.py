"""
Walk helper functions decided by evaluation (engine/minieval.py).

`group_varbinds`, `get_unfinished_walk_oids` and `tablify` are pure functions over lists of bindings and OIDs.
Their text can take many equivalent forms (index loops, enumerate, dict comprehensions, filter-then-sort, helper
functions); each is evaluated here on an enumerated family of small, structurally exhaustive inputs built from
modelled OIDs (`OidVal`: x690's containment and ordering) and symbolic values, and the result is compared with the
specification written out below.  A function the evaluator cannot follow is left to the structural rules (the caller
falls back when `False` is returned).
"""
from __future__ import annotations

import itertools
from typing import Any, Dict, List, Optional, Tuple

from ..engine.context import Ctx
from ..engine.minieval import Instance, MiniEval, OidVal, Raised, Sym, Unevaluable
from ..engine.report import Report
from ..engine.universe import FuncInfo


def mk_varbind(ctx: Ctx, oid: Tuple[int, ...], name: str) -> Instance:
    cls = ctx.u.cls("puresnmp.varbind:VarBind")
    inst = Instance(cls, [], {})
    inst.attrs.update(oid=OidVal(oid), value=Sym(name))
    inst.attrs["__items__"] = [inst.attrs["oid"], inst.attrs["value"]]  # a VarBind unpacks into (oid, value)
    return inst


def run(ctx: Ctx, fn: FuncInfo, args: List[Any], kwargs: Optional[Dict[str, Any]] = None):
    try:
        return "return", MiniEval(ctx, max_steps=60000).call_function(fn, args, kwargs or {})
    except Raised as exc:
        return "raise", exc.value
    except Unevaluable as exc:
        return "uneval", str(exc)


# ------------------------------------------------------------------ group_varbinds
def eval_group(ctx: Ctx, rep: Report, fn: FuncInfo, rule: str) -> bool:
    """
    Specification: with n requested OIDs E and the response's bindings V (row by row), E[i] owns V[i::n].  With user
    roots U the entry of E[i] is filed under the one root of U that contains E[i]; an E[i] outside every root is
    dropped.
    """
    cases = []
    for n in (1, 2, 3):
        for m in sorted({0, n, 2 * n, 3 * n, 2 * n + 1 if n > 1 else 2, 3 * n - 1}):
            if m < 0:
                continue
            cases.append((n, m, None))
    for n in (1, 2, 3):
        cases.append((n, 2 * n, "continuation"))
        cases.append((n, 2 * n + (1 if n > 1 else 0), "continuation"))
    cases.append((2, 4, "one-outside"))
    # some roots are finished already: fewer continuation OIDs than user roots
    for n in (1, 2):
        cases.append((n, 3 * n, "shrunk"))
        cases.append((n, 2 * n + (1 if n > 1 else 0), "shrunk"))
    decided = []
    for n, m, mode in cases:
        user = [OidVal((1, 3, 10 * (i + 1))) for i in range(n)]
        if mode is None:
            eff = list(user)
        else:
            eff = [OidVal(tuple(u) + (7, i)) for i, u in enumerate(user)]  # continuation OIDs lie inside their root
            if mode == "one-outside":
                eff[1] = OidVal((1, 3, 99, 1))
            if mode == "shrunk":
                user = [OidVal((1, 3, 5))] + user + [OidVal((1, 3, 77)), OidVal((1, 3, 78))]  # finished roots around
        V = [mk_varbind(ctx, tuple(eff[k % n]) + (k // n + 1,), f"v{k}") for k in range(m)]
        args: List[Any] = [V, eff]
        kwargs = {} if mode is None else {"user_roots": user}
        kind, got = run(ctx, fn, args, kwargs)
        if kind == "uneval":
            rep.info(f"{fn.qualname} is not followed by the evaluator ({got}); reading its structure instead")
            return False
        want: Dict[Any, List[Any]] = {}
        for i in range(n):
            key = eff[i] if mode is None else next((u for u in user if eff[i] in u), None)
            if key is not None:
                want[key] = V[i::n]
        ok = kind == "return" and isinstance(got, dict) and set(got) == set(want) and all(len(got[k]) == len(want[k]) and all(a is b for a, b in zip(got[k], want[k])) for k in want)
        decided.append((ok, f"{n} requested OID(s), {m} binding(s){', regrouped under the user roots' if mode else ''}{' (one continuation OID outside every root)' if mode == 'one-outside' else ''}", f"{kind}: {got!r}"[:260]))
    for ok, text, detail in decided:
        rep.check(ok, rule, fn.site(), f"{fn.name}: {text}: requested OID i owns bindings i, i+n, i+2n, ... in response order", detail, key=f"{fn.key}|regroup")
    return True


# ------------------------------------------------------------------ get_unfinished_walk_oids
def unfinished_cases(ctx: Ctx):
    """(grouped mapping in insertion order, expected [(root, last binding)] ascending by root)."""
    roots = [OidVal((1, 3, 2)), OidVal((1, 3, 10)), OidVal((1, 3, 5, 1))]
    shapes = ["empty", "inside", "outside", "inside-then-outside", "two-inside", "outside-digit-prefix"]
    out = []
    for k in (1, 2, 3):
        for order in itertools.permutations(range(k)):
            for combo in itertools.product(shapes, repeat=k):
                if k == 3 and order != tuple(range(k)) and combo.count("inside") + combo.count("two-inside") < 2:
                    continue  # keep the family small: ordering matters only with several survivors
                grouped: Dict[Any, List[Any]] = {}
                want = []
                for idx in order:
                    root, shape = roots[idx], combo[idx]
                    inside1 = mk_varbind(ctx, tuple(root) + (1,), f"r{idx}a")
                    inside2 = mk_varbind(ctx, tuple(root) + (2, 1), f"r{idx}b")
                    outside = mk_varbind(ctx, tuple(root[:-1]) + (root[-1] + 1, 0), f"r{idx}x")
                    # outside, but its dotted form starts with the root's (1.3.2 / 1.3.21.0): containment is by arcs, not by text
                    outside_p = mk_varbind(ctx, tuple(root[:-1]) + (root[-1] * 10 + 1, 0), f"r{idx}p")
                    binds = {"empty": [], "inside": [inside1], "outside": [outside], "inside-then-outside": [inside1, outside], "two-inside": [inside1, inside2], "outside-digit-prefix": [inside1, outside_p]}[shape]
                    grouped[root] = binds
                    if binds and binds[-1].attrs["oid"] in root:
                        want.append((root, binds[-1]))
                want.sort(key=lambda t: tuple(t[0]))
                out.append((grouped, want, f"roots {[str(roots[i]) for i in order]} with {[combo[i] for i in order]}"))
    return out


def eval_unfinished(ctx: Ctx, rep: Report, fn: FuncInfo, r5: str, r6: str) -> bool:
    """
    Specification: a root is continued iff it received bindings and the OID of the last one lies inside the root;
    the continuation point is that last binding; the list is ascending by root.
    """
    row_cls = ctx.u.classes.get("puresnmp.util:WalkRow")
    results = []
    for grouped, want, text in unfinished_cases(ctx):
        kind, got = run(ctx, fn, [grouped])
        if kind == "uneval":
            rep.info(f"{fn.qualname} is not followed by the evaluator ({got}); reading its structure instead")
            return False
        ok_members = ok_order = ok_rows = kind == "return" and isinstance(got, list)
        if ok_members:
            pairs = []
            for item in got:
                if not (isinstance(item, tuple) and len(item) == 2 and isinstance(item[1], Instance)):
                    ok_members = ok_rows = False
                    break
                row = item[1]
                last = row.attrs.get("value", row.args[0] if row.args else None)
                flag = row.attrs.get("unfinished", row.args[1] if len(row.args) > 1 else None)
                ok_rows = ok_rows and (row_cls is None or row.cls.key == row_cls.key) and flag is True
                pairs.append((item[0], last))
            if ok_members:
                ok_members = sorted(((tuple(r), id(b)) for r, b in pairs)) == sorted(((tuple(r), id(b)) for r, b in want))
                ok_order = [tuple(r) for r, _ in pairs] == sorted(tuple(r) for r, _ in pairs)
        results.append((ok_members and ok_rows, ok_order, text, f"{kind}: {got!r}"[:220]))
    bad_m = [r for r in results if not r[0]]
    bad_o = [r for r in results if not r[1]]
    rep.check(not bad_m, r6, fn.site(), f"{fn.name}: a root continues exactly when it received bindings and the last one's OID lies inside it; it continues from that last binding ({len(results)} configurations evaluated)", "; ".join(f"{t}: {d}" for _, _, t, d in bad_m[:2]), key=f"{fn.key}|unfinished-semantics")
    rep.check(not bad_o, r5, fn.site(), f"{fn.name}: the continuation list is ascending by root whatever the order of the mapping ({len(results)} configurations evaluated)", "; ".join(f"{t}: {d}" for _, _, t, d in bad_o[:2]), key=f"{fn.key}|unfinished-sorted")
    return True


def returns_sorted_by_evaluation(ctx: Ctx, fn: FuncInfo) -> Optional[bool]:
    """True / False when every evaluated configuration comes back ascending / some does not; None when not evaluable."""
    verdict = True
    for grouped, _, _ in unfinished_cases(ctx):
        kind, got = run(ctx, fn, [grouped])
        if kind == "uneval":
            return None
        if kind != "return" or not isinstance(got, list):
            return False
        keys = [tuple(item[0]) for item in got if isinstance(item, tuple) and item]
        verdict = verdict and keys == sorted(keys)
    return verdict


# ------------------------------------------------------------------ tablify
def eval_tablify(ctx: Ctx, rep: Report, fn: FuncInfo, r2: str, r3: str) -> bool:
    """
    Specification: with `num_base_nodes` = b the cell OID is base(b arcs) . column . index(1..k arcs); every cell
    lands in the row of its complete index (key '0' = index arcs joined by '.') under str(column); rows accumulate
    and are returned once each, in order of first appearance.
    """
    results = []
    for base_len in (1, 2, 3, 7):
        base = tuple(range(1, base_len + 1))
        for indices in ([(5,)], [(5,), (6,)], [(10, 2), (10, 3), (1, 0)], [(1, 0, 3), (1, 0, 4)], [(0,), (10,), (100,)], [(4, 10, 0), (16, 1, 2, 3, 4)], [(7,), (7, 1), (8, 2, 2)]):  # the last two: indices of different lengths (ipAddressTable style)
            for columns in ([1], [1, 2], [2, 10, 20]):
                cells = []
                k = 0
                for col in columns:
                    for idx in indices:
                        if len(columns) > 1 and col == columns[-1] and idx == indices[0] and len(indices) > 1:
                            continue  # a sparse column: first row has no cell here
                        cells.append(mk_varbind(ctx, base + (col,) + idx, f"c{k}"))
                        k += 1
                kind, got = run(ctx, fn, [cells], {"num_base_nodes": base_len})
                if kind == "uneval":
                    rep.info(f"{fn.qualname} is not followed by the evaluator ({got}); reading its structure instead")
                    return False
                want: Dict[str, Dict[str, Any]] = {}
                for cell in cells:
                    nodes = tuple(cell.attrs["oid"])
                    col, idx = nodes[base_len], nodes[base_len + 1:]
                    rid = ".".join(str(n) for n in idx)
                    want.setdefault(rid, {"0": rid})[str(col)] = cell.attrs["value"]
                ok = kind == "return" and isinstance(got, list) and all(isinstance(r, dict) for r in got)
                ok_rows = ok and [r.get("0") for r in got] == list(want)
                ok_cells = ok_rows and all(set(r) == set(want[r["0"]]) and all(r[c] is want[r["0"]][c] or r[c] == want[r["0"]][c] for c in r) for r in got)
                results.append((ok_rows, ok_cells, f"{base_len} base arc(s), columns {columns}, indices {['.'.join(map(str, i)) for i in indices]}", f"{kind}: {got!r}"[:260]))
    bad_r = [r for r in results if not r[0]]
    bad_c = [r for r in results if not r[1]]
    rep.check(not bad_r, r3, fn.site(), f"{fn.name}: one row per distinct complete index, stored under '0' as the index arcs joined by '.', each row returned once ({len(results)} table shapes evaluated)", "; ".join(f"{t}: {d}" for _, _, t, d in bad_r[:2]), key=f"{fn.key}|row-accumulation")
    rep.check(not bad_c, r2, fn.site(), f"{fn.name}: every cell lands in the row of its index under str(column arc), columns and rows partition the arcs after the base ({len(results)} table shapes evaluated)", "; ".join(f"{t}: {d}" for _, _, t, d in bad_c[:2]), key=f"{fn.key}|partition")
    return True


# ------------------------------------------------------------------ deduped_varbinds (the walk's filter)
def eval_filter(ctx: Ctx, rep: Report, fn: FuncInfo, r1: str, r2: str, r8: str) -> bool:
    """
    Specification: the bindings of the regrouped batch are visited root by root in mapping order and, within a root,
    in the order received; a binding is yielded iff its OID lies inside one of the walk's roots (x690 containment,
    not a textual prefix) and has not been yielded before - in an earlier batch (the seen-set handed in) or earlier
    in this very batch; every yielded OID ends up in the seen-set.
    """
    import itertools as _it

    r_a, r_b = OidVal((1, 3, 2)), OidVal((1, 3, 20))
    cases = []
    kinds = ["inside-new", "inside-seen", "outside", "prefix-trap", "other-root", "dup-in-batch"]
    for roots in ([r_a], [r_a, r_b], [r_b, r_a]):
        for combo in _it.product(kinds, repeat=2):
            cases.append((roots, combo))
    results = []
    for roots, combo in cases:
        seen_before = set()
        grouped: Dict[Any, List[Any]] = {}
        counter = [0]

        def mk(oid):
            counter[0] += 1
            return mk_varbind(ctx, oid, f"b{counter[0]}")

        first_root = roots[0]
        shared = mk(tuple(roots[-1]) + (9, 9))  # an instance of the last root, also delivered in the first root's column
        lst = []
        for i, kind in enumerate(combo):
            base = tuple(first_root)
            if kind == "inside-new":
                lst.append(mk(base + (1, i)))
            elif kind == "inside-seen":
                vb = mk(base + (2, i))
                seen_before.add(vb.attrs["oid"])
                lst.append(vb)
            elif kind == "outside":
                lst.append(mk((1, 4, i)))
            elif kind == "prefix-trap":
                lst.append(mk(base[:-1] + (base[-1] * 10 + 5, i)))  # 1.3.2 vs 1.3.25.x / 1.3.20 vs 1.3.205.x: textual prefix only
            elif kind == "other-root":
                lst.append(mk(tuple(roots[-1]) + (3, i)))
            elif kind == "dup-in-batch":
                lst.append(shared)
        grouped[first_root] = lst
        for other in roots[1:]:
            grouped[other] = [shared, mk(tuple(other) + (7,))]
        seen = set(seen_before)
        kind, got = run(ctx, fn, [list(roots), grouped, seen])
        if kind == "uneval":
            rep.info(f"{fn.qualname} is not followed by the evaluator ({got}); reading its structure instead")
            return False
        want = []
        ws = set(seen_before)
        for root_key, binds in grouped.items():
            for vb in binds:
                oid = vb.attrs["oid"]
                if any(oid in r for r in roots) and oid not in ws:
                    ws.add(oid)
                    want.append(vb)
        # between roots any order is fine (the implementation sorts the columns); within one root's column the order
        # received must be kept
        def column_order_kept(seq) -> bool:
            pos = {id(x): i for i, x in enumerate(seq)}
            multi = {id(b) for binds in grouped.values() for b in binds if sum(1 for bl in grouped.values() for x in bl if x is b) > 1}
            for binds in grouped.values():
                idxs = [pos[id(b)] for b in binds if id(b) in pos and id(b) not in multi]
                if idxs != sorted(idxs):
                    return False
            return True

        ok_yield = kind == "return" and isinstance(got, list) and column_order_kept(got)
        # the same instance delivered twice in one batch is one object here: membership is by OID, each once
        ok_members = kind == "return" and isinstance(got, list) and sorted(tuple(x.attrs["oid"]) for x in got) == sorted(tuple(x.attrs["oid"]) for x in want)
        ok_seen = kind == "return" and ws <= seen
        results.append((ok_members, ok_yield, ok_seen, f"roots {[str(r) for r in roots]}, first root's column: {list(combo)}", f"{kind}: yielded {[str(x.attrs['oid']) for x in got] if isinstance(got, list) else got!r}, expected {[str(x.attrs['oid']) for x in want]}"[:300]))
    bad1 = [r for r in results if not r[0]]
    bad8 = [r for r in results if r[0] and not r[1]]
    bad2 = [r for r in results if not r[2]]
    n = len(results)
    rep.check(not bad1, r1, fn.site(), f"{fn.name}: exactly the bindings inside a walked root that were not delivered before are yielded - once, also when an instance arrives twice in one batch ({n} batches evaluated)", "; ".join(f"{t}: {d}" for *_, t, d in bad1[:2]), key=f"{fn.key}|filter-semantics")
    rep.check(not bad2, r2, fn.site(), f"{fn.name}: every yielded OID is recorded in the seen-set shared by all rounds ({n} batches evaluated)", "; ".join(f"{t}: {d}" for *_, t, d in bad2[:2]), key=f"{fn.key}|seen-add")
    rep.check(not bad8, r8, fn.site(), f"{fn.name}: bindings are yielded root by root, within a root in the order received ({n} batches evaluated)", "; ".join(f"{t}: {d}" for *_, t, d in bad8[:2]), key=f"{fn.key}|reordered-within-root")
    return True


# ------------------------------------------------------------------ PyWrapper.table / bulktable (row conversion)
def eval_wrapper_table(ctx: Ctx, rep: Report, wrapper, name: str, rule: str) -> bool:
    """
    Specification: the pythonic table operations hand back one row per raw row, in the same order; the row index under
    '0' is the raw row's index string unchanged, every other cell is `pythonize()` of the raw cell under the same
    column key - for full tables, sparse tables (a column missing in the first or in a later row) and empty ones.
    The raw operation is modelled as "returns these rows".
    """
    meth = wrapper.methods.get(name)
    client_cls = ctx.client()
    raw = ctx.r.method(client_cls, name)
    if meth is None or raw is None:
        return False
    int_cls = ctx.u.cls("x690.types:Integer")
    results = []
    shapes = {
        "empty table": [],
        "one row, one column": [{"0": "1", "1": "a"}],
        "2 rows x 2 columns": [{"0": "1", "1": "a", "2": "b"}, {"0": "2", "1": "c", "2": "d"}],
        "first row lacks a column the second row has": [{"0": "1", "1": "a"}, {"0": "2", "1": "c", "4": "d"}],
        "second row lacks a column": [{"0": "10.1", "1": "a", "2": "b"}, {"0": "10.2", "2": "d"}],
        "column keys in descending order": [{"0": "7", "20": "a", "3": "b"}],
    }
    for label, spec in shapes.items():
        cells: Dict[str, Instance] = {}
        rows = []
        for r_i, row in enumerate(spec):
            built: Dict[str, Any] = {}
            for key, tok in row.items():
                if key == "0":
                    built[key] = tok
                else:
                    inst = Instance(int_cls, [], {})
                    py = Sym(f"py({tok}@{r_i})")
                    inst.attrs.update(value=py, pyvalue=py)
                    cells[f"{r_i}:{key}"] = inst
                    built[key] = inst
            rows.append(built)
        snapshot = [dict(r) for r in rows]
        me = Instance(wrapper, [], {})
        me.attrs["client"] = Instance(client_cls, [], {})
        ev = MiniEval(ctx, externals={raw.key: (lambda args, kwargs, rows=rows: rows)}, max_steps=40000)
        try:
            kind, got = "return", ev.call_function(meth, [me, "1.3.6.1.2.1.2.2"], {})
        except Raised as exc:
            kind, got = "raise", exc.value
        except Unevaluable as exc:
            rep.info(f"{meth.qualname} is not followed by the evaluator ({exc}); reading its structure instead")
            return False
        ok = kind == "return" and isinstance(got, list) and len(got) == len(snapshot) and all(isinstance(g, dict) for g in got)
        if ok:
            for g, w in zip(got, snapshot):
                if set(g) != set(w) or g.get("0") != w["0"]:
                    ok = False
                    break
                for key, cell in w.items():
                    if key != "0" and g[key] is not cell.attrs["value"]:
                        ok = False
        results.append((ok, label, f"{kind}: {got!r}"[:240]))
    bad = [r for r in results if not r[0]]
    rep.check(
        not bad,
        rule,
        meth.site(),
        f"wrapper {name}: one converted row per raw row, in order; the index under '0' unchanged, every other cell the pythonized raw cell of the same column ({len(results)} table shapes evaluated, sparse ones included)",
        "; ".join(f"{t}: {d}" for _, t, d in bad[:2]),
        key=f"{meth.key}|rows-converted",
    )
    return True
